#!/bin/bash
# tools_sweep.sh <tier> [ids...] : run the checks one after the other, one summary line each (exit status, counts, wall time)
cd "$(dirname "$0")"
tier=${1:-quick}; shift
ids=${@:-C14 C08 C11 C17 C02 C05 C06 C09 C10 C13 C16 C18 C19 C04 C20 C15 C07 C03 C01}
mkdir -p reports
for p in $ids; do
  s=$(date +%s)
  ./check $p --tier $tier > reports/sweep_${tier}_$p.log 2>&1
  rc=$?
  echo "$p exit=$rc wall=$(( $(date +%s) - s ))s $(grep 'obligations=' reports/sweep_${tier}_$p.log | tail -1 | sed 's/^\[[^]]*\] //' | cut -c1-140)"
  grep -h "^VIOLATION\|^HARNESS-ERROR" reports/sweep_${tier}_$p.log | cut -c1-300
done
echo SWEEP-DONE
