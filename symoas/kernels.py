"""Kernel abstraction (DESIGN.md 2.9): verified leaf kernels of eval_mtx are replaced in callers by
uninterpreted-function atoms `ufn`, with derivative kernels returning sum_c dF/darg_c * deriv[c, j]
per their (separately discharged) contract."""
from __future__ import annotations

import numpy as np

from . import sym as _s
from .sym import S, Sym, ZERO, add, mul, ufn


def _elem_shape(a):
    return np.asarray(a, dtype=object).shape[:-1]


ANTISYMMETRIC = {"fv"}  # K(r2, r1) = -K(r1, r2)
MU = (-1, 1, -1)  # mirror covariance K(M a, M b) = -M K(a, b), M = diag(1, -1, 1):  K_i(M a, M b) = MU[i] K_i(a, b)
MC = (1, -1, 1)  # d(M a)_c / d a_c
# Both relations are discharged on the real kernels (C01 kernel contracts, C05 kernel lemmas); the stubs use them to
# bring every kernel application to one canonical representative, so that mirror-image and reversed segments share atoms.


def _canon(name, fargs):
    """-> (canonical args, swapped?, mirrored?) : the representative with the smallest fingerprint key among
    (a,b), (b,a) [antisymmetric kernels], (Ma,Mb), (Mb,Ma)"""
    a, b = fargs[:3], fargs[3:]
    ma = [a[0], _s.neg(a[1]), a[2]]
    mb = [b[0], _s.neg(b[1]), b[2]]
    cands = [((a, b), False, False), ((ma, mb), False, True)]
    if name in ANTISYMMETRIC:
        cands += [((b, a), True, False), ((mb, ma), True, True)]
    best = min(cands, key=lambda c: tuple(x.fp for x in c[0][0]) + tuple(x.fp for x in c[0][1]))
    (x, y), sw, mi = best
    return list(x) + list(y), sw, mi


def _apply(name, arrs):
    """arrs: list of arrays (..., 3) broadcast-compatible; returns object array (..., 3)."""
    arrs = np.broadcast_arrays(*[np.asarray(a, dtype=object) for a in arrs])
    shp = arrs[0].shape[:-1]
    out = np.empty(shp + (3,), dtype=object)
    for idx in np.ndindex(*shp):
        fargs = [S(a[idx + (k,)]) for a in arrs for k in range(3)]
        cargs, sw, mi = _canon(name, fargs)
        for i in range(3):
            u = ufn(name, (i,), cargs)
            sign = (-1 if sw else 1) * (MU[i] if mi else 1)
            out[idx + (i,)] = _s.neg(u) if sign < 0 else u
    return out


def _apply_deriv(name, arrs, which, deriv):
    """sum_c d name_i / d arg[which][c] * deriv[..., c, j]"""
    arrs = np.broadcast_arrays(*[np.asarray(a, dtype=object) for a in arrs])
    deriv = np.asarray(deriv, dtype=object)
    shp = arrs[0].shape[:-1]
    deriv = np.broadcast_to(deriv, shp + (3, 3))
    out = np.empty(shp + (3, 3), dtype=object)
    for idx in np.ndindex(*shp):
        fargs = [S(a[idx + (k,)]) for a in arrs for k in range(3)]
        cargs, sw, mi = _canon(name, fargs)
        w = (1 - which) if sw else which
        for i in range(3):
            sign_i = (-1 if sw else 1) * (MU[i] if mi else 1)
            for j in range(3):
                acc = ZERO
                for c in range(3):
                    dv = S(deriv[idx + (c, j)])
                    if dv is ZERO:
                        continue
                    term = mul(ufn(name + "'", (i, 3 * w + c), cargs), dv)
                    if sign_i * (MC[c] if mi else 1) < 0:
                        term = _s.neg(term)
                    acc = add(acc, term)
                out[idx + (i, j)] = acc
    return out


def fv(r1, r2):
    return _apply("fv", [r1, r2])


def fv_d1(r1, r2, r1_deriv):
    return _apply_deriv("fv", [r1, r2], 0, r1_deriv)


def fv_d2(r1, r2, r2_deriv):
    return _apply_deriv("fv", [r1, r2], 1, r2_deriv)


def siv(u, r):
    return _apply("siv", [u, r])


def siv_d(u, r, r_deriv):
    return _apply_deriv("siv", [u, r], 1, r_deriv)


EVAL_MTX_STUBS = {"openaerostruct.aerodynamics.eval_mtx": {
    "_compute_finite_vortex": fv, "_compute_finite_vortex_deriv1": fv_d1, "_compute_finite_vortex_deriv2": fv_d2,
    "_compute_semi_infinite_vortex": siv, "_compute_semi_infinite_vortex_deriv": siv_d}}


# ---- numeric meaning (validation only): the real kernels
def _register():
    import importlib

    em = importlib.import_module("openaerostruct.aerodynamics.eval_mtx")
    real = {k: getattr(em, k) for k in EVAL_MTX_STUBS["openaerostruct.aerodynamics.eval_mtx"]}
    eye = np.eye(3).reshape(1, 3, 3)

    def fv_eval(index, a):
        r1, r2 = np.array(a[:3], dtype=float).reshape(1, 3), np.array(a[3:], dtype=float).reshape(1, 3)
        return float(real["_compute_finite_vortex"](r1, r2)[0, index[0]])

    def fvd_eval(index, a):
        r1, r2 = np.array(a[:3], dtype=float).reshape(1, 3), np.array(a[3:], dtype=float).reshape(1, 3)
        i, c = index
        if c < 3:
            return float(real["_compute_finite_vortex_deriv1"](r1, r2, eye)[0, i, c])
        return float(real["_compute_finite_vortex_deriv2"](r1, r2, eye)[0, i, c - 3])

    def siv_eval(index, a):
        u, r = np.array(a[:3], dtype=float).reshape(1, 3), np.array(a[3:], dtype=float).reshape(1, 3)
        return float(real["_compute_semi_infinite_vortex"](u, r)[0, index[0]])

    def sivd_eval(index, a):
        u, r = np.array(a[:3], dtype=float).reshape(1, 3), np.array(a[3:], dtype=float).reshape(1, 3)
        i, c = index
        if c < 3:
            h = 1e-6
            up, um = u.copy(), u.copy()
            up[0, c] += h
            um[0, c] -= h
            return float((real["_compute_semi_infinite_vortex"](up, r)[0, i] - real["_compute_semi_infinite_vortex"](um, r)[0, i]) / (2 * h))
        return float(real["_compute_semi_infinite_vortex_deriv"](u, r, eye)[0, i, c - 3])

    _s.UFN_EVAL.update({"fv": fv_eval, "fv'": fvd_eval, "siv": siv_eval, "siv'": sivd_eval})


_register()
