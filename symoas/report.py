"""Run bookkeeping: obligations -> verdicts -> replay -> VIOLATION / KNOWN-FINDING lines, evidence file."""
from __future__ import annotations

import hashlib
import inspect
import json
import os
import sys
import time

VERIF = os.path.dirname(os.path.dirname(os.path.abspath(__file__)))
EXIT_OK, EXIT_VIOLATION, EXIT_HARNESS = 0, 1, 3


def load_known(pid):
    path = os.path.join(VERIF, "known_findings.jsonl")
    out = []
    if os.path.exists(path):
        for line in open(path):
            line = line.strip()
            if not line or line.startswith("#"):
                continue
            e = json.loads(line)
            if e.get("property") == pid:
                out.append(e)
    return out


def src_hash(obj):
    try:
        return hashlib.sha256(inspect.getsource(obj).encode()).hexdigest()[:16]
    except Exception:
        return "?"


class Report:
    def __init__(self, pid, tier, seed=0):
        self.pid = pid
        self.tier = tier
        self.seed = seed
        self.t0 = time.time()
        self.groups = []  # dict(name, counts..., paths, atoms)
        self.functions = {}  # qualified name -> hash
        self.stubs = set()
        self.assumptions = []
        self.bounds = {}
        self.samples = []
        self.violations = []  # dict(family, what, replay_path)
        self.known_hit = []
        self.inconclusive = []
        self.not_reproduced = []
        self.counts = {"obligations": 0, "discharged": 0, "inconclusive": 0, "candidates": 0, "trivial": 0,
                       "nontrivial": 0, "queries": 0, "solver_time_s": 0.0}
        self.extra = {}
        self.known = load_known(pid)
        self.twins = {"expected_sat": 0, "got_sat": 0}
        self.validation = {"cases": 0, "max_rel_err": 0.0}
        self.errors = []

    def log(self, msg):
        print("[%s %6.1fs] %s" % (self.pid, time.time() - self.t0, msg), flush=True)

    def encode(self, *objs):
        for o in objs:
            name = getattr(o, "__module__", "?") + "." + getattr(o, "__qualname__", repr(o))
            self.functions[name] = src_hash(o)

    def add_obs(self, group, obs, keep_samples=2):
        c = self.counts
        for o in obs:
            c["obligations"] += 1
            c["trivial" if o.trivial else "nontrivial"] += 1
            c["solver_time_s"] += o.time
            if o.verdict == "discharged":
                c["discharged"] += 1
            elif o.verdict == "candidate":
                c["candidates"] += 1
            else:
                c["inconclusive"] += 1
                if len(self.inconclusive) < 200:
                    self.inconclusive.append({"group": group, "id": o.id, "detail": str(o.detail)[:120]})
        n = 0
        for o in obs:
            if o.text and n < keep_samples and len(self.samples) < (60 if self.tier == "thorough" else 12):
                self.samples.append({"group": group, "obligation": o.id, "verdict": o.verdict, "level": o.level,
                                     "solver_time_s": round(o.time, 4), "_full": o.text,
                                     "smtlib": o.text if len(o.text) < 6000 else o.text[:3000] + "\n;...truncated...\n" + o.text[-1500:]})
                n += 1

    def family_known(self, family):
        for e in self.known:
            if e.get("status") == "known" and e.get("family") == family:
                return e
        return None

    def violation(self, family, what, replay_spec):
        """A reproduced counterexample. Returns True if it is a new violation (not a listed known finding)."""
        e = self.family_known(family)
        if e is not None:
            if family not in [k["family"] for k in self.known_hit]:
                self.known_hit.append({"family": family, "what": what})
            return False
        for v in self.violations:
            if v["family"] == family:
                v["count"] += 1
                return True
        d = os.path.join(VERIF, "replays", self.pid)
        os.makedirs(d, exist_ok=True)
        path = os.path.join(d, "%s.json" % hashlib.sha1(family.encode()).hexdigest()[:12])
        replay_spec = dict(replay_spec)
        replay_spec["family"] = family
        replay_spec["property"] = self.pid
        with open(path, "w") as f:
            json.dump(replay_spec, f, indent=1, default=str)
        self.violations.append({"family": family, "what": what, "replay": path, "count": 1})
        return True

    def cross_check(self, timeout=30.0, max_queries=40):
        """thorough tier: the kept sample queries are re-decided by cvc5; a definite disagreement is a harness error"""
        from . import solve

        texts = [(s["group"], s["obligation"], s["verdict"], s["_full"]) for s in self.samples if s.get("_full")][:max_queries]
        if not texts:
            return
        res = solve.pool().run([(t[3], timeout, "cvc5", False) for t in texts])
        agree = dis = und = 0
        for (g, o, v, _), r in zip(texts, res):
            z = "unsat" if v == "discharged" else ("sat" if v == "candidate" else None)
            if r["result"] in ("sat", "unsat") and z is not None:
                if r["result"] == z:
                    agree += 1
                else:
                    dis += 1
                    self.errors.append("z3 / cvc5 disagree on %s :: %s (z3 %s, cvc5 %s)" % (g, o, z, r["result"]))
            else:
                und += 1
        self.extra["cvc5_cross_check"] = {"queries": len(texts), "agree": agree, "disagree": dis, "cvc5_undecided": und}
        self.log("cvc5 cross-check: %d sample queries, agree=%d disagree=%d undecided=%d" % (len(texts), agree, dis, und))

    def finish(self, explanation, level="other", extra_cov=None):
        from . import solve

        if self.tier == "thorough":
            try:
                self.cross_check()
            except Exception as e:  # pragma: no cover
                self.extra["cvc5_cross_check"] = {"error": repr(e)}
        for smp in self.samples:
            smp.pop("_full", None)

        st = solve.pool().stats if solve._POOL is not None else {"queries": 0, "solver_time": 0.0, "killed": 0}
        self.counts["queries"] = st["queries"]
        cov = {
            "explanation": explanation,
            "obligations": self.counts["obligations"],
            "discharged": self.counts["discharged"],
            "inconclusive": self.counts["inconclusive"],
            "candidates_sat": self.counts["candidates"],
            "evaluations": max(1, self.counts["obligations"]),
            "distinct_nontrivial": self.counts["nontrivial"],
            "rule": "one solver obligation per (case, path, entry); non-trivial = the two sides are not the same DAG node "
                    "(trivial ones are still sent to the solver, batched)",
            "queries": st["queries"],
            "solver_time_s": round(st["solver_time"], 2),
            "workers_killed_on_hard_timeout": st.get("killed", 0),
            "functions_encoded": self.functions,
            "bounds": self.bounds,
            "stubs": sorted(self.stubs),
            "groups": self.groups,
            "samples": self.samples or [{"note": "no non-trivial obligation text kept"}],
            "inconclusive_list": self.inconclusive,
            "candidates_not_reproduced": self.not_reproduced[:50],
            "reachability_twins": self.twins,
            "encoder_validation": self.validation,
            "known_findings_hit": self.known_hit,
            "violations_list": self.violations,
            "checker_cmd": "z3 %s via python API (workers), cvc5 cross-check in thorough" % _z3v(),
            "trusted_base": ["z3", "numpy object-array dispatch", "symoas Sym/lowering/differentiator (validated per run)",
                             "OpenMDAO setup metadata", "real arithmetic in place of IEEE doubles"],
        }
        cov.update(self.extra)
        if extra_cov:
            cov.update(extra_cov)
        ev = {"property_id": self.pid, "tier": self.tier, "seed": int(self.seed), "level": level, "coverage": cov,
              "assumptions": self.assumptions, "wall_s": round(time.time() - self.t0, 2),
              "violations": len(self.violations)}
        # a partial run (--only, a development aid) must not replace the evidence of the registered command
        partial = bool(os.environ.get("SYMOAS_PARTIAL_RUN"))
        evdir = os.path.join(VERIF, "reports", "partial_evidence") if partial else os.path.join(VERIF, "evidence")
        os.makedirs(evdir, exist_ok=True)
        with open(os.path.join(evdir, "%s.json" % self.pid), "w") as f:
            json.dump(ev, f, indent=1, default=str)
        for k in self.known_hit:
            print("KNOWN-FINDING: property=%s %s :: %s" % (self.pid, k["family"], k["what"]))
        for v in self.violations:
            print("VIOLATION property=%s replay=%s  (%s: %s)" % (self.pid, v["replay"], v["family"], v["what"]))
        self.log("obligations=%d discharged=%d inconclusive=%d candidates=%d violations=%d known=%d wall=%.1fs" % (
            self.counts["obligations"], self.counts["discharged"], self.counts["inconclusive"],
            self.counts["candidates"], len(self.violations), len(self.known_hit), time.time() - self.t0))
        if self.errors:
            for e in self.errors:
                print("HARNESS-ERROR: %s" % e)
            return EXIT_HARNESS
        return EXIT_VIOLATION if self.violations else EXIT_OK


def _z3v():
    try:
        import z3

        return z3.get_version_string()
    except Exception:
        return "?"
