"""Obligations and their discharge by the solver pool (DESIGN.md 2.8).

An obligation is a *negated property instance*: assumptions and goal must be unsat.
Verdicts: discharged (unsat), candidate (sat, with model -> replay decides), inconclusive.
"""
from __future__ import annotations

import time

from . import lower as L
from . import solve
from .sym import Sym, SymBool, bool_syms, evalb, evalf, reachable


class Ob:
    __slots__ = ("id", "kind", "lhs", "rhs", "cond", "assume", "meta", "verdict", "model", "time", "level",
                 "detail", "text", "trivial", "symbols")

    def __init__(self, id, lhs=None, rhs=None, cond=None, assume=(), meta=None, kind="ident"):
        """IDENT: lhs == rhs must hold (goal: lhs != rhs).  COND: `cond` is the *negated property* to refute."""
        self.id = id
        self.kind = kind
        self.lhs = lhs
        self.rhs = rhs
        self.cond = cond
        self.assume = list(assume)
        self.meta = meta or {}
        self.verdict = None
        self.model = None
        self.time = 0.0
        self.level = None
        self.detail = ""
        self.text = None
        self.symbols = None
        self.trivial = cond is None and lhs is rhs

    def roots(self):
        r = []
        if self.cond is not None:
            r += bool_syms(self.cond)
        else:
            r += [self.lhs, self.rhs]
        return r


def _text_for(lw: L.Lowerer, ob: Ob, level: int, extra_assume=()):
    if ob.cond is not None:
        f, dp = lw.cond(ob.cond)
    else:
        f, dp = lw.ne(ob.lhs, ob.rhs)
    text, used = L.build_query(lw, f, dp, ob.roots(), list(ob.assume) + list(extra_assume), level=level)
    return text, used


def discharge(obs, lw: L.Lowerer = None, timeout=20.0, levels=(1, 2), pool=None, log=None, keep_text=3,
              per_ob_lowerer=False):
    """Decide every obligation.  Sets ob.verdict in {'discharged','candidate','inconclusive'}."""
    pool = pool or solve.pool()
    lw = lw or L.Lowerer()
    todo = [o for o in obs if not o.trivial]
    triv = [o for o in obs if o.trivial]
    # trivial obligations (both sides are the same DAG node) are still sent, batched into one query
    if triv:
        lwt = L.Lowerer()
        forms, deps = [], []
        for o in triv[:2000]:
            f, dp = lwt.ne(o.lhs, o.rhs)
            forms.append(f)
            deps += list(dp)
        text, _ = lwt.emit(["(or %s)" % " ".join(forms) if len(forms) > 1 else forms[0]], deps)
        r = pool.run([(text, timeout, "z3", False)])[0]
        for o in triv:
            o.verdict = "discharged" if r["result"] == "unsat" else "inconclusive"
            o.level = 0
            o.time = r["time"] / max(1, len(triv))
    nkept = 0
    for level in levels:
        if not todo:
            break
        jobs = []
        for o in todo:
            l = L.Lowerer() if per_ob_lowerer else lw
            text, used = _text_for(l, o, level)
            o.symbols = used
            if nkept < keep_text:
                o.text = text
                nkept += 1
            jobs.append((text, timeout, "z3", True))
        res = pool.run(jobs)
        nxt = []
        for o, r in zip(todo, res):
            o.time += r.get("time", 0.0)
            o.level = level
            if r["result"] == "unsat":
                o.verdict = "discharged"
            elif r["result"] == "sat":
                o.model = r.get("model", {})
                if level < max(levels):
                    nxt.append(o)  # may be an artefact of the free-atom abstraction
                    o.verdict = "candidate"
                else:
                    o.verdict = "candidate"
            else:
                o.verdict = "inconclusive"
                o.detail = r.get("detail", "")
                if level < max(levels):
                    nxt.append(o)
        if log:
            log("  level %d: %d queries, %d left" % (level, len(todo), len(nxt)))
        todo = nxt
    return obs


def model_env(ob: Ob, defaults=None):
    """var name -> float from the solver model (missing -> defaults)."""
    env = dict(defaults or {})
    for k, v in (ob.model or {}).items():
        try:
            if "/" in v:
                a, b = v.split("/")
                env[k] = int(a) / int(b)
            else:
                env[k] = float(v)
        except Exception:
            pass
    return env


def summarize(obs):
    c = {"obligations": len(obs), "discharged": 0, "candidate": 0, "inconclusive": 0, "trivial": 0, "nontrivial": 0,
         "solver_time_s": 0.0}
    for o in obs:
        c[o.verdict] = c.get(o.verdict, 0) + 1
        c["trivial" if o.trivial else "nontrivial"] += 1
        c["solver_time_s"] += o.time
    return c
