"""Obligations and their discharge by the solver pool (DESIGN.md 2.8).

An obligation is a *negated property instance*: assumptions and goal must be unsat.
Verdicts: discharged (unsat), candidate (sat, with model -> replay decides), inconclusive.
"""
from __future__ import annotations

import time

from . import lower as L
from . import solve
from .sym import Sym, SymBool, bool_syms, evalb, evalf, reachable


class Ob:
    __slots__ = ("id", "kind", "lhs", "rhs", "cond", "assume", "meta", "verdict", "model", "time", "level",
                 "detail", "text", "trivial", "symbols")

    def __init__(self, id, lhs=None, rhs=None, cond=None, assume=(), meta=None, kind="ident"):
        """IDENT: lhs == rhs must hold (goal: lhs != rhs).  COND: `cond` is the *negated property* to refute."""
        self.id = id
        self.kind = kind
        self.lhs = lhs
        self.rhs = rhs
        self.cond = cond
        self.assume = list(assume)
        self.meta = meta or {}
        self.verdict = None
        self.model = None
        self.time = 0.0
        self.level = None
        self.detail = ""
        self.text = None
        self.symbols = None
        self.trivial = cond is None and lhs is rhs

    def roots(self):
        r = []
        if self.cond is not None:
            r += bool_syms(self.cond)
        else:
            r += [self.lhs, self.rhs]
        return r


def _text_for(lw: L.Lowerer, ob: Ob, level: int, extra_assume=()):
    if ob.cond is not None:
        f, dp = lw.cond(ob.cond)
    else:
        f, dp = lw.ne(ob.lhs, ob.rhs)
    text, used = L.build_query(lw, f, dp, ob.roots(), list(ob.assume) + list(extra_assume), level=level)
    return text, used


def shared_cuts(lhs: Sym, rhs: Sym, threshold=6, mode="max"):
    """Frontier of sub-DAGs shared by both sides (same hash-consed node) with at least `threshold` nodes below."""
    ca = {n.nid: n for n in reachable([lhs])}
    cb = {n.nid: n for n in reachable([rhs])}
    if lhs.nid in cb or rhs.nid in ca:
        return {}
    shared = set(ca) & set(cb)
    if not shared:
        return {}
    # cone sizes (number of distinct nodes) computed lazily for frontier candidates only
    frontier = {}
    for root, own in ((lhs, ca), (rhs, cb)):
        stack = [root]
        seen = set()
        while stack:
            n = stack.pop()
            if n.nid in seen:
                continue
            seen.add(n.nid)
            if n.nid in shared:
                if n.op not in ("const", "var"):
                    frontier[n.nid] = n
                continue
            for a in n.args:
                if isinstance(a, Sym):
                    stack.append(a)
                elif isinstance(a, SymBool):
                    stack.extend(bool_syms(a))
    cuts = {}
    cones = {}
    for nid, n in frontier.items():
        c = reachable([n])
        if len(c) >= threshold:
            cuts[nid] = True
            cones[nid] = {x.nid for x in c}
    if mode == "deep":
        # drop a cut whose cone contains another cut: it stays an exact expression of the deeper cut variables
        for nid in list(cuts):
            if any(o != nid and o in cones[nid] for o in cuts):
                del cuts[nid]
    return cuts


def discharge(obs, lw: L.Lowerer = None, timeout=20.0, levels=(1, 2), pool=None, log=None, keep_text=3,
              per_ob_lowerer=False, cut_threshold=6):
    """Decide every obligation.  Sets ob.verdict in {'discharged','candidate','inconclusive'}."""
    pool = pool or solve.pool()
    lw = lw or L.Lowerer()
    # an inf / nan that numpy produced from constants and that survives into the obligation (0 * inf, inf - inf): no query
    # can be built; it is a candidate whose replay is "does the real code return a non-finite or wrong value here"
    for o in obs:
        if o.verdict is None and any(isinstance(r, Sym) and r.pz for r in o.roots()):
            pn = [n for n in reachable(o.roots()) if n.op == "poison"]
            o.verdict, o.level, o.model = "candidate", "poison", {}
            o.detail = "a value obtained by %s reaches this obligation" % (pn[0].args[0] if pn else "inf/nan arithmetic")
    todo = [o for o in obs if not o.trivial and o.verdict is None]
    triv = [o for o in obs if o.trivial and o.verdict is None]
    # trivial obligations (both sides are the same DAG node) are still sent, batched into one query
    if triv:
        # both sides are one hash-consed node: abstract it by a fresh real (sound), so the text stays small
        lwt = L.Lowerer(cuts={o.lhs.nid: True for o in triv})
        forms, deps = [], []
        for o in triv[:5000]:
            f, dp = lwt.ne(o.lhs, o.rhs)
            forms.append(f)
            deps += list(dp)
        text, _ = lwt.emit(["(or %s)" % " ".join(forms) if len(forms) > 1 else forms[0]], deps)
        r = pool.run([(text, timeout, "z3", False)])[0]
        for o in triv:
            o.verdict = "discharged" if r["result"] == "unsat" else "inconclusive"
            o.level = 0
            o.time = r["time"] / max(1, len(triv))
    nkept = 0
    maxlevel = max(levels)
    minlevel = min(levels)

    def variants_for(o, first=None):
        vs = []
        if first != "sat":  # sat under free atoms is final for level 1; only level 2 can refute it
            vs.append(("pairs", dict(), minlevel))
            if o.cond is None and cut_threshold:
                prev = None
                for mode in ("deep", "max"):
                    cuts = shared_cuts(o.lhs, o.rhs, cut_threshold, mode)
                    if cuts and cuts != prev:
                        prev = cuts
                        vs.append(("cut-%s" % mode, dict(cuts=cuts), minlevel))
                        vs.append(("cut-%s-sqrw" % mode, dict(cuts=cuts, sqrt_rewrite=True), minlevel))
                        vs.append(("cut-%s-divvar" % mode, dict(cuts=cuts, divvar=True), minlevel))
            vs.append(("divvar", dict(divvar=True), minlevel))
            vs.append(("sqrw", dict(sqrt_rewrite=True), minlevel))
        for lv in levels:
            if lv > minlevel:
                vs.append(("pairs", dict(), lv))
                vs.append(("divvar", dict(divvar=True), lv))
                vs.append(("sqrw", dict(sqrt_rewrite=True), lv))
        return vs

    state = {"nkept": 0, "queries": 0}

    def run_wave(items, rank=None, limit=None, tmo=None, skip=0):
        """items: list of (ob, first-result).  Portfolio with early cancellation per obligation."""
        jobs, tags = [], []
        for o, first in items:
            vs = variants_for(o, first)
            if rank is not None:
                vs.sort(key=lambda v: rank.get((v[0], v[2]), 99))
            vs = vs[skip:]
            if limit:
                vs = vs[:limit]
            for name, kw, lv in vs:
                try:
                    l = lw if (not kw and not per_ob_lowerer) else L.Lowerer(**kw)
                    text, used = _text_for(l, o, lv)
                except KeyError:
                    continue
                if state["nkept"] < keep_text and o.text is None:
                    o.text = text
                    state["nkept"] += 1
                jobs.append((text, tmo or timeout, "z3", True))
                tags.append((o, name, lv))
        if not jobs:
            return {}
        groups = [id(t[0]) for t in tags]

        def final(qid, r):
            o, name, lv = tags[qid]
            return r["result"] == "unsat" or (r["result"] == "sat" and lv >= maxlevel and not name.startswith("cut"))

        res = pool.run(jobs, groups=groups, final=final)
        state["queries"] += len(jobs)
        wins = {}
        for qi, ((o, name, lv), r) in enumerate(zip(tags, res)):
            o.time += r.get("time", 0.0)
            if r["result"] == "unsat" and o.verdict != "discharged":
                o.verdict = "discharged"
                o.level = "%s/%d" % (name, lv)
                o.model = None
                o.detail = ""
                if o.text is not None:
                    o.text = jobs[qi][0]  # the kept sample is the query that decided the obligation (cvc5 re-decides that one)
                wins[(name, lv)] = wins.get((name, lv), 0) + 1
        for qi, ((o, name, lv), r) in enumerate(zip(tags, res)):
            if o.verdict == "discharged":
                continue
            if r["result"] == "sat" and not name.startswith("cut"):
                o.model = r.get("model", {})
                o.meta["_sat_level"] = max(o.meta.get("_sat_level", 0), lv)
                if lv >= maxlevel:
                    o.verdict = "candidate"
                    o.level = "%s/%d" % (name, lv)
                    if o.text is not None:
                        o.text = jobs[qi][0]
                    wins[(name, lv)] = wins.get((name, lv), 0) + 1
            if o.verdict not in ("candidate",):
                o.verdict = "inconclusive"
                if r["result"] not in ("skipped",):
                    o.detail = r.get("detail", r["result"])
        return wins

    def first_of(o):
        return "sat" if o.meta.get("_sat_level", 0) >= minlevel and minlevel < maxlevel else None

    if todo:
        # ---- probe: a few obligations try every variant at once; variants are ranked by wins
        k = min(3, len(todo))
        step = max(1, len(todo) // k)
        probe = todo[::step][:k]
        wins = run_wave([(o, None) for o in probe])
        order = sorted(wins, key=lambda q: -wins[q])
        rank = {q: i for i, q in enumerate(order)}
        rest = [o for o in todo if o.verdict is None]
        # ---- main pass: the best-ranked variant alone, short timeout (no cancellations needed)
        if rest:
            wins2 = run_wave([(o, None) for o in rest], rank=rank, limit=1, tmo=min(timeout, max(3.0, timeout / 4.0)))
            for q, c in wins2.items():
                wins[q] = wins.get(q, 0) + c
            order = sorted(wins, key=lambda q: -wins[q])
            rank = {q: i for i, q in enumerate(order)}
        # ---- leftovers: next-best three variants, then everything
        left = [o for o in todo if o.verdict not in ("discharged", "candidate")]
        if left:
            run_wave([(o, first_of(o)) for o in left], rank=rank, limit=4)
            left = [o for o in left if o.verdict not in ("discharged", "candidate")]
        if left:
            run_wave([(o, first_of(o)) for o in left], rank=rank, skip=4)
        left = [o for o in todo if o.verdict not in ("discharged", "candidate")]
        if left and maxlevel >= 2:
            trig_pass(left, timeout, pool, state)
        left = [o for o in todo if o.verdict not in ("discharged", "candidate")]
        if left and not _in_sign_pass[0]:
            sign_pass(left, timeout, pool, state, maxlevel)
        if log:
            log("  %d non-trivial obligations, %d solver queries, ranking %s, %d not discharged" % (
                len(todo), state["queries"], order[:3], sum(1 for o in todo if o.verdict != "discharged")))
    for o in obs:
        o.meta.pop("_sat_level", None)
    return obs


_in_sign_pass = [False]


def sign_pass(left, timeout, pool, state=None, level=2, max_dens=24, max_total=96, max_obs=40):
    """Denominators whose sign the solver can prove separately are replaced by fresh reals that carry only that sign:
    an over-approximation, so `unsat` still discharges.  Two batches: (1) sign lemmas, one plain level-2 query per
    (denominator, sign) under the assumptions of the obligation it occurs in, short timeout; (2) the obligations with
    the proven denominators cut."""
    from .sym import ge, le

    _in_sign_pass[0] = True
    try:
        per_ob = []
        lem = {}
        for o in left[:max_obs]:
            roots = o.roots() + [s for a in o.assume for s in bool_syms(a)]
            dens = {}
            for n in reachable(roots):
                if n.op == "div" and n.args[1].op not in ("const", "var"):
                    dens[n.args[1].nid] = n.args[1]
            if not dens or len(dens) > max_dens:
                continue
            per_ob.append((o, dens))
            for nid, d in dens.items():
                if nid not in lem and len(lem) < max_total:
                    lem[nid] = (d, o.assume)
        if not per_ob:
            return
        jobs, tags = [], []
        for nid, (d, assume) in lem.items():
            for sg, c in ((">", le(d, 0)), ("<", ge(d, 0))):
                ob = Ob("sign lemma #%d %s 0" % (nid, sg), cond=c, assume=assume)
                try:
                    text, _ = _text_for(L.Lowerer(), ob, level)
                except Exception:
                    continue
                jobs.append((text, min(timeout, 3.0), "z3", True))
                tags.append((nid, sg))
        gid = {}
        res = pool.run(jobs, groups=[gid.setdefault(t[0], len(gid)) for t in tags], final=lambda qid, r: r["result"] == "unsat") if jobs else []
        signs_all = {}
        for (nid, sg), r in zip(tags, res):
            if r["result"] == "unsat":
                signs_all[nid] = sg
        if state is not None:
            state["queries"] += len(jobs)
        jobs, tags = [], []
        for o, dens in per_ob:
            signs = {nid: signs_all[nid] for nid in dens if nid in signs_all}
            if not signs:
                continue
            for kw in ({}, dict(divvar=True)):
                lw = L.Lowerer(cuts={k: True for k in signs}, **kw)
                lw.cut_signs = dict(signs)
                try:
                    text, _ = _text_for(lw, o, level)
                except Exception:
                    continue
                jobs.append((text, timeout, "z3", True))
                tags.append(o)
        if not jobs:
            return
        gid = {}
        res = pool.run(jobs, groups=[gid.setdefault(id(o), len(gid)) for o in tags], final=lambda qid, r: r["result"] == "unsat")
        if state is not None:
            state["queries"] += len(jobs)
        for qi, (o, r) in enumerate(zip(tags, res)):
            o.time += r.get("time", 0.0)
            if r["result"] == "unsat":
                o.verdict, o.level, o.model, o.detail = "discharged", "signcut/%d" % level, None, ""
                if o.text is not None:
                    o.text = jobs[qi][0]
    finally:
        _in_sign_pass[0] = False


def trig_pass(left, timeout, pool, state=None, max_angles=3):
    """Exact rational parametrisation of every (cos, sin) pair (Lowerer(trig=mask)): an obligation that resisted the
    s^2 + c^2 = 1 encodings is discharged iff it is unsat for all 2^k masks (k distinct angles), each mask tried with the
    plain, sqrt-rewrite and division-variable encodings; a sat answer of the generic mask is a genuine candidate."""
    encs = [("pairs", {}), ("sqrw", dict(sqrt_rewrite=True)), ("divvar", dict(divvar=True))]
    jobs, tags = [], []
    for o in left:
        try:
            l0 = L.Lowerer(trig=0)
            _text_for(l0, o, 2)
        except Exception:
            continue
        k = len(l0.trig_args)
        if k == 0 or k > max_angles:
            continue
        o.meta["_trig_masks"] = 1 << k
        for mask in range(1 << k):
            for name, kw in encs:
                try:
                    text, _ = _text_for(L.Lowerer(trig=mask, **kw), o, 2)
                except Exception:
                    continue
                jobs.append((text, timeout, "z3", True))
                tags.append((o, mask, name))
    if not jobs:
        return
    groups = [(id(t[0]), t[1]) for t in tags]
    gid = {}
    groups = [gid.setdefault(g, len(gid)) for g in groups]
    res = pool.run(jobs, groups=groups, final=lambda qid, r: r["result"] in ("unsat", "sat"))
    if state is not None:
        state["queries"] += len(jobs)
    per = {}
    for qi, ((o, mask, name), r) in enumerate(zip(tags, res)):
        o.time += r.get("time", 0.0)
        d = per.setdefault(id(o), {"o": o, "unsat": set(), "sat": {}})
        if r["result"] == "unsat":
            d["unsat"].add(mask)
            if mask == 0:
                d["text"] = jobs[qi][0]
        elif r["result"] == "sat":
            d["sat"].setdefault(mask, r.get("model", {}))
    for d in per.values():
        o = d["o"]
        n = o.meta.pop("_trig_masks")
        if len(d["unsat"]) == n:
            o.verdict, o.level, o.model, o.detail = "discharged", "trigparam/2", None, ""
            if o.text is not None and d.get("text"):
                o.text = d["text"]  # (the generic mask; the other masks are unsat as well)
        elif d["sat"] and not (set(d["sat"]) & d["unsat"]):
            o.verdict, o.level = "candidate", "trigparam/2"
            o.model = d["sat"][min(d["sat"])]


def model_env(ob: Ob, defaults=None):
    """var name -> float from the solver model (missing -> defaults)."""
    env = dict(defaults or {})
    for k, v in (ob.model or {}).items():
        try:
            if "/" in v:
                a, b = v.split("/")
                env[k] = int(a) / int(b)
            else:
                env[k] = float(v)
        except Exception:
            pass
    return env


def summarize(obs):
    c = {"obligations": len(obs), "discharged": 0, "candidate": 0, "inconclusive": 0, "trivial": 0, "nontrivial": 0,
         "solver_time_s": 0.0}
    for o in obs:
        c[o.verdict] = c.get(o.verdict, 0) + 1
        c["trivial" if o.trivial else "nontrivial"] += 1
        c["solver_time_s"] += o.time
    return c


def relate_sqrt_atoms(obs, rhos=(), assume=(), timeout=20.0, pool=None, log=None, seed=11, hint_env=None):
    """Atom relation lemmas (DESIGN 2.5): for sqrt nodes n' (only in left sides) and n (in right sides) find and
    *prove with the solver* relations n' = rho * n, rho in {1} + rhos (rho assumed positive by `assume`).
    A numeric evaluation at one random point only selects which pairs to try.  Proven relations are returned as
    SymBool equalities to be used as hypotheses; they are proved bottom-up so inner relations help outer ones."""
    import random

    from .sym import ONE, S, eq, evalf, mul, variables

    pool = pool or solve.pool()
    L_nodes = {n.nid: n for o in obs if o.cond is None for n in reachable([o.lhs]) if n.op == "sqrt"}
    R_nodes = {n.nid: n for o in obs if o.cond is None for n in reachable([o.rhs]) if n.op == "sqrt"}
    only_l = [n for k, n in sorted(L_nodes.items()) if k not in R_nodes]
    cand_r = [n for k, n in sorted(R_nodes.items())]
    if not only_l or not cand_r:
        return []
    rnd = random.Random(seed)
    roots = only_l + cand_r + [S(r) for r in rhos] + [ONE]
    env = {}
    for v in variables(roots + [s for a in assume for s in bool_syms(a)]):
        env[v.args[0]] = 0.3 + rnd.random()
    env.update(hint_env or {})
    try:
        val = evalf(roots, env)
    except Exception:
        return []
    proven = []
    cands = [ONE] + [S(r) for r in rhos]
    for n1 in only_l:
        v1 = val.get(n1.nid)
        if v1 is None or v1 != v1:
            continue
        found = False
        for n2 in cand_r:
            if found:
                break
            v2 = val.get(n2.nid)
            if not v2 or v2 != v2:
                continue
            for rho in cands:
                rv = val[rho.nid]
                if abs(v1 - rv * v2) > 1e-9 * max(1.0, abs(v1)):
                    continue
                a1, a2 = n1.args[0], n2.args[0]
                ob = Ob("lemma sqrt#%d = %s * sqrt#%d" % (n1.nid, rho, n2.nid), lhs=a1, rhs=mul(mul(rho, rho), a2),
                        assume=list(assume) + proven)
                discharge([ob], timeout=timeout, levels=(1, 2), pool=pool, keep_text=0)
                if ob.verdict == "discharged":
                    proven.append(eq(n1, mul(rho, n2)))
                    found = True
                    if log:
                        log("  lemma proved: %s (%s)" % (ob.id, ob.level))
                    break
    return proven
