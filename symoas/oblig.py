"""Obligations and their discharge by the solver pool (DESIGN.md 2.8).

An obligation is a *negated property instance*: assumptions and goal must be unsat.
Verdicts: discharged (unsat), candidate (sat, with model -> replay decides), inconclusive.
"""
from __future__ import annotations

import time

from . import lower as L
from . import solve
from .sym import Sym, SymBool, bool_syms, evalb, evalf, reachable


class Ob:
    __slots__ = ("id", "kind", "lhs", "rhs", "cond", "assume", "meta", "verdict", "model", "time", "level",
                 "detail", "text", "trivial", "symbols")

    def __init__(self, id, lhs=None, rhs=None, cond=None, assume=(), meta=None, kind="ident"):
        """IDENT: lhs == rhs must hold (goal: lhs != rhs).  COND: `cond` is the *negated property* to refute."""
        self.id = id
        self.kind = kind
        self.lhs = lhs
        self.rhs = rhs
        self.cond = cond
        self.assume = list(assume)
        self.meta = meta or {}
        self.verdict = None
        self.model = None
        self.time = 0.0
        self.level = None
        self.detail = ""
        self.text = None
        self.symbols = None
        self.trivial = cond is None and lhs is rhs

    def roots(self):
        r = []
        if self.cond is not None:
            r += bool_syms(self.cond)
        else:
            r += [self.lhs, self.rhs]
        return r


def _text_for(lw: L.Lowerer, ob: Ob, level: int, extra_assume=()):
    if ob.cond is not None:
        f, dp = lw.cond(ob.cond)
    else:
        f, dp = lw.ne(ob.lhs, ob.rhs)
    text, used = L.build_query(lw, f, dp, ob.roots(), list(ob.assume) + list(extra_assume), level=level)
    return text, used


def shared_cuts(lhs: Sym, rhs: Sym, threshold=6, mode="max"):
    """Frontier of sub-DAGs shared by both sides (same hash-consed node) with at least `threshold` nodes below."""
    ca = {n.nid: n for n in reachable([lhs])}
    cb = {n.nid: n for n in reachable([rhs])}
    if lhs.nid in cb or rhs.nid in ca:
        return {}
    shared = set(ca) & set(cb)
    if not shared:
        return {}
    # cone sizes (number of distinct nodes) computed lazily for frontier candidates only
    frontier = {}
    for root, own in ((lhs, ca), (rhs, cb)):
        stack = [root]
        seen = set()
        while stack:
            n = stack.pop()
            if n.nid in seen:
                continue
            seen.add(n.nid)
            if n.nid in shared:
                if n.op not in ("const", "var"):
                    frontier[n.nid] = n
                continue
            for a in n.args:
                if isinstance(a, Sym):
                    stack.append(a)
                elif isinstance(a, SymBool):
                    stack.extend(bool_syms(a))
    cuts = {}
    cones = {}
    for nid, n in frontier.items():
        c = reachable([n])
        if len(c) >= threshold:
            cuts[nid] = True
            cones[nid] = {x.nid for x in c}
    if mode == "deep":
        # drop a cut whose cone contains another cut: it stays an exact expression of the deeper cut variables
        for nid in list(cuts):
            if any(o != nid and o in cones[nid] for o in cuts):
                del cuts[nid]
    return cuts


def discharge(obs, lw: L.Lowerer = None, timeout=20.0, levels=(1, 2), pool=None, log=None, keep_text=3,
              per_ob_lowerer=False, cut_threshold=6):
    """Decide every obligation.  Sets ob.verdict in {'discharged','candidate','inconclusive'}."""
    pool = pool or solve.pool()
    lw = lw or L.Lowerer()
    todo = [o for o in obs if not o.trivial]
    triv = [o for o in obs if o.trivial]
    # trivial obligations (both sides are the same DAG node) are still sent, batched into one query
    if triv:
        lwt = L.Lowerer()
        forms, deps = [], []
        for o in triv[:2000]:
            f, dp = lwt.ne(o.lhs, o.rhs)
            forms.append(f)
            deps += list(dp)
        text, _ = lwt.emit(["(or %s)" % " ".join(forms) if len(forms) > 1 else forms[0]], deps)
        r = pool.run([(text, timeout, "z3", False)])[0]
        for o in triv:
            o.verdict = "discharged" if r["result"] == "unsat" else "inconclusive"
            o.level = 0
            o.time = r["time"] / max(1, len(triv))
    nkept = 0
    maxlevel = max(levels)
    # ---- stage A: cross-multiplied encoding, free atoms, short timeout (discharges almost everything)
    if todo:
        jobs = []
        for o in todo:
            l = L.Lowerer() if per_ob_lowerer else lw
            text, used = _text_for(l, o, min(levels))
            o.symbols = used
            if nkept < keep_text:
                o.text = text
                nkept += 1
            jobs.append((text, min(timeout, max(3.0, timeout / 4.0)), "z3", True))
        res = pool.run(jobs)
        left = []
        for o, r in zip(todo, res):
            o.time += r.get("time", 0.0)
            o.level = "pairs/%d" % min(levels)
            if r["result"] == "unsat":
                o.verdict = "discharged"
            else:
                o.verdict = "inconclusive"
                o.detail = r.get("detail", r["result"])
                if r["result"] == "sat":
                    o.model = r.get("model", {})
                    if min(levels) >= maxlevel:
                        o.verdict = "candidate"
                        continue
                left.append((o, r["result"]))
        if log:
            log("  stage A: %d queries, %d left" % (len(todo), len(left)))
        # ---- stage B: portfolio for the rest, all variants at once
        if left:
            jobs, tags = [], []
            for o, first in left:
                variants = []
                if first != "sat":  # sat under free atoms is final for level 1; only level 2 can refute it
                    if o.cond is None and cut_threshold:
                        prev = None
                        for mode in ("max", "deep"):
                            cuts = shared_cuts(o.lhs, o.rhs, cut_threshold, mode)
                            if cuts and cuts != prev:
                                prev = cuts
                                variants.append(("cut-%s" % mode, dict(cuts=cuts), 1))
                                variants.append(("cut-%s-divvar" % mode, dict(cuts=cuts, divvar=True), 1))
                    variants.append(("divvar", dict(divvar=True), 1))
                    variants.append(("pairs", dict(), 1))
                for lv in levels:
                    if lv > 1:
                        variants.append(("divvar", dict(divvar=True), lv))
                        variants.append(("pairs", dict(), lv))
                for name, kw, lv in variants:
                    try:
                        text, used = _text_for(L.Lowerer(**kw), o, lv)
                    except KeyError:
                        continue
                    jobs.append((text, timeout, "z3", True))
                    tags.append((o, name, lv))
            groups = [id(t[0]) for t in tags]

            def final(qid, r):
                o, name, lv = tags[qid]
                return r["result"] == "unsat" or (r["result"] == "sat" and lv >= maxlevel and not name.startswith("cut"))

            res = pool.run(jobs, groups=groups, final=final)
            for (o, name, lv), r in zip(tags, res):
                o.time += r.get("time", 0.0)
                if r["result"] == "unsat":
                    if o.verdict != "discharged":
                        o.verdict = "discharged"
                        o.level = "%s/%d" % (name, lv)
                        o.model = None
            for (o, name, lv), r in zip(tags, res):
                if o.verdict == "discharged":
                    continue
                if r["result"] == "sat" and lv >= maxlevel and not name.startswith("cut"):
                    o.verdict = "candidate"
                    o.level = "%s/%d" % (name, lv)
                    o.model = r.get("model", {})
                elif o.verdict != "candidate":
                    o.detail = r.get("detail", r["result"])
            if log:
                log("  stage B: %d portfolio queries for %d obligations, %d not discharged" % (
                    len(jobs), len(left), sum(1 for o, _ in left if o.verdict != "discharged")))
    return obs


def model_env(ob: Ob, defaults=None):
    """var name -> float from the solver model (missing -> defaults)."""
    env = dict(defaults or {})
    for k, v in (ob.model or {}).items():
        try:
            if "/" in v:
                a, b = v.split("/")
                env[k] = int(a) / int(b)
            else:
                env[k] = float(v)
        except Exception:
            pass
    return env


def summarize(obs):
    c = {"obligations": len(obs), "discharged": 0, "candidate": 0, "inconclusive": 0, "trivial": 0, "nontrivial": 0,
         "solver_time_s": 0.0}
    for o in obs:
        c[o.verdict] = c.get(o.verdict, 0) + 1
        c["trivial" if o.trivial else "nontrivial"] += 1
        c["solver_time_s"] += o.time
    return c
