"""`np` proxy and scipy stand-ins rebound into the repo's modules during symbolic runs (DESIGN.md 2.3).

Everything not listed here is forwarded to the real numpy, whose object-array
dispatch calls the `Sym` operators.  Entry points that cannot work on symbolic
data raise (harness error), never silently produce numbers.
"""
from __future__ import annotations

import contextlib
import sys
import types

import numpy as _np
import scipy.sparse as _sp

from . import sym as _s
from .sym import S, Sym


class UnsupportedNumpy(RuntimeError):
    pass


def _is_obj(x):
    return isinstance(x, Sym) or (isinstance(x, _np.ndarray) and x.dtype == object)


def _has_sym(*xs):
    for x in xs:
        if isinstance(x, Sym):
            return True
        if isinstance(x, _np.ndarray) and x.dtype == object:
            return True
        if isinstance(x, (list, tuple)) and any(_has_sym(y) for y in x):
            return True
    return False


def _float_dtype(dtype):
    if dtype is None:
        return True
    try:
        k = _np.dtype(dtype).kind
    except TypeError:
        return True
    return k not in "iub"


def _real_dtype(dtype):
    """a buffer NumPy would create with a real floating dtype (None = float64): under a complex-step perturbation whatever
    is stored into it loses its imaginary part (with a ComplexWarning only)"""
    if dtype is None:
        return True
    try:
        return _np.dtype(dtype).kind == "f"
    except TypeError:
        return False


def _realize(value):
    from .sym import realpart

    if isinstance(value, Sym):
        return realpart(value)
    if isinstance(value, _np.ndarray) and value.dtype == object:
        out = _np.empty(value.shape, dtype=object)
        flat_in, flat_out = value.ravel(), out.ravel()
        for i, v in enumerate(flat_in):
            flat_out[i] = realpart(v) if isinstance(v, Sym) else v
        return out
    if isinstance(value, (list, tuple)):
        return _realize(_np.array(value, dtype=object)) if _has_sym(value) else value
    return value


class RealBuffer(_np.ndarray):
    """object array standing for a *real-typed* local buffer of a component whose partials are obtained by complex step:
    every symbolic value stored into it is wrapped in the real-part marker (value unchanged; the complex-step model of the
    differentiator lets nothing through it).  Results of arithmetic on it are ordinary arrays (real + complex is complex)."""

    def __array_finalize__(self, obj):
        pass

    def __array_ufunc__(self, ufunc, method, *inputs, out=None, **kw):
        ins = tuple(i.view(_np.ndarray) if isinstance(i, RealBuffer) else i for i in inputs)
        if out is not None:
            outs = tuple(o.view(_np.ndarray) if isinstance(o, RealBuffer) else o for o in out)
            getattr(ufunc, method)(*ins, out=outs, **kw)
            for o, ob in zip(out, outs):
                if isinstance(o, RealBuffer):
                    ob[...] = _realize(_np.array(ob, dtype=object))
            return out[0] if len(out) == 1 else out
        return getattr(ufunc, method)(*ins, **kw)

    def __setitem__(self, key, value):
        _np.ndarray.__setitem__(self, key, _realize(value))


def _real_buffer(arr):
    if COMPLEX_STEP_COMPONENT[0]:
        return arr.view(RealBuffer)
    return arr


def _elementwise(fn, npfn):
    def f(x, *a, **k):
        if isinstance(x, Sym):
            return fn(x)
        if isinstance(x, _np.ndarray) and x.dtype == object:
            out = _np.empty(x.shape, dtype=object)
            for idx in _np.ndindex(*x.shape):
                out[idx] = fn(S(x[idx]))
            return out
        if isinstance(x, (list, tuple)) and _has_sym(x):
            return f(_np.array(x, dtype=object))
        return npfn(x, *a, **k)

    f.__name__ = getattr(npfn, "__name__", "f")
    return f


def _log10(x):
    return _s.div(_s.log(x), _s.LN10)


from .sym import CS_MODE as COMPLEX_STEP_COMPONENT  # set by the harness while it runs a component whose partials are complex-step approximated


class _Linalg:
    def __getattr__(self, name):
        real = getattr(_np.linalg, name)

        def guard(*a, **k):
            if _has_sym(*a):
                raise UnsupportedNumpy("np.linalg.%s on symbolic data" % name)
            return real(*a, **k)

        return guard

    @staticmethod
    def norm(x, ord=None, axis=None, keepdims=False):
        if not _has_sym(x):
            return _np.linalg.norm(x, ord=ord, axis=axis, keepdims=keepdims)
        if ord not in (None, 2):
            raise UnsupportedNumpy("norm ord=%r" % (ord,))
        x = _np.asarray(x, dtype=object)
        if COMPLEX_STEP_COMPONENT[0]:
            # numpy's norm of a complex vector is sqrt(sum |x_i|^2): under a complex-step perturbation it is a real magnitude.
            # Keep the |.| visible so that the complex-step model of the differentiator sees it (same value on the reals).
            from .sym import fabs

            ax = _np.vectorize(lambda v: fabs(v) if not isinstance(v, (int, float)) else abs(v), otypes=[object])(x)
            ss = _np.sum(ax * ax, axis=axis, keepdims=keepdims)
        else:
            ss = _np.sum(x * x, axis=axis, keepdims=keepdims)
        return NP.sqrt(ss)

    @staticmethod
    def det(a):
        if not _has_sym(a):
            return _np.linalg.det(a)
        a = _np.asarray(a, dtype=object)
        n = a.shape[0]
        if n == 1:
            return a[0, 0]
        if n == 2:
            return a[0, 0] * a[1, 1] - a[0, 1] * a[1, 0]
        if n == 3:
            return (a[0, 0] * (a[1, 1] * a[2, 2] - a[1, 2] * a[2, 1]) - a[0, 1] * (a[1, 0] * a[2, 2] - a[1, 2] * a[2, 0])
                    + a[0, 2] * (a[1, 0] * a[2, 1] - a[1, 1] * a[2, 0]))
        raise UnsupportedNumpy("det n>3")


class _NP:
    """Stands in for the module global `np`."""

    linalg = _Linalg()
    pi = _np.pi

    def __getattr__(self, name):
        return getattr(_np, name)

    @staticmethod
    def array_equal(a, b, *args, **k):
        """one fork on the conjunction of the element-wise equalities (numpy would compare element by element, which
        forks once per element)"""
        if not _has_sym(a, b):
            return _np.array_equal(a, b, *args, **k)
        from .sym import S, band, eq

        x, y = _np.asarray(a, dtype=object), _np.asarray(b, dtype=object)
        if x.shape != y.shape:
            return False
        return bool(band(*[eq(S(p), S(q)) for p, q in zip(x.ravel(), y.ravel())]))

    # ---- array creation: float targets become object arrays
    @staticmethod
    def zeros(shape, dtype=None, **k):
        if _float_dtype(dtype):
            out = _np.zeros(shape, dtype=float).astype(object)
            return _real_buffer(out) if _real_dtype(dtype) else out
        return _np.zeros(shape, dtype=dtype, **k)

    @staticmethod
    def ones(shape, dtype=None, **k):
        if _float_dtype(dtype):
            out = _np.ones(shape, dtype=float).astype(object)
            return _real_buffer(out) if _real_dtype(dtype) else out
        return _np.ones(shape, dtype=dtype, **k)

    @staticmethod
    def empty(shape, dtype=None, **k):
        if _float_dtype(dtype):
            out = _np.zeros(shape, dtype=float).astype(object)
            return _real_buffer(out) if _real_dtype(dtype) else out
        return _np.empty(shape, dtype=dtype, **k)

    @staticmethod
    def full(shape, fill_value, dtype=None, **k):
        if _float_dtype(dtype) and not isinstance(fill_value, (int, _np.integer, bool)):
            out = _np.empty(shape, dtype=object)
            out[...] = fill_value
            return out
        return _np.full(shape, fill_value, dtype=dtype, **k)

    @staticmethod
    def eye(n, m=None, k=0, dtype=None, **kw):
        if _float_dtype(dtype):
            return _np.eye(n, m, k).astype(object)
        return _np.eye(n, m, k, dtype=dtype, **kw)

    @staticmethod
    def zeros_like(a, dtype=None, **k):
        if _float_dtype(dtype) and _np.asarray(a).dtype.kind not in "iub":
            out = _np.zeros(_np.shape(a), dtype=float).astype(object)
            # like a real array (an option, a constant): real; like an input (symbolic here, complex under complex step): not
            real_like = (dtype is None and _np.asarray(a).dtype.kind == "f") or (dtype is not None and _real_dtype(dtype))
            return _real_buffer(out) if real_like else out
        return _np.zeros_like(a, dtype=dtype, **k)

    @staticmethod
    def ones_like(a, dtype=None, **k):
        if _float_dtype(dtype) and _np.asarray(a).dtype.kind not in "iub":
            out = _np.ones(_np.shape(a), dtype=float).astype(object)
            real_like = (dtype is None and _np.asarray(a).dtype.kind == "f") or (dtype is not None and _real_dtype(dtype))
            return _real_buffer(out) if real_like else out
        return _np.ones_like(a, dtype=dtype, **k)

    @staticmethod
    def empty_like(a, dtype=None, **k):
        return _NP.zeros_like(a, dtype=dtype, **k)

    @staticmethod
    def asarray(obj, dtype=None, *a, **k):
        # a float target holding symbolic values stays an object array (the code under analysis asks for float64)
        if dtype is not None and _float_dtype(dtype) and _has_sym(obj):
            return _np.asarray(obj, dtype=object)
        return _np.asarray(obj, dtype, *a, **k)

    @staticmethod
    def array(obj, dtype=None, *a, **k):
        if dtype is not None and _float_dtype(dtype) and _has_sym(obj):
            return _np.array(obj, dtype=object)
        if dtype is not None and not isinstance(dtype, str):
            try:
                _np.dtype(dtype)
            except TypeError:
                dtype = object
        return _np.array(obj, dtype, *a, **k)

    # ---- elementwise math
    sqrt = staticmethod(_elementwise(_s.sqrt, _np.sqrt))
    sin = staticmethod(_elementwise(_s.sin, _np.sin))
    cos = staticmethod(_elementwise(_s.cos, _np.cos))
    tan = staticmethod(_elementwise(_s.tan, _np.tan))
    arctan = staticmethod(_elementwise(_s.atan, _np.arctan))
    # inverse cosine / sine on (-1, 1) through the arctangent atom: acos x = pi/2 - atan(x / sqrt(1 - x^2))
    arccos = staticmethod(_elementwise(lambda x: _s.PI / 2 - _s.atan(x / _s.sqrt(_s.ONE - x * x)), _np.arccos))
    arcsin = staticmethod(_elementwise(lambda x: _s.atan(x / _s.sqrt(_s.ONE - x * x)), _np.arcsin))
    exp = staticmethod(_elementwise(_s.exp, _np.exp))
    log = staticmethod(_elementwise(_s.log, _np.log))
    log10 = staticmethod(_elementwise(_log10, _np.log10))
    abs = staticmethod(_elementwise(_s.fabs, _np.abs))
    absolute = abs
    fabs = abs

    @staticmethod
    def power(x, p):
        if _has_sym(x, p):
            x = _np.asarray(x, dtype=object) if not isinstance(x, Sym) else x
            return x ** p
        return _np.power(x, p)

    @staticmethod
    def real(x):
        if not _has_sym(x):
            return _np.real(x)
        if COMPLEX_STEP_COMPONENT[0]:
            from .sym import S, realpart

            a = _np.asarray(x, dtype=object)
            return _np.vectorize(lambda v: realpart(S(v)), otypes=[object])(a) if a.shape else realpart(S(x))
        return x

    @staticmethod
    def imag(x):
        if _has_sym(x):
            return _np.zeros(_np.shape(x))
        return _np.imag(x)

    @staticmethod
    def iscomplexobj(x):
        return False if _has_sym(x) else _np.iscomplexobj(x)

    @staticmethod
    def iscomplex(x):
        return _np.zeros(_np.shape(x), dtype=bool) if _has_sym(x) else _np.iscomplex(x)

    @staticmethod
    def interp(x, xp, fp, left=None, right=None):
        if not _has_sym(x, xp, fp):
            return _np.interp(x, xp, fp, left, right)
        scalar = not isinstance(x, (_np.ndarray, list, tuple))
        xs = _np.atleast_1d(_np.asarray(x, dtype=object))
        xp = _np.asarray(xp, dtype=object)
        fp = _np.asarray(fp, dtype=object)
        out = _np.empty(xs.shape, dtype=object)
        n = len(xp)
        for idx in _np.ndindex(*xs.shape):
            xv = xs[idx]
            if bool(xv <= xp[0]):
                out[idx] = S(fp[0]) if left is None else S(left)
                continue
            if bool(xv >= xp[n - 1]):
                out[idx] = S(fp[n - 1]) if right is None else S(right)
                continue
            for k in range(n - 1):
                if bool(xv < xp[k + 1]) or k == n - 2:
                    t = (S(xv) - S(xp[k])) / (S(xp[k + 1]) - S(xp[k]))
                    out[idx] = S(fp[k]) + t * (S(fp[k + 1]) - S(fp[k]))
                    break
        return out[0] if scalar else out

    @staticmethod
    def isnan(x):
        if _has_sym(x):
            return _np.zeros(_np.shape(x), dtype=bool)
        return _np.isnan(x)


NP = _NP()


# ------------------------------------------------------------------------------ scipy stand-ins
class SymMatrix:
    """Dense object-matrix stand-in for scipy.sparse matrices (coo/csc/csr/diags)."""

    def __init__(self, shape, rows=None, cols=None, data=None):
        self.shape = tuple(shape)
        self.row = _np.asarray(rows if rows is not None else [], dtype=int)
        self.col = _np.asarray(cols if cols is not None else [], dtype=int)
        self._data = _np.asarray(data if data is not None else [], dtype=object)

    # scipy: assigning .data keeps the (row, col) pattern
    @property
    def data(self):
        return self._data

    @data.setter
    def data(self, v):
        v = _np.asarray(v, dtype=object)
        if v.shape != self._data.shape:
            raise ValueError("data shape mismatch in sparse stand-in")
        self._data = v

    @property
    def nnz(self):
        return len(self.row)

    def toarray(self):
        d = _np.zeros(self.shape, dtype=float).astype(object)
        for r, c, v in zip(self.row, self.col, self._data):
            d[r, c] = d[r, c] + v
        return d

    todense = toarray

    @classmethod
    def fromdense(cls, d):
        d = _np.asarray(d, dtype=object)
        if d.ndim == 1:
            d = d.reshape(1, -1)
        rows, cols, data = [], [], []
        for i in range(d.shape[0]):
            for j in range(d.shape[1]):
                v = d[i, j]
                if isinstance(v, Sym):
                    if v.op == "const" and v.args[0] == 0:
                        continue
                elif v == 0:
                    continue
                rows.append(i)
                cols.append(j)
                data.append(v)
        return cls(d.shape, rows, cols, data)

    def _same(self):
        return self

    tocsc = tocsr = tocoo = tolil = copy_like = _same

    def copy(self):
        return SymMatrix(self.shape, self.row.copy(), self.col.copy(), self._data.copy())

    @property
    def T(self):
        return SymMatrix((self.shape[1], self.shape[0]), self.col, self.row, self._data)

    def transpose(self):
        return self.T

    def dot(self, other):
        return self.__mul__(other)

    def __neg__(self):
        return SymMatrix(self.shape, self.row, self.col, -self._data)

    def __mul__(self, other):
        if isinstance(other, SymMatrix):
            return SymMatrix.fromdense(self.toarray().dot(other.toarray()))
        if isinstance(other, _np.ndarray):
            return self.toarray().dot(other)
        if _sp.issparse(other):
            return SymMatrix.fromdense(self.toarray().dot(_np.asarray(other.toarray(), dtype=object)))
        return SymMatrix(self.shape, self.row, self.col, self._data * other)

    def __rmul__(self, other):
        if isinstance(other, _np.ndarray):
            return other.dot(self.toarray())
        if _sp.issparse(other):
            return SymMatrix.fromdense(_np.asarray(other.toarray(), dtype=object).dot(self.toarray()))
        return SymMatrix(self.shape, self.row, self.col, other * self._data)

    __matmul__ = __mul__

    def __add__(self, other):
        o = other.toarray() if isinstance(other, SymMatrix) or _sp.issparse(other) else other
        return SymMatrix.fromdense(self.toarray() + o)

    def __sub__(self, other):
        o = other.toarray() if isinstance(other, SymMatrix) or _sp.issparse(other) else other
        return SymMatrix.fromdense(self.toarray() - o)

    def __getitem__(self, key):
        if isinstance(key, tuple):
            key = tuple(_np.asarray(k).astype(int) if isinstance(k, _np.ndarray) and k.dtype.kind == "f" else k
                        for k in key)
        r = self.toarray()[key]
        if isinstance(r, _np.ndarray) and r.ndim == 1:
            # scipy returns a 1 x N sparse matrix for fancy (rows, cols) indexing
            return SymMatrix.fromdense(r.reshape(1, -1))
        if isinstance(r, _np.ndarray) and r.ndim == 2:
            return SymMatrix.fromdense(r)
        return r

    @property
    def format(self):
        return "coo"


def coo_matrix(arg, shape=None, dtype=None, **k):
    if isinstance(arg, tuple) and len(arg) == 2 and isinstance(arg[1], tuple):
        data, (rows, cols) = arg
        if _has_sym(_np.asarray(data)) or _np.asarray(data).dtype == object:
            return SymMatrix(shape, rows, cols, data)
        return SymMatrix(shape, rows, cols, _np.asarray(data, dtype=float).astype(object))
    if isinstance(arg, _np.ndarray):
        return SymMatrix.fromdense(arg)
    if _sp.issparse(arg):
        c = arg.tocoo()
        return SymMatrix(c.shape, c.row, c.col, c.data.astype(object))
    raise UnsupportedNumpy("coo_matrix form")


csc_matrix = csr_matrix = coo_matrix


def diags(d, offsets=0, shape=None, **k):
    d = _np.asarray(d, dtype=object)
    if offsets != 0:
        raise UnsupportedNumpy("diags offsets")
    n = len(d)
    return SymMatrix((n, n), _np.arange(n), _np.arange(n), d)


def to_symmatrix(m):
    c = m.tocoo()
    return SymMatrix(c.shape, c.row.copy(), c.col.copy(), c.data.astype(object))


LU_LOG = []  # contract instances recorded during a symbolic run: (A dense object matrix, x symbols, b, trans)


class _LU:
    """Contract stub for LU handles (DESIGN 2.3): factorisation is not executed; a solve returns a fresh symbolic
    vector x constrained by  A x = b  (trans=0 / 'N')  or  A^T x = b  (trans=1 / 'T').  The constraints are recorded in
    LU_LOG and become hypotheses of the C02 obligations."""

    def __init__(self, a):
        self.a = a.toarray() if isinstance(a, SymMatrix) or _sp.issparse(a) else _np.asarray(a, dtype=object)

    def solve(self, b, trans="N"):
        return _lu_contract(self.a, b, 1 if trans in (1, "T") else 0)


def _lu_contract(a, b, trans):
    b = _np.asarray(b, dtype=object)
    n = a.shape[0]
    if b.shape != (n,):
        raise UnsupportedNumpy("LU contract stub: right-hand side of shape %r for a %dx%d system" % (b.shape, n, n))
    x = _s.symarray("lu_x%d" % len(LU_LOG), (n,))
    LU_LOG.append((a, x, b.copy(), trans))
    return x


def lu_factor(a, *args, **k):
    return _LU(a)


def lu_solve(lu, b, trans=0):
    return _lu_contract(lu.a, b, trans)


def splu(a, *args, **k):
    return _LU(a)


def lu_hypotheses():
    """SymBool equalities of every recorded solve"""
    hyp = []
    for (a, x, b, trans) in LU_LOG:
        m = a.T if trans else a
        n = m.shape[0]
        for i in range(n):
            row = _s.ZERO
            for j in range(n):
                aij = S(m[i, j])
                if aij is _s.ZERO:
                    continue
                row = row + aij * x[j]
            hyp.append(_s.eq(row, S(b[i])))
    return hyp


_FUNC_REBIND = {}
for _name in ("cos", "sin", "tan", "sqrt", "arctan", "arccos", "arcsin", "exp", "log", "log10", "abs", "zeros", "ones", "eye", "array"):
    _FUNC_REBIND[id(getattr(_np, _name))] = getattr(NP, _name)

_SCIPY_REBIND = {"coo_matrix": coo_matrix, "csc_matrix": csc_matrix, "csr_matrix": csr_matrix, "diags": diags,
                 "lu_factor": lu_factor, "lu_solve": lu_solve, "splu": splu}


@contextlib.contextmanager
def symbolic_numpy(extra=None):
    """Rebind np / numpy functions / scipy entry points in every loaded openaerostruct module."""
    saved = []
    extra = extra or {}
    for mname, mod in list(sys.modules.items()):
        if not mname.startswith("openaerostruct") or not isinstance(mod, types.ModuleType):
            continue
        for k, v in list(vars(mod).items()):
            new = None
            if v is _np:
                new = NP
            elif k in extra.get(mname, {}):
                new = extra[mname][k]
            elif k in _SCIPY_REBIND and getattr(v, "__module__", "").startswith("scipy"):
                new = _SCIPY_REBIND[k]
            elif callable(v) and id(v) in _FUNC_REBIND and not isinstance(v, type):
                new = _FUNC_REBIND[id(v)]
            if new is not None:
                saved.append((mod, k, v))
                setattr(mod, k, new)
    try:
        yield
    finally:
        for mod, k, v in saved:
            setattr(mod, k, v)


# ------------------------------------------------------------------------------ piecewise polynomials
class SymPPoly:
    """Stand-in for scipy PPoly / Akima1DInterpolator objects: evaluates the *concrete* coefficient arrays
    (c, x) scipy built (documented PPoly contract  p(t) = sum_m c[m,k] (t - x[k])^(K-m)  on [x[k], x[k+1]) )
    with exact binary-rational coefficients; the interval is found by comparison forks (binary search).
    Outside [x[0], x[-1]] Akima1DInterpolator returns NaN: that is a domain error here."""

    def __init__(self, pp):
        from fractions import Fraction

        self.x = [Fraction(float(v)) for v in pp.x]
        self.c = [[Fraction(float(v)) for v in row] for row in pp.c]
        self.K = len(self.c) - 1
        self.pp = pp

    def piece(self, k, t):
        acc = _s.ZERO
        dt = S(t) - _s.const(self.x[k])
        for m in range(self.K + 1):
            acc = acc * dt + _s.const(self.c[m][k])
        return acc

    def __call__(self, t, *a, **k):
        if not _has_sym(t):
            return self.pp(t, *a, **k)
        arr = _np.asarray(t, dtype=object)
        out = _np.empty(arr.shape, dtype=object)
        for idx in (_np.ndindex(*arr.shape) if arr.shape else [()]):
            tv = S(arr[idx])
            lo, hi = 0, len(self.x) - 1
            if bool(tv < _s.const(self.x[0])) or bool(tv > _s.const(self.x[-1])):
                raise _s.SymDomainError("piecewise polynomial evaluated outside its table")
            while hi - lo > 1:
                mid = (lo + hi) // 2
                if bool(tv < _s.const(self.x[mid])):
                    hi = mid
                else:
                    lo = mid
            out[idx] = self.piece(lo, tv)
        return out if arr.shape else out[()]
