"""./check <property id> --tier quick|thorough [--replay file]"""
import argparse
import importlib
import os
import sys
import traceback
import warnings


def main():
    ap = argparse.ArgumentParser()
    ap.add_argument("pid")
    ap.add_argument("--tier", default=os.environ.get("VERIF_TIER", "quick"), choices=["quick", "thorough"])
    ap.add_argument("--replay", default=None)
    ap.add_argument("--only", default=None, help="comma-separated case-name substrings (development aid)")
    a = ap.parse_args()
    seed = int(os.environ.get("VERIF_SEED", "0") or 0)
    if a.only:
        os.environ["SYMOAS_PARTIAL_RUN"] = "1"
    warnings.filterwarnings("ignore")
    sys.setrecursionlimit(20000)
    from symoas import solve
    from symoas.harness import assert_repo_import

    rc = 3
    cov = None
    if os.environ.get("SYMOAS_COVERAGE"):
        # development aid: which lines of the analysed library does this check execute (symbolically or in replays)?
        import coverage

        cov = coverage.Coverage(data_file=os.path.join(os.environ["SYMOAS_COVERAGE"], ".coverage.%s" % a.pid), source=[os.path.join(os.environ.get("OAS_REPO", "/repo"), "openaerostruct")])
        cov.start()
    try:
        assert_repo_import()
        mod = importlib.import_module("props.%s" % a.pid.lower())
        if a.replay:
            rc = mod.replay_file(a.replay)
        else:
            rc = mod.run(a.tier, seed, only=a.only.split(",") if a.only else None)
    except SystemExit as e:
        print(e)
        rc = 3
    except BaseException:
        traceback.print_exc()
        print("HARNESS-ERROR: %s check crashed" % a.pid)
        rc = 3
    finally:
        solve.close_pool()
        if cov is not None:
            cov.stop()
            cov.save()
    sys.stdout.flush()
    os._exit(rc)


if __name__ == "__main__":
    main()
