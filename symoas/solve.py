"""Solver pool: SMT-LIB2 text -> verdicts, on worker processes with hard timeouts (DESIGN.md 2.8)."""
from __future__ import annotations

import multiprocessing as mp
import os
import time
from multiprocessing.connection import wait

NWORKERS = int(os.environ.get("SYMOAS_WORKERS", "0")) or min(16, os.cpu_count() or 4)


def _model_to_dict(m):
    import z3

    out = {}
    for d in m.decls():
        if d.arity() != 0:
            continue
        v = m[d]
        try:
            if z3.is_rational_value(v):
                out[d.name()] = "%s/%s" % (v.numerator_as_long(), v.denominator_as_long())
            elif z3.is_algebraic_value(v):
                a = v.approx(30)
                out[d.name()] = "%s/%s" % (a.numerator_as_long(), a.denominator_as_long())
            else:
                out[d.name()] = str(v)
        except Exception as e:  # pragma: no cover
            out[d.name()] = "?" + str(e)
    return out


def solve_z3(text, timeout_s, want_model=True):
    import z3

    t0 = time.time()
    ctx = z3.Context()
    s = z3.Solver(ctx=ctx)
    s.set("timeout", int(timeout_s * 1000))
    try:
        s.from_string(text)
        r = s.check()
    except z3.Z3Exception as e:
        return {"result": "error", "detail": str(e)[:300], "time": time.time() - t0}
    res = {"result": str(r), "time": time.time() - t0}
    if str(r) == "sat" and want_model:
        try:
            res["model"] = _model_to_dict(s.model())
        except Exception as e:  # pragma: no cover
            res["model_error"] = str(e)
    if str(r) == "unknown":
        res["detail"] = s.reason_unknown()
    return res


def solve_cvc5(text, timeout_s, want_model=False):
    """cvc5 (python wheel 1.4) on the same SMT-LIB2 text: used as a cross-check of z3's verdicts in the thorough tier"""
    import cvc5

    t0 = time.time()
    src = text if "(set-logic" in text else "(set-logic QF_NRA)\n" + text
    try:
        slv = cvc5.Solver()
        slv.setOption("tlimit-per", str(int(timeout_s * 1000)))
        p = cvc5.InputParser(slv)
        p.setStringInput(cvc5.InputLanguage.SMT_LIB_2_6, src, "q")
        sm = p.getSymbolManager()
        res = "unknown"
        while True:
            cmd = p.nextCommand()
            if cmd.isNull():
                break
            out = cmd.invoke(slv, sm).strip()
            if out in ("sat", "unsat", "unknown"):
                res = out
            elif out.startswith("(error"):
                res = "error"
        return {"result": res, "time": time.time() - t0}
    except Exception as e:
        return {"result": "error", "detail": repr(e)[:200], "time": time.time() - t0}


def _worker(conn):
    import signal

    signal.signal(signal.SIGINT, signal.SIG_IGN)
    while True:
        try:
            job = conn.recv()
        except EOFError:
            return
        if job is None:
            return
        qid, text, timeout_s, backend, want_model = job
        try:
            if backend == "cvc5":
                res = solve_cvc5(text, timeout_s)
            else:
                res = solve_z3(text, timeout_s, want_model)
        except BaseException as e:  # pragma: no cover
            res = {"result": "error", "detail": repr(e)[:300], "time": 0.0}
        conn.send((qid, res))


class SolverPool:
    """N long-lived worker processes; a worker that overruns timeout+grace is killed and respawned."""

    def __init__(self, n=None, grace=10.0):
        self.n = n or NWORKERS
        self.grace = grace
        self.ctx = mp.get_context("fork")
        self.workers = []
        self.stats = {"queries": 0, "solver_time": 0.0, "killed": 0}
        for _ in range(self.n):
            self.workers.append(self._spawn())

    def _spawn(self):
        a, b = self.ctx.Pipe()
        p = self.ctx.Process(target=_worker, args=(b,), daemon=True)
        p.start()
        b.close()
        return {"proc": p, "conn": a, "job": None, "deadline": None}

    def run(self, jobs, progress=None, groups=None, final=None):
        """jobs: list of (text, timeout_s, backend, want_model). Returns list of result dicts in order.

        groups/final: portfolio mode - groups[i] is the group of job i; when final(i, result) is true the
        group is decided: its unstarted jobs are skipped and its running jobs are killed."""
        results = [None] * len(jobs)
        nxt = 0
        inflight = 0
        total = len(jobs)
        done_groups = set()
        while nxt < total or inflight:
            for w in self.workers:
                while w["job"] is None and nxt < total and groups is not None and groups[nxt] in done_groups:
                    results[nxt] = {"result": "skipped", "time": 0.0}
                    nxt += 1
                if w["job"] is None and nxt < total:
                    text, timeout_s, backend, want_model = jobs[nxt]
                    w["conn"].send((nxt, text, timeout_s, backend, want_model))
                    w["job"] = nxt
                    w["deadline"] = time.time() + timeout_s + self.grace
                    nxt += 1
                    inflight += 1
            busy = [w for w in self.workers if w["job"] is not None]
            if not busy:
                continue
            tmo = max(0.05, min(w["deadline"] for w in busy) - time.time())
            ready = wait([w["conn"] for w in busy], timeout=min(tmo, 1.0))
            now = time.time()
            for i, w in enumerate(self.workers):
                if w["job"] is None:
                    continue
                if w["conn"] in ready:
                    try:
                        qid, res = w["conn"].recv()
                    except (EOFError, OSError):
                        qid, res = w["job"], {"result": "error", "detail": "worker died", "time": 0.0}
                        w["proc"].kill()
                        self.workers[i] = self._spawn()
                        w = self.workers[i]
                    results[qid] = res
                    self.stats["queries"] += 1
                    self.stats["solver_time"] += res.get("time", 0.0)
                    w["job"] = None
                    inflight -= 1
                    if progress:
                        progress(qid, res)
                    if groups is not None and final is not None and final(qid, res):
                        done_groups.add(groups[qid])
                elif groups is not None and groups[w["job"]] in done_groups:
                    qid = w["job"]
                    w["proc"].kill()
                    w["proc"].join()
                    w["conn"].close()
                    self.workers[i] = self._spawn()
                    results[qid] = {"result": "skipped", "time": 0.0}
                    inflight -= 1
                elif now > w["deadline"]:
                    qid = w["job"]
                    w["proc"].kill()
                    w["proc"].join()
                    w["conn"].close()
                    self.workers[i] = self._spawn()
                    results[qid] = {"result": "unknown", "detail": "hard timeout, worker killed",
                                    "time": jobs[qid][1] + self.grace}
                    self.stats["queries"] += 1
                    self.stats["solver_time"] += jobs[qid][1] + self.grace
                    self.stats["killed"] += 1
                    inflight -= 1
        return results

    def close(self):
        for w in self.workers:
            try:
                w["conn"].send(None)
            except Exception:
                pass
        for w in self.workers:
            w["proc"].join(timeout=1)
            if w["proc"].is_alive():
                w["proc"].kill()
        self.workers = []


_POOL = None


def pool() -> SolverPool:
    global _POOL
    if _POOL is None:
        _POOL = SolverPool()
    return _POOL


def close_pool():
    global _POOL
    if _POOL is not None:
        _POOL.close()
        _POOL = None
