"""Symbolic propagation through a chain of real components that share one promoted namespace
(what `promotes=['*']` groups such as VLMStates do), including OpenMDAO's unit conversion between
a source and an input declared in different units."""
from __future__ import annotations

import numpy as np

from .model import SymComp
from .sym import S, symarray, symify


def _conv(arr, src_units, dst_units):
    if src_units is None or dst_units is None or src_units == dst_units:
        return arr
    from openmdao.utils.units import unit_conversion

    factor, offset = unit_conversion(src_units, dst_units)
    out = np.asarray(arr, dtype=object)
    if offset:
        out = out + S(float(offset))
    if factor != 1.0:
        out = out * S(float(factor))
    return out


class Pipe:
    def __init__(self, comps):
        self.comps = comps

    def encode(self, rep):
        for c in self.comps:
            rep.encode(type((c[0] if isinstance(c, tuple) else c).comp))

    def run(self, given, units=None, assumptions=(), prefix=""):
        """given: name -> array (symbolic or numeric). Missing inputs become fresh symbols `<prefix><name>[..]`.
        Returns the namespace (name -> object array) and the dict of free inputs that were created."""
        ns = {k: np.asarray(v, dtype=object) for k, v in given.items()}
        un = dict(units or {})
        free = {}
        for item in self.comps:
            sc, pre = item if isinstance(item, tuple) else (item, "")
            meta = sc.comp._var_rel2meta
            ins = {}
            for n0 in sc.in_names:
                n = pre + n0
                if n not in ns:
                    ns[n] = symarray(prefix + n, sc.shape(n0))
                    un[n] = meta[n0].get("units")
                    free[n] = ns[n]
                a = _conv(ns[n], un.get(n), meta[n0].get("units"))
                a = np.asarray(a, dtype=object)
                if a.shape != sc.shape(n0):
                    a = a.reshape(sc.shape(n0)) if a.size == int(np.prod(sc.shape(n0))) else np.broadcast_to(a, sc.shape(n0)).copy()
                ins[n0] = a
            out = sc.sym1(ins, assumptions=assumptions)
            for n0 in sc.out_names:
                ns[pre + n0] = out[n0]
                un[pre + n0] = meta[n0].get("units")
        return ns, free


def vlm_states(surfaces, stub_kernels=True, rotational=False, upto=None):
    """The aerodynamic states of the given surfaces, executed through the *real* AeroPoint group's own wiring
    (RealStates); SYMOAS_REPLICA_STATES=1 falls back to a hand-listed component sequence (for comparison only)."""
    import os

    if os.environ.get("SYMOAS_REPLICA_STATES", "0") == "1":
        return vlm_states_replica(surfaces, stub_kernels=stub_kernels, rotational=rotational, upto=upto)
    return RealStates(surfaces, stub_kernels=stub_kernels, rotational=rotational)


class RealStates:
    """Same interface as Pipe (run(given, units) -> namespace by short names) but the components, their options and the
    connections between them are those the real AeroPoint group sets up for these surfaces."""

    def __init__(self, surfaces, stub_kernels=True, rotational=False, compressible=False):
        from props import groups

        self.surfaces = surfaces
        self.rotational = rotational
        self.stub = stub_kernels
        self.prob = groups.aeropoint_problem(surfaces, rotational=rotational, compressible=compressible)
        self.root = "aero_point_0"
        self.last = None

    def encode(self, rep):
        from .kernels import EVAL_MTX_STUBS

        GroupPipe(self.prob, root=self.root, extra=EVAL_MTX_STUBS if self.stub else None, skip_contains=("_perf.", ".total_perf.")).encode(rep)

    def run(self, given, units=None, assumptions=(), prefix=""):
        from .kernels import EVAL_MTX_STUBS

        units = dict(units or {})
        G = GroupPipe(self.prob, root=self.root, extra=EVAL_MTX_STUBS if self.stub else None, skip_contains=("_perf.", ".total_perf."))
        ivc_units = {"alpha": "deg", "beta": "deg", "v": "m/s", "rho": "kg/m**3", "Mach_number": None, "re": "1/m", "cg": "m", "omega": "rad/s"}
        ext, states = {}, {}
        for k, v in given.items():
            a = np.asarray(v, dtype=object)
            if k == "circulations":
                states[self.root + ".aero_states.solve_matrix.circulations"] = a
                continue
            if k in ivc_units and k in units:
                a = np.asarray(_conv(a, units[k], ivc_units[k]), dtype=object)
            for key in (k, self.root + "." + k, self.root + ".aero_states." + k):
                ext[key] = a
        G.run(external=ext, states=states, assumptions=assumptions)
        self.last = G
        ns = {}
        pre = self.root + ".aero_states."
        for absn, val in G.vals.items():
            if absn.startswith(pre):
                ns[absn.rsplit(".", 1)[-1]] = val
            elif absn.startswith(self.root + "."):
                rest = absn[len(self.root) + 1:]
                if rest.count(".") == 1:  # <surface>.<geometry output>
                    sname, out = rest.split(".")
                    ns["%s_%s" % (sname, out)] = val
        for absn, val in G.resid.items():
            ns["residual:" + absn.rsplit(".", 1)[-1]] = val
        for k, v in given.items():
            ns.setdefault(k, np.asarray(v, dtype=object))
        free = {k: v for k, v in G.vals.items() if k.startswith("flight.") or k.startswith("_auto_ivc")}
        return ns, free


def vlm_states_replica(surfaces, stub_kernels=True, rotational=False, upto=None):
    """The component sequence of VLMStates (without the linear solve: circulations are an input)."""
    from .kernels import EVAL_MTX_STUBS

    extra = EVAL_MTX_STUBS if stub_kernels else None
    A = "aerodynamics."
    n = sum((s["mesh"].shape[0] - 1) * (s["mesh"].shape[1] - 1) for s in surfaces)
    comps = [
        SymComp(A + "collocation_points", "CollocationPoints", surfaces=surfaces),
        SymComp(A + "vortex_mesh", "VortexMesh", surfaces=surfaces),
        SymComp(A + "get_vectors", "GetVectors", surfaces=surfaces, num_eval_points=n, eval_name="coll_pts"),
        SymComp(A + "eval_mtx", "EvalVelMtx", extra=extra, surfaces=surfaces, num_eval_points=n, eval_name="coll_pts"),
    ]
    if rotational:
        comps.append(SymComp(A + "rotational_velocity", "RotationalVelocity", surfaces=surfaces))
    comps.append(SymComp(A + "convert_velocity", "ConvertVelocity", surfaces=surfaces, rotational=rotational))
    comps += [(SymComp(A + "geometry", "VLMGeometry", surface=s), s["name"] + "_") for s in surfaces]
    comps.append(SymComp(A + "mtx_rhs", "VLMMtxRHSComp", surfaces=surfaces))
    if upto == "mtx":
        return Pipe(comps)
    comps += [
        SymComp(A + "horseshoe_circulations", "HorseshoeCirculations", surfaces=surfaces),
        SymComp(A + "get_vectors", "GetVectors", surfaces=surfaces, num_eval_points=n, eval_name="force_pts"),
        SymComp(A + "eval_mtx", "EvalVelMtx", extra=extra, surfaces=surfaces, num_eval_points=n, eval_name="force_pts"),
        SymComp(A + "eval_velocities", "EvalVelocities", surfaces=surfaces, num_eval_points=n, eval_name="force_pts"),
        SymComp(A + "panel_forces", "PanelForces", surfaces=surfaces),
        SymComp(A + "panel_forces_surf", "PanelForcesSurf", surfaces=surfaces),
    ]
    return Pipe(comps)


# ------------------------------------------------------------------------------------------------ real groups
class GroupPipe:
    """Symbolic execution of a *real, set-up* OpenMDAO group: every leaf component under `root` is run in the group's
    own execution order and fed through the group's own resolved connections (including unit conversion and
    src_indices), so that the wiring itself is part of what is verified.  Implicit components contribute their
    residuals; their states are fresh symbols (or given).  IndepVarComp / auto-IVC outputs are the external inputs."""

    def __init__(self, prob, root="", extra=None, skip=(), assume_for=None, abstract=(), skip_contains=()):
        import openmdao.api as om

        self.prob = prob
        self.model = prob.model
        self.extra = extra or {}
        self.assume_for = assume_for or {}  # component class name -> fn(inputs) -> assumptions that prune its forks
        # outputs (absolute-name suffixes) that downstream components see as fresh symbols; the computed expression is
        # kept in self.abstracted[abs name] so that obligations can be stated about it (compositional cut)
        self.abstract = tuple(abstract)
        self.abstracted = {}
        self.root = root
        top = prob.model if not root else prob.model._get_subsystem(root)
        self.leaves = []
        for s in top.system_iter(recurse=True, include_self=False):
            if isinstance(s, (om.ExplicitComponent, om.ImplicitComponent)) and not any(s.pathname.endswith(k) for k in skip) \
                    and not any(k in s.pathname + "." for k in skip_contains):
                self.leaves.append(s)
        self.conn = dict(prob.model._conn_global_abs_in2out)
        self.meta_in = prob.model._var_allprocs_abs2meta["input"]
        self.meta_out = prob.model._var_allprocs_abs2meta["output"]
        res = prob.model._resolver
        self.prom_in = {a: res.abs2prom(a, "input") for a in self.meta_in}
        self.prom_out = {a: res.abs2prom(a, "output") for a in self.meta_out}
        self.wrapped = {}

    def encode(self, rep):
        for s in self.leaves:
            if type(s).__module__.startswith("openaerostruct"):
                rep.encode(type(s))
        # the groups whose setup() produced the wiring that is being executed
        top = self.model if not self.root else self.model._get_subsystem(self.root)
        for s in [top] + list(top.system_iter(recurse=True, include_self=False, typ=__import__("openmdao.api", fromlist=["Group"]).Group)):
            if type(s).__module__.startswith("openaerostruct"):
                rep.encode(type(s))

    def _wrap(self, comp):
        from .model import SymComp

        if comp.pathname not in self.wrapped:
            ex = None
            for mod, d in self.extra.items():
                if type(comp).__module__ == mod:
                    ex = {mod: d}
            self.wrapped[comp.pathname] = SymComp.from_instance(comp, self.prob, extra=ex)
        return self.wrapped[comp.pathname]

    def run(self, external=None, states=None, assumptions=()):
        """external: promoted name (or absolute source name) -> array, in the *source's* units; missing ones become
        fresh symbols named by the promoted name.  states: promoted/absolute name of implicit outputs -> array.
        Returns (values by absolute output name, residuals by absolute name, dict of created external symbols)."""
        import openmdao.api as om

        external = dict(external or {})
        states = dict(states or {})
        self.guesses = {}
        self.assumed = []
        self.computed_for_guess = {}
        vals = {}
        resid = {}
        created = {}

        def source_value(src):
            if src in vals:
                return vals[src]
            prom = self.prom_out.get(src, src)
            shape = tuple(self.meta_out[src]["shape"])
            for key in (src, prom):
                if key in external:
                    vals[src] = np.asarray(external[key], dtype=object).reshape(shape) if np.size(external[key]) == int(np.prod(shape)) else np.broadcast_to(np.asarray(external[key], dtype=object), shape).copy()
                    return vals[src]
            return None

        for comp in self.leaves:
            if isinstance(comp, om.IndepVarComp):
                if comp.pathname == "_auto_ivc" and self.internal_defaults:
                    continue  # decided per consuming input below (model input -> symbol, library-internal default -> constant)
                for n in comp._var_rel_names["output"]:
                    absn = comp.pathname + "." + n
                    if source_value(absn) is None:
                        prom = self.prom_out.get(absn, absn)
                        parent = self.model._get_subsystem(comp.pathname.rsplit(".", 1)[0]) if "." in comp.pathname else self.model
                        try:
                            rel = parent._resolver.abs2prom(absn, "output")
                        except Exception:
                            rel = None
                        if type(comp) is om.IndepVarComp and type(parent).__module__.startswith("openaerostruct") and rel == comp.name + "." + n:
                            # an IndepVarComp a library group creates for itself (e.g. alpha = beta = 0 of the Prandtl-Glauert
                            # frame) is a constant of that group, not a model input: its declared value is used
                            from .sym import symify as _symify

                            vals[absn] = _symify(np.array(self.prob.get_val(absn), dtype=float).reshape(tuple(self.meta_out[absn]["shape"])))
                            self.constants = getattr(self, "constants", {})
                            self.constants[absn] = vals[absn]
                        else:
                            vals[absn] = symarray(prom, tuple(self.meta_out[absn]["shape"]))
                            created[prom] = vals[absn]
                continue
            sc = self._wrap(comp)
            ins = {}
            for n in sc.in_names:
                abs_in = comp.pathname + "." + n
                src = self.conn.get(abs_in)
                shape = sc.shape(n)
                if src is None:
                    raise RuntimeError("unconnected input %s" % abs_in)
                sv = source_value(src)
                if sv is None:
                    if src.startswith("_auto_ivc."):
                        prom = self.prom_in.get(abs_in, abs_in)
                        key = prom if prom in external else None
                        sshape = tuple(self.meta_out[src]["shape"])
                        if key:
                            sv = np.asarray(external[key], dtype=object)
                            sv = sv.reshape(sshape) if sv.size == int(np.prod(sshape)) else np.broadcast_to(sv, sshape).copy()
                        elif self._internal_default(comp, n, abs_in):
                            # an input that the enclosing library group neither promotes nor connects (e.g. the span of
                            # Stretch when the surface dictionary has no "span" key): it keeps the value the group gave it
                            sv = symify(np.array(self.prob.get_val(abs_in, units=self.meta_out[src].get("units")), dtype=float).reshape(sshape))
                            self.constants = getattr(self, "constants", {})
                            self.constants[abs_in] = sv
                        else:
                            sv = symarray(prom, sshape)
                            created[prom] = sv
                        vals[src] = sv
                    else:
                        # feedback connection of a coupled group, or the output of a subsystem that is not executed
                        # here: an independent symbol ("guess"); the relation between guess and computed value is the
                        # fixed-point equation of the coupling and is *not* assumed
                        prom = self.prom_out.get(src, src)
                        sv = symarray(prom, tuple(self.meta_out[src]["shape"]))
                        vals[src] = sv
                        created[prom] = sv
                        self.guesses[src] = sv
                a = _conv(sv, self.meta_out[src].get("units"), self.meta_in[abs_in].get("units"))
                a = np.asarray(a, dtype=object)
                m_in = self.model._var_abs2meta["input"].get(abs_in, {})
                si = m_in.get("src_indices")
                if si is not None:
                    flat = a.ravel() if m_in.get("flat_src_indices", True) else a
                    idx = si.shaped_array() if hasattr(si, "shaped_array") else np.asarray(si)
                    a = flat[idx] if m_in.get("flat_src_indices", True) or a.ndim == 1 else a[idx]
                if a.shape != shape:
                    a = a.reshape(shape) if a.size == int(np.prod(shape)) else np.broadcast_to(a, shape).copy()
                ins[n] = a
            if isinstance(comp, om.ImplicitComponent):
                from .harness import VecStore
                from .npproxy import symbolic_numpy

                outs = {}
                for n in sc.out_names:
                    absn = comp.pathname + "." + n
                    prom = self.prom_out.get(absn, absn)
                    given = states.get(absn, states.get(prom))
                    arr = symarray(prom, sc.shape(n)) if given is None else np.asarray(given, dtype=object).reshape(sc.shape(n))
                    if given is None:
                        created[prom] = arr
                    outs[n] = arr
                    vals[absn] = arr
                with symbolic_numpy(sc.extra):
                    R = VecStore({n: np.empty(sc.shape(n), dtype=object) for n in sc.out_names})
                    saved, _ = sc.runner._swap_sparse_only()
                    try:
                        comp.apply_nonlinear(VecStore(ins), VecStore(outs), R)
                    finally:
                        sc.runner._restore_attrs(saved)
                for n in sc.out_names:
                    resid[comp.pathname + "." + n] = symify(R[n])
            elif type(comp).__module__.startswith("openmdao"):
                out = self._affine_probe(comp, sc, ins)
                for n in sc.out_names:
                    vals[comp.pathname + "." + n] = out[n]
            else:
                extra_assume = self.assume_for[type(comp).__name__](ins) if type(comp).__name__ in self.assume_for else []
                self.assumed += extra_assume
                out = sc.sym1(ins, assumptions=list(assumptions) + extra_assume)
                for n in sc.out_names:
                    absn = comp.pathname + "." + n
                    if absn in self.guesses:
                        self.computed_for_guess[absn] = out[n]  # the coupled value; downstream consumers keep the guess
                    elif any(absn.endswith(a) for a in self.abstract):
                        self.abstracted[absn] = out[n]
                        vals[absn] = symarray(self.prom_out.get(absn, absn), sc.shape(n))
                    else:
                        vals[absn] = out[n]
        self.vals, self.resid = vals, resid
        return vals, resid, created

    def _internal_default(self, comp, n, abs_in):
        if "." not in comp.pathname:
            return False
        parent = self.model._get_subsystem(comp.pathname.rsplit(".", 1)[0])
        if not type(parent).__module__.startswith("openaerostruct"):
            return False
        try:
            rel = parent._resolver.abs2prom(abs_in, "input")
        except Exception:
            return False
        return rel in (comp.name + "." + n, comp.pathname + "." + n) and self.internal_defaults

    internal_defaults = False

    def get(self, prom):
        """value of an output by promoted (or absolute) name"""
        if prom in self.vals:
            return self.vals[prom]
        for absn, p in self.prom_out.items():
            if p == prom and absn in self.vals:
                return self.vals[absn]
        raise KeyError(prom)

    def _affine_probe(self, comp, sc, ins):
        """OpenMDAO's own affine components (SplineComp, ExecComp sums): outputs = f(0) + sum_j (f(e_j) - f(0)) x_j, with
        f evaluated by the real compute on concrete vectors (the interpolation matrix is taken as data)."""
        from .harness import VecStore

        def f(v):
            I = VecStore({n: np.asarray(v[n], dtype=float).reshape(sc.shape(n)) for n in sc.in_names})
            O = VecStore({n: np.zeros(sc.shape(n)) for n in sc.out_names})
            comp.compute(I, O)
            return {n: np.array(O[n], dtype=float) for n in sc.out_names}

        zero = {n: np.zeros(sc.shape(n)) for n in sc.in_names}
        f0 = f(zero)
        out = {n: np.array(f0[n], dtype=object) for n in sc.out_names}
        from fractions import Fraction

        from .sym import const

        for n in sc.in_names:
            flat = np.asarray(ins[n], dtype=object).ravel()
            for j in range(flat.size):
                e = dict(zero)
                v = np.zeros(flat.size)
                v[j] = 1.0
                e[n] = v.reshape(sc.shape(n))
                fj = f(e)
                for o in sc.out_names:
                    d = fj[o] - f0[o]
                    nz = np.nonzero(d.ravel())[0]
                    of = out[o].ravel() if out[o].ndim else out[o].reshape(1)
                    for k in nz:
                        of[k] = S(of[k]) + const(Fraction(float(d.ravel()[k]))) * S(flat[j])
                    out[o] = of.reshape(np.shape(out[o])) if out[o].ndim else of[0]
        return {n: symify(out[n]) for n in sc.out_names}


def by_name_obligations(prob, root="", extra=None, assume_for=None, abstract=(), skip_inputs=(), label=""):
    """Name-consistency of a real group's wiring.  In the groups this is applied to, the library's convention is that a
    component input is the variable of the same (promoted) name in the enclosing group: an output of a sibling component
    when there is one, a group input otherwise.  The group is executed twice over the same symbols - through its real
    connection table (GroupPipe) and with every input resolved by name - and every component output must agree.
    Returns (obligation specs, GroupPipe): specs are (id, real value, by-name value, component path, output name)."""
    import openmdao.api as om

    G = GroupPipe(prob, root=root, extra=extra, assume_for=assume_for, abstract=abstract)
    G.run()
    top = prob.model if not root else prob.model._get_subsystem(root)
    pre = (root + ".") if root else ""
    byname = {}  # local variable name -> value (outputs of the group's components, then the group's external inputs)
    for comp in G.leaves:
        if isinstance(comp, om.IndepVarComp):
            for n in comp._var_rel_names["output"]:
                byname.setdefault(n, G.vals[comp.pathname + "." + n])
    ext_by_local = {}
    for abs_in, src in G.conn.items():
        if abs_in.startswith(pre) and (src.startswith("_auto_ivc") or not src.startswith(pre)) and src in G.vals:
            ext_by_local.setdefault(abs_in.rsplit(".", 1)[-1], G.vals[src])
    specs = []
    for comp in G.leaves:
        if isinstance(comp, (om.IndepVarComp, om.ImplicitComponent)) or type(comp).__module__.startswith("openmdao"):
            # implicit states are shared symbols; OpenMDAO's own components are taken as wired
            for n in comp._var_rel_names["output"]:
                if comp.pathname + "." + n in G.vals:
                    byname[n] = G.vals[comp.pathname + "." + n]
            continue
        sc = G._wrap(comp)
        ins = {}
        ok = True
        for n in sc.in_names:
            abs_in = comp.pathname + "." + n
            if n in skip_inputs:
                v = G.vals.get(G.conn.get(abs_in))
            elif n in byname:
                v = byname[n]
            elif n in ext_by_local:
                v = ext_by_local[n]
            else:
                v = G.vals.get(G.conn.get(abs_in))
            if v is None:
                ok = False
                break
            src = G.conn.get(abs_in)
            a = _conv(np.asarray(v, dtype=object), G.meta_out[src].get("units") if src in G.meta_out else None, G.meta_in[abs_in].get("units")) if src else v
            a = np.asarray(a, dtype=object)
            if a.shape != sc.shape(n):
                if a.size != int(np.prod(sc.shape(n))):
                    ok = False  # src_indices or a deliberately different variable: not a by-name input
                    break
                a = a.reshape(sc.shape(n))
            ins[n] = a
        if not ok:
            for n in sc.out_names:
                byname[n] = G.vals.get(comp.pathname + "." + n, G.abstracted.get(comp.pathname + "." + n))
            continue
        extra_assume = G.assume_for[type(comp).__name__](ins) if type(comp).__name__ in G.assume_for else []
        out = sc.sym1(ins, assumptions=extra_assume)
        for n in sc.out_names:
            absn = comp.pathname + "." + n
            real = G.abstracted.get(absn, G.vals.get(absn, G.computed_for_guess.get(absn)))
            if real is None:
                continue
            specs.append(("%s%s.%s" % (label, comp.pathname[len(pre):], n), real, out[n], comp.pathname, n))
            # downstream by-name consumers see what the real run publishes under that name (each component is judged on
            # its own inputs; one broken link is reported once, not propagated)
            byname[n] = G.vals.get(absn, out[n])
    return specs, G
