"""Symbolic propagation through a chain of real components that share one promoted namespace
(what `promotes=['*']` groups such as VLMStates do), including OpenMDAO's unit conversion between
a source and an input declared in different units."""
from __future__ import annotations

import numpy as np

from .model import SymComp
from .sym import S, symarray, symify


def _conv(arr, src_units, dst_units):
    if src_units is None or dst_units is None or src_units == dst_units:
        return arr
    from openmdao.utils.units import unit_conversion

    factor, offset = unit_conversion(src_units, dst_units)
    out = np.asarray(arr, dtype=object)
    if offset:
        out = out + S(float(offset))
    if factor != 1.0:
        out = out * S(float(factor))
    return out


class Pipe:
    def __init__(self, comps):
        self.comps = comps

    def encode(self, rep):
        for c in self.comps:
            rep.encode(type((c[0] if isinstance(c, tuple) else c).comp))

    def run(self, given, units=None, assumptions=(), prefix=""):
        """given: name -> array (symbolic or numeric). Missing inputs become fresh symbols `<prefix><name>[..]`.
        Returns the namespace (name -> object array) and the dict of free inputs that were created."""
        ns = {k: np.asarray(v, dtype=object) for k, v in given.items()}
        un = dict(units or {})
        free = {}
        for item in self.comps:
            sc, pre = item if isinstance(item, tuple) else (item, "")
            meta = sc.comp._var_rel2meta
            ins = {}
            for n0 in sc.in_names:
                n = pre + n0
                if n not in ns:
                    ns[n] = symarray(prefix + n, sc.shape(n0))
                    un[n] = meta[n0].get("units")
                    free[n] = ns[n]
                a = _conv(ns[n], un.get(n), meta[n0].get("units"))
                a = np.asarray(a, dtype=object)
                if a.shape != sc.shape(n0):
                    a = a.reshape(sc.shape(n0)) if a.size == int(np.prod(sc.shape(n0))) else np.broadcast_to(a, sc.shape(n0)).copy()
                ins[n0] = a
            out = sc.sym1(ins, assumptions=assumptions)
            for n0 in sc.out_names:
                ns[pre + n0] = out[n0]
                un[pre + n0] = meta[n0].get("units")
        return ns, free


def vlm_states(surfaces, stub_kernels=True, rotational=False, upto=None):
    """The component sequence of VLMStates (without the linear solve: circulations are an input)."""
    from .kernels import EVAL_MTX_STUBS

    extra = EVAL_MTX_STUBS if stub_kernels else None
    A = "aerodynamics."
    n = sum((s["mesh"].shape[0] - 1) * (s["mesh"].shape[1] - 1) for s in surfaces)
    comps = [
        SymComp(A + "collocation_points", "CollocationPoints", surfaces=surfaces),
        SymComp(A + "vortex_mesh", "VortexMesh", surfaces=surfaces),
        SymComp(A + "get_vectors", "GetVectors", surfaces=surfaces, num_eval_points=n, eval_name="coll_pts"),
        SymComp(A + "eval_mtx", "EvalVelMtx", extra=extra, surfaces=surfaces, num_eval_points=n, eval_name="coll_pts"),
    ]
    if rotational:
        comps.append(SymComp(A + "rotational_velocity", "RotationalVelocity", surfaces=surfaces))
    comps.append(SymComp(A + "convert_velocity", "ConvertVelocity", surfaces=surfaces, rotational=rotational))
    comps += [(SymComp(A + "geometry", "VLMGeometry", surface=s), s["name"] + "_") for s in surfaces]
    comps.append(SymComp(A + "mtx_rhs", "VLMMtxRHSComp", surfaces=surfaces))
    if upto == "mtx":
        return Pipe(comps)
    comps += [
        SymComp(A + "horseshoe_circulations", "HorseshoeCirculations", surfaces=surfaces),
        SymComp(A + "get_vectors", "GetVectors", surfaces=surfaces, num_eval_points=n, eval_name="force_pts"),
        SymComp(A + "eval_mtx", "EvalVelMtx", extra=extra, surfaces=surfaces, num_eval_points=n, eval_name="force_pts"),
        SymComp(A + "eval_velocities", "EvalVelocities", surfaces=surfaces, num_eval_points=n, eval_name="force_pts"),
        SymComp(A + "panel_forces", "PanelForces", surfaces=surfaces),
        SymComp(A + "panel_forces_surf", "PanelForcesSurf", surfaces=surfaces),
    ]
    return Pipe(comps)
