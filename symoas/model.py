"""Helpers for identity-type properties: run real components symbolically / numerically and compare."""
from __future__ import annotations

import importlib
import json
import time
import warnings

import numpy as np

from . import execute, lower, oblig, partials
from .harness import CompRunner, VecStore
from .npproxy import symbolic_numpy
from .sym import S, Sym, bool_syms, evalb, evalf, symarray, symify, variables


def make(modname, cls, **kw):
    m = importlib.import_module("openaerostruct." + modname)
    return getattr(m, cls)(**kw)


class SymComp:
    """A set-up real component that can be evaluated symbolically (all paths) or numerically (real OpenMDAO run)."""

    def __init__(self, modname, cls, extra=None, **kw):
        self.modname, self.cls, self.kw, self.extra = modname, cls, kw, extra
        self.runner = CompRunner(make(modname, cls, **kw), prerun=False)
        self.comp = self.runner.comp

    @classmethod
    def from_instance(cls, comp, prob, extra=None):
        """wrap a component that already lives in a set-up Problem (e.g. a subsystem of a real group): options and
        attributes are exactly what the group's own setup() gave it"""
        self = cls.__new__(cls)
        self.modname, self.cls, self.kw, self.extra = type(comp).__module__.replace("openaerostruct.", ""), type(comp).__name__, None, extra
        self.runner = CompRunner(comp, prob=prob, prerun=False)
        self.comp = comp
        return self

    @property
    def in_names(self):
        return self.runner.in_names

    @property
    def out_names(self):
        return self.runner.out_names

    def shape(self, n):
        return self.runner.shapes[n]

    def inputs(self, prefix="", overrides=None):
        """fresh symbolic inputs, variables named <prefix><input>[idx]"""
        arrs = {}
        overrides = overrides or {}
        for n in self.in_names:
            if n in overrides:
                a = np.asarray(overrides[n], dtype=object)
                if a.shape != self.shape(n):
                    a = np.broadcast_to(a, self.shape(n)).copy() if a.size != self.runner.size(n) else a.reshape(self.shape(n))
                arrs[n] = symify(a)
            else:
                arrs[n] = symarray(prefix + n, self.shape(n))
        return arrs

    def sym(self, inputs, assumptions=(), max_paths=64):
        """-> list of Path; path.result['outputs'][name] object arrays"""
        full = {}
        for n in self.in_names:
            a = inputs[n]
            a = symify(np.broadcast_to(np.asarray(a, dtype=object), self.shape(n)).copy() if np.shape(a) != self.shape(n) and np.size(a) != self.runner.size(n) else np.asarray(a, dtype=object).reshape(self.shape(n)))
            full[n] = a
        return self.runner.run(full, assumptions=assumptions, do_partials=False, arbitrary_state=False,
                               max_paths=max_paths, extra=self.extra)

    def sym1(self, inputs, assumptions=()):
        """outputs as one expression per entry; when the code forks on the data, the paths (which partition the admissible
        inputs) are merged into nested if-then-else terms over the path conditions, so callers stay path-agnostic"""
        from .sym import band, ite

        paths = self.sym(inputs, assumptions)
        if len(paths) == 1:
            return paths[0].result["outputs"]
        if not paths:
            raise RuntimeError("%s: no feasible path" % self.cls)
        self.merged_paths = getattr(self, "merged_paths", 0) + len(paths)
        out = {}
        for n in paths[0].result["outputs"]:
            acc = np.asarray(paths[-1].result["outputs"][n], dtype=object)
            for p in reversed(paths[:-1]):
                c = band(*p.conds)
                v = np.asarray(p.result["outputs"][n], dtype=object)
                merged = np.empty(acc.shape, dtype=object)
                for idx in (np.ndindex(*acc.shape) if acc.shape else [()]):
                    merged[idx] = ite(c, S(v[idx]), S(acc[idx]))
                acc = merged
            out[n] = acc
        return out

    def real(self, vals):
        """Fresh real problem (real numpy, real OpenMDAO) at numeric inputs -> outputs dict."""
        r = CompRunner(make(self.modname, self.cls, **self.kw), prerun=False)
        prob = r.prob
        with warnings.catch_warnings(), np.errstate(all="ignore"):
            warnings.simplefilter("ignore")
            for n in r.in_names:
                prob.set_val(r.path + "." + n, np.asarray(vals[n], dtype=float).reshape(r.shapes[n]))
            prob.run_model()
            return {n: np.array(prob.get_val(r.path + "." + n), dtype=float).reshape(r.shapes[n]) for n in r.out_names}


class FillEnv(dict):
    """env that invents a deterministic value in (0.5, 1.5) for variables the witness does not mention
    (they do not occur in the obligation, so any value will do)."""

    def __missing__(self, k):
        import hashlib

        h = int.from_bytes(hashlib.blake2b(k.encode(), digest_size=4).digest(), "big")
        v = 0.5 + (h % 100000) / 100000.0
        self[k] = v
        return v


def num_inputs(arrs, env):
    """evaluate symbolic input arrays at env -> float arrays (env is completed in place for unmentioned inputs)"""
    if not isinstance(env, FillEnv):
        fe = FillEnv(env)
    else:
        fe = env
    out = {}
    for n, a in arrs.items():
        a = np.asarray(a, dtype=object)
        flat = [S(x) for x in a.ravel()]
        val = evalf(flat, fe)
        out[n] = np.array([val[x.nid] for x in flat], dtype=float).reshape(a.shape)
    if fe is not env:
        for k, v in fe.items():
            env.setdefault(k, v)
    return out


def idents(prefix, lhs, rhs, assume=(), meta=None, names=None):
    """Element-wise IDENT obligations between two arrays (or scalars)."""
    la = np.asarray(lhs, dtype=object)
    ra = np.asarray(rhs, dtype=object)
    if la.shape != ra.shape:
        ra = np.broadcast_to(ra, la.shape)
    obs = []
    for idx in np.ndindex(*la.shape) if la.shape else [()]:
        m = dict(meta or {})
        m["idx"] = list(idx)
        obs.append(oblig.Ob("%s%s" % (prefix, list(idx) if idx != () else ""), lhs=S(la[idx]), rhs=S(ra[idx]),
                            assume=assume, meta=m))
    return obs


def free_vars_env(obs, rng, lo=0.5, hi=1.5, fixed=None):
    """A pseudo-random admissible-looking point for all variables of the obligations."""
    env = dict(fixed or {})
    roots = []
    for o in obs:
        roots += o.roots()
        for a in o.assume:
            roots += bool_syms(a)
    for v in variables(roots):
        n = v.args[0]
        if n not in env and n not in ("PI", "LN10", "LN2"):
            env[n] = lo + (hi - lo) * rng.random()
    return env


def fixed_variants(fixed):
    """`fixed` pins variables for the witness search; a tuple/list value gives alternatives (e.g. alpha: (4.0, -4.0)) that
    are tried one at a time on top of the first ones - a difference that only shows for a negative angle must not be lost
    because the search was pinned to a positive one."""
    fixed = fixed or {}
    base = {k: (v[0] if isinstance(v, (tuple, list)) else v) for k, v in fixed.items()}
    out = [base]
    for k, v in fixed.items():
        if isinstance(v, (tuple, list)):
            for alt in v[1:]:
                out.append(dict(base, **{k: alt}))
    return out


def witness(ob, rng, tries=40, box=(0.5, 1.5), fixed=None, nominal=None):
    for fx in fixed_variants(fixed):
        env = _witness(ob, rng, tries=tries, box=box, fixed=fx, nominal=nominal)
        if env is not None:
            return env
    return None


def _witness(ob, rng, tries=40, box=(0.5, 1.5), fixed=None, nominal=None):
    """Find a concrete point where the obligation's two sides differ numerically and the assumptions hold:
    first the solver's own model, then pseudo-random points (the solver's sat verdict established existence;
    this only selects a well-conditioned witness for replay)."""
    if ob.level == "poison":  # nothing to evaluate symbolically: any admissible-looking point will do for the replay
        e = FillEnv({k: v for k, v in (nominal or {}).items()})
        e.update(free_vars_env([o_ for o_ in [ob] if False], rng))
        e.update(fixed or {})
        return e
    cands = []
    menv = oblig.model_env(ob)
    if nominal:
        # sane nominal configuration (e.g. a real wing mesh), jittered so that special positions do not hide a difference
        for t in range(6):
            e = FillEnv({k: (v + (0.0 if t == 0 else 0.05 * (rng.random() - 0.5))) for k, v in nominal.items()})
            e.update(fixed or {})
            cands.append(e)
    if menv:
        base = free_vars_env([ob], rng, *box, fixed=fixed)
        base.update(menv)
        cands.append(base)
    for _ in range(tries):
        cands.append(free_vars_env([ob], rng, *box, fixed=fixed))
    for env in cands:
        try:
            roots = ob.roots() + [s for a in ob.assume for s in bool_syms(a)]
            val = evalf(roots, env)
            if not all(evalb(a, val) for a in ob.assume):
                continue
            if ob.cond is not None:
                if evalb(ob.cond, val):
                    return env
                continue
            l, r = val[ob.lhs.nid], val[ob.rhs.nid]
            if l == l and r == r and abs(l - r) > 1e-7 * max(1.0, abs(l), abs(r)):
                return env
        except (KeyError, ZeroDivisionError, OverflowError, ValueError):
            continue
    return None


def run_obligations(rep, group, obs, timeout, replay=None, family=None, lw=None, levels=(1, 2), info=None,
                    max_replays=2, box=(0.5, 1.5), fixed=None, cut_threshold=6, relate=None, relate_assume=(), nominal=None):
    """Discharge, record, replay candidates.  replay(ob, env) -> (reproduced: bool|None, what: str).
    relate: list of positive scale symbols rho; sqrt-atom relation lemmas n' = rho n are proved first and
    used as hypotheses (the lemmas are solver obligations of the same run)."""
    t0 = time.time()
    info = dict(info or {})
    fixed_all, fixed = fixed, fixed_variants(fixed)[0]
    if relate is not None:
        lem = oblig.relate_sqrt_atoms(obs, rhos=relate, assume=relate_assume, timeout=timeout, hint_env=fixed)
        info["sqrt_relation_lemmas_proved"] = len(lem)
        for o in obs:
            if o.cond is None:
                o.assume = list(o.assume) + lem
    oblig.discharge(obs, lw=lw, timeout=timeout, levels=levels, cut_threshold=cut_threshold)
    concolic_pass(rep, group, obs, timeout, nominal=nominal, fixed=fixed, box=box)
    vacuity_guard(rep, group, obs, timeout)
    rep.add_obs(group, obs)
    s = oblig.summarize(obs)
    g = {"case": group}
    g.update(info or {})
    g.update({k: s[k] for k in ("obligations", "discharged", "candidate", "inconclusive", "nontrivial")})
    rep.groups.append(g)
    rng = np.random.default_rng(2024)
    tried = {}
    for o in obs:
        if o.verdict != "candidate":
            continue
        fam = family(o) if family else "%s: %s" % (group, o.meta.get("family", o.id))
        if tried.get(fam, 0) >= max_replays:
            continue
        tried[fam] = tried.get(fam, 0) + 1
        env = witness(o, rng, box=box, fixed=fixed_all, nominal=nominal)
        if env is None:
            rep.not_reproduced.append({"id": o.id, "why": "no numeric witness found for the solver's sat answer"})
            continue
        if replay is None:
            # an obligation without variables is a statement about numbers the real code produced in this very run: the
            # solver's `sat` is then an arithmetic fact about the real output, re-evaluated here on floats
            roots_ = o.roots() + [s_ for a_ in o.assume for s_ in bool_syms(a_)]
            if not [v_ for v_ in variables(roots_) if v_.args[0] not in ("PI", "LN10", "LN2")]:
                try:
                    val_ = evalf(roots_, {})
                    if o.cond is not None:
                        bad_, what_ = bool(evalb(o.cond, val_)), "ground clause violated by the real output: %s" % o.id
                    else:
                        l_, r_ = val_[o.lhs.nid], val_[o.rhs.nid]
                        bad_, what_ = differs(l_, r_, 1e-9), "real output gives %.12g, required %.12g (%s)" % (l_, r_, o.id)
                except Exception as e_:
                    bad_, what_ = None, "ground re-evaluation failed: %r" % (e_,)
                if bad_:
                    rep.violation(fam, what_, {"group": group, "ob": o.id, "meta": _js(o.meta), "env": {}, "what": what_, "ground": True})
                else:
                    rep.not_reproduced.append({"id": o.id, "why": what_})
                continue
            rep.not_reproduced.append({"id": o.id, "why": "no replay available"})
            continue
        try:
            bad, what = replay(o, env)
        except Exception as e:
            bad, what = None, "replay crashed: %r" % (e,)
        if bad:
            rep.violation(fam, what, {"group": group, "ob": o.id, "meta": _js(o.meta), "env": env, "what": what})
        else:
            rep.not_reproduced.append({"id": o.id, "why": what, "decided_by": str(o.level)})
    rep.log("%-52s obl=%d nontriv=%d disch=%d cand=%d inconc=%d  %.1fs" % (
        group, s["obligations"], s["nontrivial"], s["discharged"], s["candidate"], s["inconclusive"], time.time() - t0))
    return s


def concolic_pass(rep, group, obs, timeout, nominal=None, fixed=None, box=(0.5, 1.5), free=2, limit=16):
    """Bug-finding fallback for obligations the solver left undecided over the full domain: the same query restricted to
    a plane through a nominal point (all variables but `free` of them pinned to nominal values).  `sat` there is a
    genuine counter-model of the full query (a candidate, replayed as usual); `unsat` there proves nothing and the
    obligation stays inconclusive.  Never turns anything into `discharged`."""
    from fractions import Fraction

    from .sym import const, eq, var

    inc = [o for o in obs if o.verdict == "inconclusive" and not o.trivial][:limit]
    if not inc:
        return
    rng = np.random.default_rng(99)
    jobs = []
    for o in inc:
        roots = o.roots() + [s for a in o.assume for s in bool_syms(a)]
        names = sorted(v.args[0] for v in variables(roots) if v.args[0] not in ("PI", "LN10", "LN2"))
        if not names:
            continue
        for t in range(2):
            env = FillEnv({k: v + (0.0 if t == 0 else 0.05 * (rng.random() - 0.5)) for k, v in (nominal or {}).items()})
            for k in names:
                if k not in env:
                    env[k] = box[0] + (box[1] - box[0]) * rng.random()
            env.update(fixed or {})
            keep = set(rng.choice(names, size=min(free, len(names)), replace=False).tolist())
            pins = [eq(var(k), const(Fraction(float(env[k])).limit_denominator(10**6))) for k in names if k not in keep]
            ob2 = oblig.Ob(o.id + " @plane%d" % t, lhs=o.lhs, rhs=o.rhs, cond=o.cond, assume=list(o.assume) + pins, meta={})
            jobs.append((o, ob2))
    if not jobs:
        return
    oblig.discharge([j[1] for j in jobs], timeout=min(timeout, 10.0), levels=(2,), cut_threshold=0, keep_text=0)
    hits = 0
    for o, ob2 in jobs:
        if ob2.verdict == "candidate" and o.verdict == "inconclusive":
            o.verdict, o.level, o.model = "candidate", "concolic/2", ob2.model
            o.detail = "sat on a plane through a nominal point"
            hits += 1
    # still undecided (even on the planes): a concrete point at which the negated obligation evaluates to true is a checked
    # model of the query - enough for a *candidate* (replayed on the real code like every other), never for a discharge
    rng2 = np.random.default_rng(7)
    for o in inc:
        if o.verdict != "inconclusive":
            continue
        for fx in fixed_variants(fixed):
            env = _witness(o, rng2, tries=12, box=box, fixed=fx, nominal=nominal)
            if env is not None:
                o.verdict, o.level = "candidate", "evaluated-model"
                o.model = {k: repr(float(v)) for k, v in env.items() if isinstance(v, (int, float))}
                o.detail = "the negated obligation evaluates to true at a concrete admissible point (the solver timed out)"
                hits += 1
                break
    if hits:
        rep.extra.setdefault("concolic_candidates", []).append({"group": group, "count": hits})


def vacuity_guard(rep, group, obs, timeout):
    """Reachability twin (DESIGN 2.11): the assumptions (+ path condition, injected lemmas, domain) of the most
    constrained obligation of the group must be satisfiable, i.e. the twin with goal `true` must come back sat.
    An unsat twin means every obligation of the group was discharged vacuously: harness error."""
    from . import lower as L
    from . import solve

    cands = [o for o in obs if o.assume and not o.trivial]
    if not cands:
        return
    o = max(cands, key=lambda x: len(x.assume))
    lw = L.Lowerer()
    try:
        text, _ = L.build_query(lw, "true", (), o.roots(), list(o.assume), level=2)
    except Exception:
        return
    r = solve.pool().run([(text, min(timeout, 10.0), "z3", False)])[0]
    rep.twins["expected_sat"] += 1
    if r["result"] == "sat":
        rep.twins["got_sat"] += 1
    elif r["result"] == "unsat":
        rep.errors.append("vacuous assumptions in group %r (obligation %s): the reachability twin is unsat" % (group, o.id))
    else:
        rep.extra.setdefault("twins_undecided", []).append(group)


def _js(m):
    out = {}
    for k, v in m.items():
        try:
            json.dumps(v)
            out[k] = v
        except TypeError:
            out[k] = repr(v)[:80]
    return out


def differs(a, b, tol=1e-7):
    a, b = float(a), float(b)
    fa, fb = a == a and abs(a) != float("inf"), b == b and abs(b) != float("inf")
    if not fa and not fb:
        # both sides non-finite: the replay point is degenerate (coincident surfaces, say) - never a silent "agree"
        raise ValueError("replay point degenerate: both values non-finite (%r, %r)" % (a, b))
    if fa != fb:
        return True
    return abs(a - b) > tol * max(1.0, abs(a), abs(b)) + 1e-10
