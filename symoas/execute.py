"""Path exploration for data-dependent control flow (DESIGN.md 2.6).

`explore(fn, assumptions)` runs `fn()` repeatedly; whenever a symbolic condition is
used as a Python bool, the in-process solver is asked which sides are feasible under
the assumptions and the path condition so far; with both feasible the run forks
(depth-first re-execution with a recorded decision prefix).
"""
from __future__ import annotations

import time

from .sym import SymBool, bnot, bool_syms
from . import lower as _lower

MAX_PATHS = 256


class ForkBudgetExceeded(RuntimeError):
    pass


class _Ctx:
    def __init__(self):
        self.active = False
        self.prefix = []
        self.decisions = []  # (SymBool, bool, forced)
        self.assumptions = []
        self.pending = []
        self.feas_queries = 0
        self.feas_time = 0.0
        self.feas_unknown = 0
        self.timeout_ms = 3000


CTX = _Ctx()


def _feasible(conds):
    """sat/unknown -> True; unsat -> False. Free atoms (over-approximation: may keep an infeasible path)."""
    import z3

    lw = _lower.Lowerer()
    forms = []
    deps = []
    roots = []
    for c in conds:
        f, dp = lw.cond(c)
        forms.append(f)
        deps += list(dp)
        roots += bool_syms(c)
    cons, cdeps, _ = lw.constraints_for(roots, level=2)
    text, _ = lw.emit(forms + cons, deps + list(cdeps))
    t0 = time.time()
    s = z3.Solver()
    s.set("timeout", CTX.timeout_ms)
    s.from_string(text)
    r = str(s.check())
    CTX.feas_queries += 1
    CTX.feas_time += time.time() - t0
    if r == "unknown":
        CTX.feas_unknown += 1
    return r != "unsat"


def decide(c: SymBool) -> bool:
    if not CTX.active:
        raise RuntimeError("symbolic condition used as bool outside explore(): %r" % (c,))
    i = len(CTX.decisions)
    if i < len(CTX.prefix):
        v, forced = CTX.prefix[i]
        CTX.decisions.append((c, v, forced))
        return v
    base = list(CTX.assumptions) + [(d if v else bnot(d)) for d, v, _ in CTX.decisions]
    # cheap syntactic check: same condition decided before on this path
    for d, v, _ in CTX.decisions:
        if d.key() == c.key():
            CTX.decisions.append((c, v, True))
            CTX.prefix.append((v, True))
            return v
    ft = _feasible(base + [c])
    ff = _feasible(base + [bnot(c)])
    if ft and ff:
        CTX.pending.append(list(CTX.prefix) + [(False, False)])
        v, forced = True, False
    elif ft:
        v, forced = True, True
    elif ff:
        v, forced = False, True
    else:
        raise InfeasiblePath()
    CTX.decisions.append((c, v, forced))
    CTX.prefix.append((v, forced))
    return v


class InfeasiblePath(Exception):
    pass


class Path:
    def __init__(self, result, decisions):
        self.result = result
        self.decisions = decisions

    @property
    def conds(self):
        """path condition: list of SymBool that hold on this path (forced ones are implied, omitted)."""
        return [(d if v else bnot(d)) for d, v, forced in self.decisions if not forced]

    def label(self):
        return "".join("T" if v else "F" for _, v, f in self.decisions if not f) or "-"


def explore(fn, assumptions=(), max_paths=MAX_PATHS):
    if CTX.active:
        raise RuntimeError("nested explore")
    paths = []
    CTX.pending = [[]]
    CTX.assumptions = list(assumptions)
    try:
        while CTX.pending:
            if len(paths) >= max_paths:
                raise ForkBudgetExceeded("more than %d paths" % max_paths)
            CTX.prefix = CTX.pending.pop()
            CTX.decisions = []
            CTX.active = True
            try:
                res = fn()
            except InfeasiblePath:
                continue
            finally:
                CTX.active = False
            paths.append(Path(res, list(CTX.decisions)))
    finally:
        CTX.active = False
        CTX.pending = []
        CTX.assumptions = []
    return paths
