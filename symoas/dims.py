"""Dimensional analysis of a symbolic execution: every leaf variable carries the physical dimension of the units it is
*declared* in; sums and differences of two quantities of known, different dimension are reported.

This is a static pass over the Sym DAG produced by running the real code on symbolic inputs.  It is deliberately
conservative (it must never flag correct code):

* numeric constants are pure numbers when they are "simple" (small integers, simple fractions, pi) and of *unknown*
  dimension otherwise (material constants, empirical coefficients, unit-conversion factors live in them) - anything
  multiplied by an unknown is unknown, and unknowns never conflict;
* in a sum a constant takes the dimension of the other operand;
* variables that hold mixed content by design (forces and moments, displacements and rotations in one array) are unknown;
* angles are dimensionless.

A conflict is only a *candidate*: it is confirmed on the real component (the same physical quantity given in two units must
give the same outputs) before it is reported.
"""
from __future__ import annotations

from fractions import Fraction

from .sym import Sym, reachable

UNKNOWN = None
MIXED_BY_DESIGN = ("loads", "disp", "disp_aug", "forces", "def_disp")


def unit_dim(units):
    """dimension vector (tuple over OpenMDAO's base units, angles dropped) of a units string; None for unknown"""
    if units is None:
        return ()
    from openmdao.utils.units import _find_unit

    try:
        u = _find_unit(units)
    except Exception:
        return UNKNOWN
    if u is None:
        return UNKNOWN
    from openmdao.utils import units as _U

    names = list(getattr(_U._UNIT_LIB, "base_names", []) or [])
    pw = list(u._powers)
    if names and len(names) == len(pw):
        pw = [p for n_, p in zip(names, pw) if n_ not in ("rad", "sr", "unitless")]
    t = tuple(pw)
    return () if not any(t) else t


def _norm(d):
    return () if (d is not None and not any(d)) else d


def _addv(a, b, k=1):
    if a is UNKNOWN or b is UNKNOWN:
        return UNKNOWN
    n = max(len(a), len(b))
    a = tuple(a) + (0,) * (n - len(a))
    b = tuple(b) + (0,) * (n - len(b))
    return _norm(tuple(x + k * y for x, y in zip(a, b)))


def _scale(a, k):
    if a is UNKNOWN:
        return UNKNOWN
    out = tuple(Fraction(x) * k for x in a)
    return _norm(tuple(int(x) if Fraction(x).denominator == 1 else x for x in out))


def _same(a, b):
    n = max(len(a), len(b))
    return tuple(a) + (0,) * (n - len(a)) == tuple(b) + (0,) * (n - len(b))


def _simple_number(v):
    try:
        f = Fraction(v).limit_denominator(10**9)
    except Exception:
        return False
    if f != Fraction(v):
        try:
            if abs(float(f) - float(v)) > 0:
                return False
        except Exception:
            return False
    return abs(f.numerator) <= 100 and f.denominator <= 100


def base_name(symbol_name):
    return symbol_name.split("[", 1)[0]


def infer(roots, var_dims):
    """-> (dims by node id, conflicts).  var_dims: base variable name -> dimension tuple / None (unknown).  A constant has
    the pseudo-dimension "num" (pure number) or UNKNOWN."""
    NUM = "num"
    dim = {}
    conflicts = []

    def real(d):  # dimension used in products: a pure number is dimensionless
        return () if d == NUM else d

    for n in reachable([r for r in roots if isinstance(r, Sym)]):
        op = n.op
        if op == "const":
            d = NUM if _simple_number(n.args[0]) else UNKNOWN
        elif op == "var":
            name = n.args[0]
            if name in ("PI",):
                d = NUM
            elif name in ("LN10", "LN2"):
                d = NUM
            else:
                b = base_name(name)
                short = b.rsplit(".", 1)[-1]
                if short in MIXED_BY_DESIGN or short.endswith("_loads") or b not in var_dims:
                    d = UNKNOWN
                else:
                    d = var_dims[b]
        elif op == "add":
            a, b = dim[n.args[0].nid], dim[n.args[1].nid]
            if a == NUM and b == NUM:
                d = NUM
            elif a == NUM:
                d = b
            elif b == NUM:
                d = a
            elif a is UNKNOWN or b is UNKNOWN:
                d = UNKNOWN
            elif _same(a, b):
                d = a
            else:
                conflicts.append((n, n.args[0], n.args[1], a, b))
                d = UNKNOWN
        elif op == "mul":
            a, b = dim[n.args[0].nid], dim[n.args[1].nid]
            d = NUM if (a == NUM and b == NUM) else _addv(real(a), real(b))
        elif op == "div":
            a, b = dim[n.args[0].nid], dim[n.args[1].nid]
            d = NUM if (a == NUM and b == NUM) else _addv(real(a), real(b), -1)
        elif op in ("neg", "abs", "re"):
            d = dim[n.args[0].nid]
        elif op == "sqrt":
            a = dim[n.args[0].nid]
            d = NUM if a == NUM else _scale(a, Fraction(1, 2))
        elif op == "pow":
            a = dim[n.args[0].nid]
            try:
                k = Fraction(n.args[1]).limit_denominator(1000)
            except Exception:
                k = None
            d = NUM if a == NUM else (UNKNOWN if k is None else _scale(a, k))
        elif op in ("sin", "cos", "atan", "exp", "log"):
            d = () if dim[n.args[0].nid] is not UNKNOWN or op in ("sin", "cos", "atan") else UNKNOWN
        elif op == "ite":
            a, b = dim[n.args[1].nid], dim[n.args[2].nid]
            if a == NUM:
                d = b
            elif b == NUM:
                d = a
            elif a is UNKNOWN or b is UNKNOWN or not _same(a, b):
                d = UNKNOWN
            else:
                d = a
        else:  # ufn, poison, anything new
            d = UNKNOWN
        dim[n.nid] = d
    return dim, conflicts


def leaves_of(node, limit=6):
    from .sym import variables

    out = []
    for v in variables([node]):
        b = base_name(v.args[0])
        if b not in out and b not in ("PI", "LN10", "LN2"):
            out.append(b)
        if len(out) >= limit:
            break
    return out
