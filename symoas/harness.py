"""Run a real OpenMDAO component's methods on symbolic stores (DESIGN.md 2.2, 2.3).

The component instance is the real one, taken out of a real `om.Problem` after
setup()/final_setup() (run concretely), so option values, `self.*` attributes and the
declared-partials metadata are exactly what the framework would use.
"""
from __future__ import annotations

import ast
import inspect
import textwrap
import warnings

import numpy as np
import scipy.sparse as sp

from . import execute
from .npproxy import SymMatrix, symbolic_numpy, to_symmatrix
from .sym import S, Sym, ZERO, symarray, symify, var


def assert_repo_import():
    import openaerostruct

    import os

    f = openaerostruct.__file__
    root = os.environ.get("OAS_REPO", "/repo").rstrip("/") + "/"
    if not f.startswith(root):
        raise SystemExit("HARNESS-ERROR: openaerostruct imported from %s, not %s" % (f, root))


# ---------------------------------------------------------------------------------- stores
class VecStore:
    """Dict-like stand-in for OpenMDAO input/output/residual vectors."""

    def __init__(self, arrays):
        self.a = dict(arrays)

    def __getitem__(self, k):
        return self.a[k]

    def __setitem__(self, k, v):
        tgt = self.a[k]
        v = np.asarray(v, dtype=object)
        if v.shape != tgt.shape and v.size == tgt.size:
            v = v.reshape(tgt.shape)
        tgt[...] = v

    def __contains__(self, k):
        return k in self.a

    def __iter__(self):
        return iter(self.a)

    def keys(self):
        return self.a.keys()

    def items(self):
        return self.a.items()

    def values(self):
        return self.a.values()

    def __len__(self):
        return len(self.a)

    def set_val(self, val):
        for k in self.a:
            self.a[k][...] = val


class JacStore:
    """Stand-in for the component Jacobian: (of, wrt) -> storage array (flat for sparse subjacs)."""

    def __init__(self, info, arrays):
        self.info = info
        self.a = arrays

    def __getitem__(self, key):
        key = tuple(key)
        if key not in self.a:
            raise KeyError("Variable name pair %r must first be declared." % (key,))
        return self.a[key]

    def __setitem__(self, key, val):
        key = tuple(key)
        if key not in self.a:
            raise KeyError("Variable name pair %r must first be declared." % (key,))
        tgt = self.a[key]
        if isinstance(val, SymMatrix) or sp.issparse(val):
            val = val.toarray()
        if np.isscalar(val) or isinstance(val, Sym):
            tgt[...] = val
            return
        val = np.asarray(val, dtype=object)
        if self.info[key]["rows"] is not None:
            tgt[:] = val  # same broadcasting rule as OpenMDAO's COO subjac
        else:
            try:
                tgt[:] = np.atleast_2d(val).reshape(tgt.shape)
            except ValueError:
                if val.size == 1:
                    tgt[:] = val.item()
                else:
                    raise

    def __contains__(self, key):
        return tuple(key) in self.a

    def keys(self):
        return self.a.keys()


# ---------------------------------------------------------------------------------- component wrapper
SETUP_METHODS = {"setup", "initialize", "__init__", "setup_partials", "configure"}
RUN_METHODS = {"compute", "compute_partials", "apply_nonlinear", "solve_nonlinear", "linearize", "solve_linear",
               "compute_jacvec_product", "apply_linear"}


def mutable_attrs(cls):
    """Attributes assigned or mutated outside setup-time methods (derived from the current source)."""
    out = set()
    for klass in cls.__mro__:
        if klass.__module__.startswith("openmdao") or klass is object:
            continue
        try:
            src = textwrap.dedent(inspect.getsource(klass))
        except (OSError, TypeError):
            continue
        tree = ast.parse(src)
        for fn in ast.walk(tree):
            if not isinstance(fn, ast.FunctionDef) or fn.name in SETUP_METHODS:
                continue
            for node in ast.walk(fn):
                targets = []
                if isinstance(node, ast.Assign):
                    targets = node.targets
                elif isinstance(node, (ast.AugAssign, ast.AnnAssign)):
                    targets = [node.target]
                for t in targets:
                    for sub in ast.walk(t):
                        if isinstance(sub, ast.Attribute) and isinstance(sub.value, ast.Name) and sub.value.id == "self":
                            out.add(sub.attr)
    return sorted(out)


class CompRunner:
    """Holds one set-up real component and runs its methods symbolically."""

    def __init__(self, comp, prob=None, name="comp", prerun=True, input_vals=None):
        import openmdao.api as om

        assert_repo_import()
        self.comp = comp
        if prob is None:
            prob = om.Problem(reports=False)
            prob.model.add_subsystem(name, comp)
            with warnings.catch_warnings():
                warnings.simplefilter("ignore")
                prob.setup()
                prob.final_setup()
        self.prob = prob
        self.path = comp.pathname
        self.implicit = isinstance(comp, om.ImplicitComponent)
        meta = comp._var_rel2meta
        self.in_names = list(comp._var_rel_names["input"])
        self.out_names = list(comp._var_rel_names["output"])
        self.shapes = {n: tuple(meta[n]["shape"]) for n in self.in_names + self.out_names}
        self.defaults = {n: np.array(meta[n]["val"], dtype=float).reshape(self.shapes[n]) for n in self.in_names + self.out_names}
        pre = self.path + "." if self.path else ""
        self.jinfo = {}
        for (aof, awrt), m in comp._subjacs_info.items():
            key = (aof[len(pre):], awrt[len(pre):])
            rows = None if m.get("rows") is None else np.asarray(m["rows"], dtype=int)
            cols = None if m.get("cols") is None else np.asarray(m["cols"], dtype=int)
            val = m["val"]
            if sp.issparse(val):
                val = val.toarray()
            if m.get("diagonal"):
                n = self.size(key[0])
                rows = np.arange(n)
                cols = np.arange(n)
            self.jinfo[key] = {"rows": rows, "cols": cols, "shape": tuple(m["shape"]),
                               "val": np.array(val, dtype=float), "dependent": m.get("dependent", True)}
        self.approx_keys = set()
        self.cs_keys = set()  # pairs whose partials OpenMDAO obtains by complex step through compute()
        try:
            for (aof, awrt) in comp._get_approx_subjac_keys():
                self.approx_keys.add((aof[len(pre):], awrt[len(pre):]))
                if comp._subjacs_info.get((aof, awrt), {}).get("method") == "cs":
                    self.cs_keys.add((aof[len(pre):], awrt[len(pre):]))
        except Exception:
            pass
        self.mutable = [a for a in mutable_attrs(type(comp))]
        self.input_vals = input_vals or {}
        if prerun:
            self.concrete_prerun()

    def size(self, n):
        return int(np.prod(self.shapes[n])) if self.shapes[n] else 1

    def concrete_prerun(self):
        with warnings.catch_warnings(), np.errstate(all="ignore"):
            warnings.simplefilter("ignore")
            for n, v in self.input_vals.items():
                self.prob.set_val(self.path + "." + n, v)
            try:
                self.prob.run_model()
                self.prob.model.run_linearize()
            except Exception as e:  # concrete defaults may be singular; attributes created so far are enough
                self.prerun_error = repr(e)

    # -------------------------------------------------------------------------------- symbolic run
    def sym_inputs(self, overrides=None):
        overrides = overrides or {}
        arrs = {}
        for n in self.in_names:
            if n in overrides:
                a = np.asarray(overrides[n], dtype=object)
                if a.shape != self.shapes[n]:
                    a = np.broadcast_to(a, self.shapes[n]).copy() if a.size != self.size(n) else a.reshape(self.shapes[n])
                arrs[n] = symify(a)
            else:
                arrs[n] = symarray(n, self.shapes[n])
        return arrs

    def _pre_state(self, tag):
        """fresh symbols for outputs, Jacobian storage and mutable attributes (arbitrary history)."""
        outs = {n: symarray("g:%s:out:%s" % (tag, n), self.shapes[n]) for n in self.out_names}
        jac = {}
        for key, m in self.jinfo.items():
            shape = (len(m["rows"]),) if m["rows"] is not None else m["shape"]
            jac[key] = symarray("g:%s:jac:%s~%s" % (tag, key[0], key[1]), shape)
        return outs, jac

    def _swap_attrs(self, tag):
        """Replace mutable float-array / float / sparse attributes with symbols; lift sparse constants."""
        saved = {}
        comp = self.comp
        gattrs = {}
        # every mutable attribute gets its original value back after the run, whatever its type (a cache that starts as
        # None and is assigned an array in compute() must be None again for the next run)
        for a in self.mutable:
            if a in vars(comp):
                saved[a] = vars(comp)[a]
        for a, v in list(vars(comp).items()):
            if a.startswith("_") and a not in self.mutable:
                continue
            if sp.issparse(v):
                saved[a] = v
                m = to_symmatrix(v)
                if a in self.mutable:
                    g = symarray("g:%s:attr:%s.data" % (tag, a), m.data.shape)
                    m._data = g
                    gattrs[a] = g
                setattr(comp, a, m)
            elif a in self.mutable:
                if isinstance(v, np.ndarray) and v.dtype.kind in "fc":
                    saved[a] = v
                    g = symarray("g:%s:attr:%s" % (tag, a), v.shape)
                    gattrs[a] = g
                    setattr(comp, a, g)
                elif isinstance(v, (float, np.floating)):
                    saved[a] = v
                    g = var("g:%s:attr:%s" % (tag, a))
                    gattrs[a] = g
                    setattr(comp, a, g)
        return saved, gattrs

    def _restore_attrs(self, saved):
        for a, v in saved.items():
            setattr(self.comp, a, v)
        # attributes created during the symbolic run that now hold Sym data are dropped if they did not exist
        for a in self.mutable:
            if a not in saved and a in vars(self.comp):
                v = getattr(self.comp, a)
                if isinstance(v, Sym) or (isinstance(v, np.ndarray) and v.dtype == object) or isinstance(v, SymMatrix):
                    try:
                        delattr(self.comp, a)
                    except AttributeError:
                        pass

    def run(self, inputs, tag="h", assumptions=(), do_partials=True, max_paths=execute.MAX_PATHS, extra=None,
            arbitrary_state=True, sequence=None, second_linearisation=True):
        """Explore compute (+ compute_partials / apply_nonlinear + linearize). Returns list of Path with
        result = dict(outputs, jac, gattrs, inputs)."""
        comp = self.comp

        def once():
            ins = {k: v.copy() for k, v in inputs.items()}
            outs, jac = self._pre_state(tag)
            if not arbitrary_state:
                outs = {n: np.array(self.defaults[n], dtype=object) for n in self.out_names}
                jac = {k: np.array(m["val"] if m["rows"] is None else np.broadcast_to(m["val"], (len(m["rows"]),)),
                                   dtype=object).copy() for k, m in self.jinfo.items()}
            saved, gattrs = self._swap_attrs(tag) if arbitrary_state else ({}, {})
            if not arbitrary_state:
                saved, _ = self._swap_sparse_only()
            pre_outs = {k: v.copy() for k, v in outs.items()}
            pre_jac = {k: v.copy() for k, v in jac.items()}
            try:
                I = VecStore(ins)
                O = VecStore(outs)
                J = JacStore(self.jinfo, jac)
                res = {}
                if self.implicit:
                    R = VecStore({n: symarray("g:%s:res:%s" % (tag, n), self.shapes[n]) for n in self.out_names})
                    # outputs (states) are independent variables for an implicit component
                    for n in self.out_names:
                        outs[n][...] = symarray(n, self.shapes[n])
                    comp.apply_nonlinear(I, O, R)
                    res["n_compute_decisions"] = len(execute.CTX.decisions)
                    res["residuals"] = {n: symify(R[n]) for n in self.out_names}
                    if do_partials:
                        comp.linearize(I, O, J)
                else:
                    comp.compute(I, O)
                    res["n_compute_decisions"] = len(execute.CTX.decisions)
                    if do_partials and hasattr(comp, "compute_partials"):
                        comp.compute_partials(I, J)
                res["outputs"] = {n: symify(outs[n]) for n in self.out_names}
                res["inputs_after"] = {n: symify(ins[n]) for n in self.in_names}
                res["jac"] = {k: symify(v) for k, v in jac.items()}
                if do_partials and arbitrary_state and second_linearisation:
                    # the framework linearises again at the same point without running the component in between
                    # (compute_totals twice, check_totals after compute_totals): same storage, same inputs
                    if self.implicit:
                        comp.linearize(I, O, J)
                    elif hasattr(comp, "compute_partials"):
                        comp.compute_partials(I, J)
                    res["jac_again"] = {k: symify(v) for k, v in jac.items()}
                res["pre_outs"] = pre_outs
                res["pre_jac"] = pre_jac
                res["gattrs"] = gattrs
                return res
            finally:
                self._restore_attrs(saved)

        from . import npproxy as _npp

        prev = _npp.COMPLEX_STEP_COMPONENT[0]
        _npp.COMPLEX_STEP_COMPONENT[0] = bool(getattr(self, "cs_keys", None))
        try:
            with symbolic_numpy(extra):
                return execute.explore(once, assumptions, max_paths=max_paths)
        finally:
            _npp.COMPLEX_STEP_COMPONENT[0] = prev

    def _swap_sparse_only(self):
        """fresh-problem state: sparse constants lifted, mutable float work arrays become object arrays holding
        their current concrete values (so that symbolic values can be stored into them)"""
        saved = {a: vars(self.comp)[a] for a in self.mutable if a in vars(self.comp)}
        for a, v in list(vars(self.comp).items()):
            if sp.issparse(v):
                saved[a] = v
                setattr(self.comp, a, to_symmatrix(v))
            elif a in self.mutable and isinstance(v, np.ndarray) and v.dtype.kind in "fc":
                saved[a] = v
                setattr(self.comp, a, np.array(v.real, dtype=object))
        return saved, {}

    # -------------------------------------------------------------------------------- dense Jacobian
    def dense_jac(self, key, storage):
        """Dense n_of x n_wrt object matrix from a storage array (duplicates summed)."""
        m = self.jinfo[key]
        n_of, n_wrt = self.size(key[0]), self.size(key[1])
        if m["rows"] is None:
            return np.asarray(storage, dtype=object).reshape(n_of, n_wrt), 0
        d = np.empty((n_of, n_wrt), dtype=object)
        d[...] = ZERO
        seen = set()
        dups = 0
        flat = np.asarray(storage, dtype=object).ravel()
        for k, (r, c) in enumerate(zip(m["rows"], m["cols"])):
            if (r, c) in seen:
                dups += 1
            seen.add((r, c))
            d[r, c] = d[r, c] + S(flat[k])
        return d, dups
