"""Real (numeric) VLM state evaluation through OpenMDAO, used to replay counterexamples."""
import numpy as np


def run_states(surfaces, meshv, alpha, beta, v, rho, omega=None, cg=None, height_agl=None):
    import openmdao.api as om
    from openaerostruct.aerodynamics.geometry import VLMGeometry
    from openaerostruct.aerodynamics.states import VLMStates

    prob = om.Problem(reports=False)
    ivc = om.IndepVarComp()
    ivc.add_output("alpha", val=float(alpha), units="deg")
    ivc.add_output("beta", val=float(beta), units="deg")
    ivc.add_output("v", val=float(v), units="m/s")
    ivc.add_output("rho", val=float(rho), units="kg/m**3")
    rot = omega is not None
    if rot:
        ivc.add_output("omega", val=np.asarray(omega, dtype=float), units="rad/s")
        ivc.add_output("cg", val=np.asarray(cg, dtype=float), units="m")
    if height_agl is not None:
        ivc.add_output("height_agl", val=float(height_agl), units="m")
    for s in surfaces:
        ivc.add_output(s["name"] + "_def_mesh", val=np.asarray(meshv[s["name"]], dtype=float), units="m")
    prob.model.add_subsystem("ivc", ivc, promotes=["*"])
    for s in surfaces:
        prob.model.add_subsystem(s["name"] + "_geom", VLMGeometry(surface=s), promotes_inputs=[("def_mesh", s["name"] + "_def_mesh")],
                                 promotes_outputs=[("normals", s["name"] + "_normals")])
    prob.model.add_subsystem("states", VLMStates(surfaces=surfaces, rotational=rot), promotes=["*"])
    prob.setup()
    prob.run_model()
    return prob
