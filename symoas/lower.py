"""Lowering of Sym DAGs to SMT-LIB2 text over the reals (DESIGN.md 2.5, 2.8).

Every node becomes a (numerator, denominator) pair of polynomial terms over
variables and *atoms* (one fresh real per distinct sqrt/sin/cos/exp/log/pow/atan
node, keyed by the fingerprint of its argument).  A query asserts

    assumptions  and  domain (every divisor != 0)  and  atom side constraints  and  goal

and `unsat` means the goal (the negated property) has no real model.

level 1: atoms constrained by sign only (sqrt >= 0, exp > 0, pow > 0)
level 2: + definitions  sqrt^2 = arg,  sin^2 + cos^2 = 1, instantiated
         monotonicity / tangent facts for exp, log, pow (see `transcendental_axioms`).
"""
from __future__ import annotations

from fractions import Fraction

from .sym import NAMED, Sym, SymBool, bool_syms, reachable


def _q(fr: Fraction) -> str:
    def i(n):
        return "%d.0" % n if n >= 0 else "(- %d.0)" % (-n)

    if fr.denominator == 1:
        return i(fr.numerator)
    return "(/ %s %d.0)" % (i(fr.numerator), fr.denominator)


class Lowerer:
    def __init__(self, cuts=None, divvar=False, sqrt_rewrite=False, trig=None):
        # trig = None: sin/cos are atoms tied by s^2 + c^2 = 1.  trig = mask (int): the k-th distinct trig argument is
        # either parametrised exactly, (cos, sin) = ((1 - t^2) / (1 + t^2), 2 t / (1 + t^2)) with a fresh real t (bit k = 0),
        # or is the one point of the circle that parametrisation misses, (cos, sin) = (-1, 0) (bit k = 1).  An obligation
        # is refuted for all angles iff it is refuted for every mask.
        self.trig = trig
        self.trig_args = {}
        self.cut_signs = {}  # nid of a cut node -> ">" | "<": a sign proved by a separate solver query (oblig.sign_pass)
        self.sqrt_rewrite = sqrt_rewrite  # lower sqrt-atom * same sqrt-atom as its argument (n*n -> a)
        self.sqrt_arg = {}  # sqrt atom symbol -> (N, D) of its argument
        self.divvar = divvar  # True: every quotient is a fresh real q with q*den = num (no cross-multiplication)
        self.cuts = cuts or {}  # nid -> True : nodes abstracted by a fresh real (shared-subterm abstraction)
        self.defs = {}  # name -> (expr, deps tuple)
        self.order = {}  # name -> creation index
        self.by_expr = {}  # expr -> name
        self.node = {}  # nid -> (N, D)
        self.syms = {}  # smt symbol -> kind ('var'|'atom'|'named')
        self.atom_of = {}  # (kind, fp, extra) -> symbol
        self.atom_info = {}  # symbol -> dict(kind, arg=(N,D), node)
        self.node_atoms = {}  # nid -> symbol for atom nodes
        self.merged = []  # (symbol, first node, other node) when two distinct nodes share an atom

    # ------------------------------------------------------------------ term table
    def t(self, expr: str, deps=()) -> str:
        n = self.by_expr.get(expr)
        if n is None:
            n = "t%d" % len(self.defs)
            self.defs[n] = (expr, tuple(d for d in deps if d in self.defs or d in self.syms))
            self.order[n] = len(self.order)
            self.by_expr[expr] = n
        return n

    def _isnum(self, s):
        return not (s.startswith("t") or s.startswith("|"))

    def mulT(self, a, b):
        if a == "1.0":
            return b
        if b == "1.0":
            return a
        if a == "0.0" or b == "0.0":
            return "0.0"
        if a > b:
            a, b = b, a
        return self.t("(* %s %s)" % (a, b), (a, b))

    def addT(self, a, b):
        if a == "0.0":
            return b
        if b == "0.0":
            return a
        if a > b:
            a, b = b, a
        return self.t("(+ %s %s)" % (a, b), (a, b))

    def negT(self, a):
        if a == "0.0":
            return a
        return self.t("(- %s)" % a, (a,))

    def decl(self, name, kind):
        s = "|%s|" % name
        self.syms[s] = kind
        return s

    def atom(self, kind, n: Sym, extra=None):
        key = (kind, n.args[0].fp, extra)
        s = self.atom_of.get(key)
        if s is None:
            s = self.decl("%s#%d" % (kind, len(self.atom_of)), "atom")
            self.atom_of[key] = s
            self.atom_info[s] = {"kind": kind, "arg": self.node[n.args[0].nid], "node": n, "extra": extra}
        elif self.atom_info[s]["node"].args[0] is not n.args[0]:
            self.merged.append((s, self.atom_info[s]["node"], n))
        self.node_atoms[n.nid] = s
        return s

    # ------------------------------------------------------------------ nodes
    def _reach(self, roots):
        if not self.cuts:
            return reachable(roots)
        seen = {}
        stack = [r for r in roots if isinstance(r, Sym)]
        while stack:
            n = stack.pop()
            if n.nid in seen:
                continue
            seen[n.nid] = n
            if n.nid in self.cuts:
                continue
            for a in n.args:
                if isinstance(a, Sym):
                    stack.append(a)
                elif isinstance(a, SymBool):
                    stack.extend(bool_syms(a))
        return [seen[k] for k in sorted(seen)]

    def lower(self, roots):
        for n in self._reach(roots):
            if n.nid in self.node:
                continue
            self.node[n.nid] = self._lower1(n)

    def _lower1(self, n: Sym):
        op = n.op
        g = self.node
        if n.nid in self.cuts:
            c = self.decl("cut#%d" % n.nid, "atom")
            if n.nid in self.cut_signs:
                self.signed_cuts = getattr(self, "signed_cuts", {})
                self.signed_cuts[c] = self.cut_signs[n.nid]
            return (c, None)
        if op == "poison":
            from .sym import SymDomainError

            raise SymDomainError("a value obtained by %s reaches an obligation" % n.args[0])
        if op == "const":
            fr = n.args[0]
            if fr.denominator == 1:
                return (_q(fr), None)
            return (_q(Fraction(fr.numerator)), _q(Fraction(fr.denominator)))
        if op == "var":
            name = n.args[0]
            return (self.decl(name, "named" if name in NAMED else "var"), None)
        if op == "add":
            (na, da), (nb, db) = g[n.args[0].nid], g[n.args[1].nid]
            if da == db:
                return (self.addT(na, nb), da)
            if da is None:
                return (self.addT(self.mulT(na, db), nb), db)
            if db is None:
                return (self.addT(na, self.mulT(nb, da)), da)
            return (self.addT(self.mulT(na, db), self.mulT(nb, da)), self.mulT(da, db))
        if op == "neg":
            na, da = g[n.args[0].nid]
            return (self.negT(na), da)
        if op == "mul":
            (na, da), (nb, db) = g[n.args[0].nid], g[n.args[1].nid]
            if self.sqrt_rewrite and na == nb and da is None and db is None and na in self.sqrt_arg:
                return self.sqrt_arg[na]
            d = db if da is None else (da if db is None else self.mulT(da, db))
            # cancel a numeric denominator against an identical factor is not attempted
            return (self.mulT(na, nb), d)
        if op == "div" and self.divvar:
            return (self.decl("q#%d" % n.nid, "atom"), None)
        if op == "div":
            (na, da), (nb, db) = g[n.args[0].nid], g[n.args[1].nid]
            num = na if db is None else self.mulT(na, db)
            den = nb if da is None else self.mulT(da, nb)
            return (num, den)
        if op in ("sin", "cos") and self.trig is not None:
            k = self.trig_args.setdefault(n.args[0].fp, len(self.trig_args))
            if (self.trig >> k) & 1:
                return ("(- 1.0)" if op == "cos" else "0.0", None)
            tv = self.decl("tp#%d" % k, "atom")
            t2 = self.mulT(tv, tv)
            den = self.addT("1.0", t2)
            num = self.t("(- 1.0 %s)" % t2, (t2,)) if op == "cos" else self.mulT("2.0", tv)
            return (num, den)
        if op in ("sqrt", "exp", "log", "atan", "sin", "cos"):
            s = self.atom(op, n)
            if op == "sqrt":
                self.sqrt_arg[s] = g[n.args[0].nid]
            return (s, None)
        if op == "pow":
            return (self.atom("pow", n, n.args[1]), None)
        if op == "ufn":
            key = ("ufn", n.args[0], n.args[1], tuple(a.fp for a in n.args[2:]))
            s = self.atom_of.get(key)
            if s is None:
                s = self.decl("%s%s#%d" % (n.args[0], list(n.args[1]), len(self.atom_of)), "atom")
                self.atom_of[key] = s
                self.atom_info[s] = {"kind": "ufn", "arg": (None, None), "node": n, "extra": None}
            self.node_atoms[n.nid] = s
            return (s, None)
        if op == "re":
            return g[n.args[0].nid]
        if op == "abs":
            na, da = g[n.args[0].nid]
            num = self.t("(ite (>= %s 0.0) %s (- %s))" % (na, na, na), (na,))
            den = None if da is None else self.t("(ite (>= %s 0.0) %s (- %s))" % (da, da, da), (da,))
            return (num, den)
        if op == "ite":
            f, fdeps = self.cond(n.args[0])
            (na, da), (nb, db) = g[n.args[1].nid], g[n.args[2].nid]
            if da == db:
                return (self.t("(ite %s %s %s)" % (f, na, nb), fdeps + (na, nb)), da)
            xa = na if db is None else self.mulT(na, db)
            xb = nb if da is None else self.mulT(nb, da)
            d = db if da is None else (da if db is None else self.mulT(da, db))
            return (self.t("(ite %s %s %s)" % (f, xa, xb), fdeps + (xa, xb)), d)
        raise ValueError(op)

    def cond(self, c: SymBool):
        """-> (formula string, deps tuple)"""
        if c.op == "true":
            return "true", ()
        if c.op == "false":
            return "false", ()
        if c.op in ("<", "<=", "==", "!="):
            self.lower([c.args[0]])
            n, d = self.node[c.args[0].nid]
            if c.op in ("==", "!="):
                f = "(= %s 0.0)" % n
                return (f if c.op == "==" else "(not %s)" % f), (n,)
            x = n if d is None else self.mulT(n, d)
            return "(%s %s 0.0)" % (c.op, x), (x,)
        if c.op == "not":
            f, dp = self.cond(c.args[0])
            return "(not %s)" % f, dp
        parts = [self.cond(a) for a in c.args]
        return "(%s %s)" % (c.op, " ".join(p[0] for p in parts)), tuple(x for p in parts for x in p[1])

    # ------------------------------------------------------------------ queries
    def ne(self, a: Sym, b: Sym):
        """formula: a != b  (cross-multiplied)"""
        self.lower([a, b])
        (na, da), (nb, db) = self.node[a.nid], self.node[b.nid]
        if da == db:
            return "(not (= %s %s))" % (na, nb), (na, nb)
        l = na if db is None else self.mulT(na, db)
        r = nb if da is None else self.mulT(nb, da)
        return "(not (= %s %s))" % (l, r), (l, r)

    def constraints_for(self, syms_roots, level=1):
        """domain + atom side constraints for everything reachable from the given Sym roots."""
        out = []
        deps = []
        seen_atoms = {}
        for n in self._reach(syms_roots):
            if n.nid in self.cuts:
                continue
            if n.op == "div":
                nb, db_ = self.node[n.args[1].nid]
                out.append("(not (= %s 0.0))" % nb)
                deps.append(nb)
                if self.divvar:
                    na, da_ = self.node[n.args[0].nid]
                    q = self.node[n.nid][0]
                    # q = (na/da_)/(nb/db_)  <=>  q*nb*da_ = na*db_   (numeric denominators only occur for constants)
                    l = self.mulT(q, nb if da_ is None else self.mulT(nb, da_))
                    r = na if db_ is None else self.mulT(na, db_)
                    out.append("(= %s %s)" % (l, r))
                    deps += [l, r, q]
            s = self.node_atoms.get(n.nid)
            if s is not None and s not in seen_atoms:
                seen_atoms[s] = n
        for c, sg in getattr(self, "signed_cuts", {}).items():
            out.append("(%s %s 0.0)" % (sg, c))
            deps.append(c)
        for s, n in seen_atoms.items():
            info = self.atom_info[s]
            kind = info["kind"]
            an, ad = info["arg"]
            deps.append(s)
            if kind == "sqrt":
                out.append("(>= %s 0.0)" % s)
                if level >= 2:
                    sq = self.mulT(s, s)
                    lhs = sq if ad is None else self.mulT(sq, ad)
                    out.append("(= %s %s)" % (lhs, an))
                    deps += [lhs, an]
            elif kind in ("exp", "pow"):
                out.append("(> %s 0.0)" % s)
            elif kind == "atan" and level >= 2:
                out.append("(< (* 2.0 %s) |PI|)" % s)
                out.append("(> (* 2.0 %s) (- |PI|))" % s)
                self.syms["|PI|"] = "named"
                deps.append("|PI|")
        if level >= 2:
            # trig pairs
            by_arg = {}
            for s, n in seen_atoms.items():
                k = self.atom_info[s]["kind"]
                if k in ("sin", "cos"):
                    by_arg.setdefault(n.args[0].fp, {})[k] = s
            for fp, d in by_arg.items():
                if "sin" in d and "cos" in d:
                    out.append("(= (+ (* %s %s) (* %s %s)) 1.0)" % (d["sin"], d["sin"], d["cos"], d["cos"]))
                else:
                    for s in d.values():
                        out.append("(and (<= %s 1.0) (>= %s (- 1.0)))" % (s, s))
            out += self.transcendental_axioms(seen_atoms, deps)
        return out, tuple(deps), list(seen_atoms)

    def transcendental_axioms(self, seen_atoms, deps):
        """Instantiated facts between the finitely many exp/log/pow atoms of a query."""
        out = []
        groups = {"exp": [], "log": [], "pow": []}
        for s in seen_atoms:
            info = self.atom_info[s]
            if info["kind"] in groups:
                groups[info["kind"]].append((s, info))

        def argterm(info):
            an, ad = info["arg"]
            return an, ad

        def lt_args(i1, i2, op="<"):
            (n1, d1), (n2, d2) = argterm(i1), argterm(i2)
            # n1/d1 < n2/d2 ; multiply by d1^2 d2^2 > 0
            if d1 is None and d2 is None:
                deps.extend([n1, n2])
                return "(%s %s %s)" % (op, n1, n2)
            l = n1
            r = n2
            if d1 is not None:
                l = self.mulT(l, d1)
                r = self.mulT(self.mulT(r, d1), d1)
            if d2 is not None:
                l = self.mulT(self.mulT(l, d2), d2)
                r = self.mulT(r, d2)
            deps.extend([l, r])
            return "(%s %s %s)" % (op, l, r)

        def arg_cmp_const(info, op, c):
            n, d = argterm(info)
            deps.append(n)
            if d is None:
                return "(%s %s %s)" % (op, n, c)
            x = self.mulT(n, d)
            dd = self.mulT(d, d)
            deps.extend([x, dd])
            return "(%s %s (* %s %s))" % (op, x, c, dd)

        for kind in ("exp", "log", "pow"):
            g = groups[kind]
            for i, (s1, i1) in enumerate(g):
                for (s2, i2) in g[i + 1:]:
                    if kind == "pow" and i1["extra"] != i2["extra"]:
                        continue
                    out.append("(=> %s (< %s %s))" % (lt_args(i1, i2), s1, s2))
                    out.append("(=> %s (< %s %s))" % (lt_args(i2, i1), s2, s1))
                    out.append("(=> %s (= %s %s))" % (lt_args(i1, i2, "="), s1, s2))
        for s, info in groups["exp"]:
            # exp(a) >= 1 + a ; a<=0 => exp(a) <= 1 ; a>=0 => exp(a) >= 1
            n, d = argterm(info)
            out.append("(=> %s (<= %s 1.0))" % (arg_cmp_const(info, "<=", "0.0"), s))
            out.append("(=> %s (>= %s 1.0))" % (arg_cmp_const(info, ">=", "0.0"), s))
        for s, info in groups["log"]:
            out.append("(=> %s (>= %s 0.0))" % (arg_cmp_const(info, ">=", "1.0"), s))
            out.append("(=> %s (<= %s 0.0))" % (arg_cmp_const(info, "<=", "1.0"), s))
            out.append("(=> %s (> %s 0.0))" % (arg_cmp_const(info, ">", "1.0"), s))
            out.append("(=> %s (< %s 0.0))" % (arg_cmp_const(info, "<", "1.0"), s))
        for s, info in groups["pow"]:
            out.append("(=> %s (>= %s 1.0))" % (arg_cmp_const(info, ">=", "1.0"), s))
            out.append("(=> %s (<= %s 1.0))" % (arg_cmp_const(info, "<=", "1.0"), s))
        return out

    def emit(self, formulas, deps, extra_decls=(), logic=None, get_model=True):
        """Assemble SMT-LIB2 text asserting all formulas; deps = term names they mention."""
        need = set()
        usedset = set()
        stack = list(deps)
        while stack:
            x = stack.pop()
            if x in need or x in usedset:
                continue
            if x in self.defs:
                need.add(x)
                stack.extend(self.defs[x][1])
            elif x in self.syms:
                usedset.add(x)
        names = sorted(need, key=self.order.__getitem__)
        body = "\n".join("(define-fun %s () Real %s)" % (n, self.defs[n][0]) for n in names)
        asserts = "\n".join("(assert %s)" % f for f in formulas)
        used = sorted(usedset)
        lines = []
        if logic:
            lines.append("(set-logic %s)" % logic)
        for s in used:
            lines.append("(declare-const %s Real)" % s)
        for s in extra_decls:
            lines.append("(declare-const %s Real)" % s)
        for s in used:
            if self.syms[s] == "named":
                lo, hi = NAMED[s.strip("|")][1:]
                lines.append("(assert (and (< %s %s) (< %s %s)))" % (_q(lo), s, s, _q(hi)))
        lines.append(body)
        lines.append(asserts)
        lines.append("(check-sat)")
        return "\n".join(lines) + "\n", used


def build_query(lw: Lowerer, goal_formula, goal_deps, roots, assumptions=(), level=1, logic=None):
    """Text of: assumptions and domain and side and goal."""
    aroots = []
    forms = []
    deps = list(goal_deps)
    for a in assumptions:
        f, dp = lw.cond(a)
        forms.append(f)
        deps += list(dp)
        aroots += bool_syms(a)
    lw.lower(list(roots) + aroots)
    cons, cdeps, atoms = lw.constraints_for(list(roots) + aroots, level)
    deps += list(cdeps)
    text, used = lw.emit(forms + cons + [goal_formula], deps, logic=logic)
    return text, used
