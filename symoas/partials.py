"""C01 / C03 machinery: analytic partials vs the DAG derivative, and independence from the pre-state.

One *case* = one real component set up with one bounded configuration.  The component's
compute + compute_partials (or apply_nonlinear + linearize) run on symbolic stores whose
pre-state (outputs, Jacobian storage, mutable attributes) is arbitrary (fresh `g:` symbols).
"""
from __future__ import annotations

import json
import time
import warnings

import numpy as np

from . import diff, execute, lower, oblig
from .harness import CompRunner
from .sym import S, Sym, ZERO, evalb, evalf, reachable, show, showb, substitute, var


class Case:
    def __init__(self, name, factory, cfg=None, assumptions=None, overrides=None, nominal=None, skip_wrt=(),
                 max_paths=64, tiers=("quick", "thorough"), note="", timeout=None, extra=None):
        self.extra = extra  # module -> {global name: replacement} rebinding during the symbolic run (kernel stubs)
        self.name = name
        self.factory = factory  # cfg -> component instance
        self.cfg = cfg or {}
        self.assumptions = assumptions  # fn(inputs dict) -> list[SymBool]
        self.overrides = overrides  # fn(runner) -> dict name -> array (partially concrete inputs)
        self.nominal = nominal  # fn(runner, rng) -> dict name -> float array (admissible point)
        self.skip_wrt = set(skip_wrt)
        self.max_paths = max_paths
        self.tiers = tiers
        self.note = note
        self.timeout = timeout

    def build(self):
        comp = self.factory(dict(self.cfg))
        nominal = self.nominal
        r = CompRunner(comp, prerun=False)
        rng = np.random.default_rng(12345)
        r.input_vals = nominal(r, rng) if nominal else default_nominal(r, rng)
        r.concrete_prerun()
        return r


def default_nominal(r, rng):
    out = {}
    for n in r.in_names:
        d = r.defaults[n]
        out[n] = d + 0.25 + 0.5 * rng.random(d.shape)
    return out


def _has_g_flags(roots):
    """nid -> True if the node syntactically depends on a pre-state symbol g:*"""
    flag = {}
    for n in reachable(roots):
        if n.op == "var":
            flag[n.nid] = n.args[0].startswith("g:")
        elif n.op == "const":
            flag[n.nid] = False
        else:
            f = False
            for a in n.args:
                if isinstance(a, Sym):
                    if flag[a.nid]:
                        f = True
                        break
                elif hasattr(a, "args"):
                    from .sym import bool_syms

                    if any(flag[s.nid] for s in bool_syms(a)):
                        f = True
                        break
            flag[n.nid] = f
    return flag


def _gprime(roots):
    """substitute every g:* variable by an independent copy g':*"""
    mapping = {}
    for n in reachable(roots):
        if n.op == "var" and n.args[0].startswith("g:"):
            mapping[n.args[0]] = var("g'" + n.args[0][1:])
    return substitute(roots, mapping)


def path_label(path):
    conds = path.conds
    if not conds:
        return "-"
    return " & ".join(showb(c) for c in conds)


class CaseResult:
    pass


def run_case(case: Case, rep, want=("C01", "C03"), timeout=20.0, validate=True):
    """Symbolically execute one case and build + discharge its obligations.

    Returns dict(c01=[Ob], c03=[Ob], runner, inputs, paths, info)
    """
    t0 = time.time()
    r = case.build()
    comp = r.comp
    rep.encode(type(comp))
    overrides = case.overrides(r) if case.overrides else None
    ins = r.sym_inputs(overrides)
    assume = case.assumptions(ins) if case.assumptions else []
    paths = r.run(ins, assumptions=assume, max_paths=case.max_paths, extra=case.extra)
    info = {"case": case.name, "cfg": _jsonable(case.cfg), "paths": len(paths), "mutable_attrs": r.mutable,
            "approx_pairs_skipped": sorted("%s/%s" % k for k in r.approx_keys)}

    # --- union over paths of touched storage / output entries
    jt = {k: np.zeros(np.shape(paths[0].result["jac"][k]), dtype=bool) for k in r.jinfo}
    ot = {n: np.zeros(r.shapes[n], dtype=bool) for n in r.out_names}
    for p in paths:
        res = p.result
        for k in r.jinfo:
            a, b = res["jac"][k], res["pre_jac"][k]
            for idx in np.ndindex(*a.shape):
                if a[idx] is not b[idx]:
                    jt[k][idx] = True
        if not r.implicit:
            for n in r.out_names:
                a, b = res["outputs"][n], res["pre_outs"][n]
                for idx in np.ndindex(*a.shape):
                    if a[idx] is not b[idx]:
                        ot[n][idx] = True

    c01, c03 = [], []
    invars = []
    wrt_names = list(r.in_names) + (list(r.out_names) if r.implicit else [])
    state_vars = {}
    for n in wrt_names:
        arr = ins[n] if n in ins else None
        if arr is None:  # implicit outputs: fresh vars named like the output
            from .sym import symarray

            arr = symarray(n, r.shapes[n])
            state_vars[n] = arr
        for k, x in enumerate(arr.ravel()):
            invars.append((n, k, x))

    all_lowerers = []
    for pi, p in enumerate(paths):
        res = p.result
        plabel = path_label(p)
        passume = list(assume) + p.conds
        # effective storage
        effJ = {}
        for k, m in r.jinfo.items():
            a = res["jac"][k].copy()
            init = np.broadcast_to(m["val"], a.shape) if m["rows"] is not None else m["val"].reshape(a.shape)
            for idx in np.ndindex(*a.shape):
                if not jt[k][idx]:
                    a[idx] = S(float(init[idx]))
            effJ[k] = a
        of_names = list(r.out_names)
        if r.implicit:
            effO = {n: res["residuals"][n] for n in of_names}
        else:
            effO = {}
            for n in of_names:
                a = res["outputs"][n].copy()
                for idx in np.ndindex(*a.shape):
                    if not ot[n][idx]:
                        a[idx] = S(float(r.defaults[n][idx]))
                effO[n] = a
        outs_flat = [x for n in of_names for x in effO[n].ravel()]
        closed = [d for d, v, forced in p.decisions[: res.get("n_compute_decisions", 0)]
                  if (d.op == "==" and v) or (d.op == "!=" and not v)]

        lw = lower.Lowerer()
        all_lowerers.append(lw)

        # ---------------- C03: independence of the pre-state
        if "C03" in want:
            roots = outs_flat + [x for k in effJ for x in effJ[k].ravel()]
            flags = _has_g_flags(roots)
            gp = None
            groots = [x for x in roots if flags[x.nid]]
            if groots:
                gp = _gprime(groots)

            def indep(id_, x, meta):
                if flags[x.nid]:
                    o = oblig.Ob(id_, lhs=x, rhs=gp[x.nid], assume=passume, meta=meta, kind="indep")
                else:
                    o = oblig.Ob(id_, lhs=x, rhs=x, assume=passume, meta=meta, kind="indep")
                c03.append(o)

            if not r.implicit:
                for n in of_names:
                    for k, x in enumerate(effO[n].ravel()):
                        indep("%s|p%d|out:%s[%d]" % (case.name, pi, n, k), x,
                              {"case": case.name, "path": plabel, "what": "output", "of": n, "i": k, "pi": pi})
            # the component leaves its inputs as it was given them: the framework re-uses the input vector for the next
            # call (a complex-step / finite-difference column, a second compute without a data transfer)
            for n in r.in_names:
                if n not in ins or "inputs_after" not in res:
                    continue
                before, after = np.asarray(ins[n], dtype=object).ravel(), np.asarray(res["inputs_after"][n], dtype=object).ravel()
                for k, (xb, xa) in enumerate(zip(before, after)):
                    c03.append(oblig.Ob("%s|p%d|input:%s[%d]" % (case.name, pi, n, k), lhs=S(xa), rhs=S(xb), assume=passume, kind="indep",
                                        meta={"case": case.name, "path": plabel, "what": "input", "of": n, "i": k, "pi": pi}))
            for key in r.jinfo:
                if key in r.approx_keys:
                    continue
                for k, x in enumerate(effJ[key].ravel()):
                    indep("%s|p%d|jac:%s/%s[%d]" % (case.name, pi, key[0], key[1], k), x,
                          {"case": case.name, "path": plabel, "what": "jac", "of": key[0], "wrt": key[1], "k": k,
                           "pi": pi})
            # a second linearisation at the same point, with no compute() in between, reports the same derivatives
            if "jac_again" in res:
                for key in r.jinfo:
                    if key in r.approx_keys:
                        continue
                    first, again = np.asarray(res["jac"][key], dtype=object).ravel(), np.asarray(res["jac_again"][key], dtype=object).ravel()
                    for k, (x1, x2) in enumerate(zip(first, again)):
                        c03.append(oblig.Ob("%s|p%d|jac2:%s/%s[%d]" % (case.name, pi, key[0], key[1], k), lhs=S(x2), rhs=S(x1), assume=passume, kind="indep",
                                            meta={"case": case.name, "path": plabel, "what": "jac_again", "of": key[0], "wrt": key[1], "k": k, "pi": pi}))

        # ---------------- C01: J_code == d out / d in
        if "C01" in want:
            if closed:
                info.setdefault("closed_paths_skipped", []).append(plabel)
                continue
            nodes = reachable(outs_flat)
            dense = {}
            off = {}
            o = 0
            for n in of_names:
                off[n] = o
                o += r.size(n)
            has_abs = any(n_.op in ("abs", "re") for n_ in nodes)
            for (wn, wk, wv) in invars:
                if wn in case.skip_wrt:
                    continue
                dcol = diff.diff_all(outs_flat, wv, nodes)
                dcs = diff.diff_all(outs_flat, wv, nodes, complex_step=True) if (has_abs and any((n_, wn) in r.cs_keys for n_ in of_names)) else None
                for n in of_names:
                    key = (n, wn)
                    if key in r.cs_keys and dcs is not None:
                        # complex-step pairs: what the approximation reports (|u| contributes nothing) must be the derivative
                        base = off[n]
                        for i in range(r.size(n)):
                            if dcs[base + i] is not dcol[base + i]:
                                c01.append(oblig.Ob("%s|p%d|cs d %s[%d]/d %s[%d]" % (case.name, pi, n, i, wn, wk), lhs=dcs[base + i], rhs=dcol[base + i],
                                                    assume=passume, meta={"case": case.name, "path": plabel, "of": n, "wrt": wn, "i": i, "j": wk,
                                                                          "declared": True, "pi": pi, "complex_step": True}))
                    if key in r.approx_keys:
                        continue
                    if key not in dense:
                        if key in r.jinfo:
                            dense[key] = r.dense_jac(key, effJ[key])[0]
                        else:
                            dense[key] = None
                    J = dense[key]
                    base = off[n]
                    for i in range(r.size(n)):
                        jc = ZERO if J is None else J[i, wk]
                        dv = dcol[base + i]
                        c01.append(oblig.Ob("%s|p%d|d %s[%d]/d %s[%d]" % (case.name, pi, n, i, wn, wk), lhs=jc, rhs=dv,
                                            assume=passume,
                                            meta={"case": case.name, "path": plabel, "of": n, "wrt": wn, "i": i,
                                                  "j": wk, "declared": J is not None, "pi": pi}))
    info["sym_exec_s"] = round(time.time() - t0, 2)
    info["feasibility_queries"] = execute.CTX.feas_queries
    t1 = time.time()
    # obligations of different paths use different lowerers; discharge path by path
    for pi, lw in enumerate(all_lowerers):
        obs = [o for o in c01 + c03 if o.meta.get("pi") == pi]
        oblig.discharge(obs, lw=lw, timeout=case.timeout or timeout)
        info.setdefault("atoms", 0)
        info["atoms"] += len(lw.atom_info)
        info.setdefault("atom_merges", 0)
        info["atom_merges"] += len(lw.merged)
    info["solve_s"] = round(time.time() - t1, 2)
    out = {"c01": c01, "c03": c03, "runner": r, "inputs": ins, "paths": paths, "info": info, "assume": assume,
           "state_vars": state_vars}
    if validate:
        out["validation"] = validate_case(case, out)
    return out


def _jsonable(x):
    try:
        json.dumps(x)
        return x
    except TypeError:
        return {k: (v if isinstance(v, (int, float, str, bool, type(None))) else repr(v)[:60]) for k, v in x.items()}


# ------------------------------------------------------------------------------------- numeric side
def env_from_inputs(r, vals):
    env = {}
    for n, a in vals.items():
        a = np.asarray(a, dtype=float)
        if a.shape == ():
            env[n] = float(a)
        else:
            for idx in np.ndindex(*a.shape):
                env["%s[%s]" % (n, ",".join(map(str, idx)))] = float(a[idx])
    return env


def inputs_from_env(r, env, base=None):
    vals = {}
    for n in r.in_names + (r.out_names if r.implicit else []):
        shape = r.shapes[n]
        a = np.array(base[n], dtype=float).reshape(shape) if base is not None and n in base else np.array(r.defaults[n], dtype=float)
        if shape == ():
            if n in env:
                a = np.array(env[n])
        else:
            for idx in np.ndindex(*shape):
                k = "%s[%s]" % (n, ",".join(map(str, idx)))
                if k in env:
                    a[idx] = env[k]
        vals[n] = a
    return vals


def real_eval(case: Case, vals, linearize=True, prob_r=None, history=None, history_linearize=True):
    """Fresh real problem at `vals`: outputs and analytic partials (check_partials J_fwd) + central FD.
    history: list of earlier points at which the model is run and linearised first (same live Problem)."""
    r = prob_r or CompRunner(case.factory(dict(case.cfg)), prerun=False)
    prob = r.prob
    if r.implicit:
        return real_eval_implicit(r, vals, linearize, history=history)
    with warnings.catch_warnings(), np.errstate(all="ignore"):
        warnings.simplefilter("ignore")
        for hv in history or []:
            for n in r.in_names:
                prob.set_val(r.path + "." + n, hv[n])
            prob.run_model()
            if history_linearize:
                prob.model.run_linearize()
        for n in r.in_names:
            prob.set_val(r.path + "." + n, vals[n])
        if r.implicit:
            for n in r.out_names:
                if n in vals:
                    prob.set_val(r.path + "." + n, vals[n])
            prob.model.run_apply_nonlinear()
            outs = {n: np.array(prob.model._residuals[r.path + "." + n]).reshape(r.shapes[n]) for n in r.out_names}
        else:
            prob.run_model()
            outs = {n: np.array(prob.get_val(r.path + "." + n)).reshape(r.shapes[n]) for n in r.out_names}
        J = None
        if linearize:
            J = {}
            data = prob.check_partials(out_stream=None, method="fd", form="central", step=1e-6, step_calc="abs")
            d = data[r.path]
            for key, v in d.items():
                if "J_fwd" in v:  # (pairs the component does not declare come without an analytic block)
                    J.setdefault(key, {})["J_fwd"] = np.array(v["J_fwd"])
            # reference: own real-valued central differences (Richardson) through run_model
            def f(v):
                for n in r.in_names:
                    prob.set_val(r.path + "." + n, v[n])
                prob.run_model()
                return {n: np.array(prob.get_val(r.path + "." + n), dtype=float).ravel().copy() for n in r.out_names}

            for wrt in r.in_names:
                base = np.array(vals[wrt], dtype=float).reshape(r.shapes[wrt])
                cols = {of: np.zeros((r.size(of), base.size)) for of in r.out_names}
                hmin = np.ones(base.size)
                for j in range(base.size):
                    hmin[j] = 5e-5 * max(1.0, abs(base.ravel()[j]))
                    est = []
                    for h in (1e-4, 5e-5):
                        hh = h * max(1.0, abs(base.ravel()[j]))
                        a = base.copy().ravel(); a[j] += hh
                        b = base.copy().ravel(); b[j] -= hh
                        vp = dict(vals); vm = dict(vals)
                        vp[wrt] = a.reshape(base.shape); vm[wrt] = b.reshape(base.shape)
                        fp, fm = f(vp), f(vm)
                        est.append({of: (fp[of] - fm[of]) / (2 * hh) for of in r.out_names})
                    for of in r.out_names:
                        cols[of][:, j] = (4 * est[1][of] - est[0][of]) / 3.0
                for of in r.out_names:
                    J.setdefault((of, wrt), {})["J_fd"] = cols[of]
                    J[(of, wrt)]["hmin"] = hmin
            f0 = f(vals)
            for (of, wrt), e in J.items():
                fmax = float(np.max(np.abs(f0[of]))) if of in f0 else 1.0
                hm = e.get("hmin")
                # round-off noise of the central difference: eps * |f| / h, per column
                e["noise_col"] = 200 * 2.2e-16 * (fmax + 1e-300) / hm if hm is not None else None
                e["noise"] = float(np.max(e["noise_col"])) if hm is not None else 1e-15 * (1.0 + fmax) / 5e-5 * 50
            for key, e in J.items():
                if "J_fwd" not in e:
                    e["J_fwd"] = np.zeros_like(e["J_fd"])
                if "J_fd" not in e:
                    e["J_fd"] = np.full_like(e["J_fwd"], np.nan)
    return r, outs, J


def real_eval_implicit(r, vals, linearize=True, history=None):
    """Implicit components: the real apply_nonlinear / linearize called directly on numeric stores
    (the real methods, real numpy); finite differences of the residual for the reference."""
    from .harness import JacStore, VecStore

    comp = r.comp

    def resid(v):
        I = VecStore({n: np.array(v[n], dtype=float).reshape(r.shapes[n]) for n in r.in_names})
        O = VecStore({n: np.array(v[n], dtype=float).reshape(r.shapes[n]) for n in r.out_names})
        R = VecStore({n: np.zeros(r.shapes[n]) for n in r.out_names})
        comp.apply_nonlinear(I, O, R)
        return {n: np.array(R[n], dtype=float) for n in r.out_names}, I, O

    with warnings.catch_warnings(), np.errstate(all="ignore"):
        warnings.simplefilter("ignore")
        outs, I, O = resid(vals)
        J = None
        if linearize:
            jac = {}
            for k, m in r.jinfo.items():
                shape = (len(m["rows"]),) if m["rows"] is not None else m["shape"]
                init = np.broadcast_to(m["val"], shape) if m["rows"] is not None else m["val"].reshape(shape)
                jac[k] = np.array(init, dtype=float).copy()
            for hv in history or []:  # same live storage, earlier point(s)
                _, Ih, Oh = resid(hv)
                comp.linearize(Ih, Oh, JacStore(r.jinfo, jac))
            comp.linearize(I, O, JacStore(r.jinfo, jac))
            J = {}
            names = r.in_names + r.out_names
            for of in r.out_names:
                for wrt in names:
                    key = (of, wrt)
                    if key in r.jinfo:
                        m = r.jinfo[key]
                        if m["rows"] is None:
                            d = jac[key].reshape(r.size(of), r.size(wrt))
                        else:
                            d = np.zeros((r.size(of), r.size(wrt)))
                            np.add.at(d, (m["rows"], m["cols"]), jac[key])
                    else:
                        d = np.zeros((r.size(of), r.size(wrt)))
                    fd = np.zeros_like(d)
                    base = np.array(vals[wrt], dtype=float).reshape(r.shapes[wrt])
                    for j in range(base.size):
                        col = []
                        for h in (1e-4, 5e-5):
                            vp = dict(vals)
                            vm = dict(vals)
                            a = base.copy().ravel(); a[j] += h
                            b = base.copy().ravel(); b[j] -= h
                            vp[wrt] = a.reshape(base.shape); vm[wrt] = b.reshape(base.shape)
                            col.append((resid(vp)[0][of].ravel() - resid(vm)[0][of].ravel()) / (2 * h))
                        fd[:, j] = (4 * col[1] - col[0]) / 3.0
                    J[key] = {"J_fwd": d, "J_fd": fd,
                              "noise": 1e-15 * (1.0 + float(np.max(np.abs(outs[of])))) / 5e-5 * 50}
    return r, outs, J


def validate_case(case: Case, out):
    """Encoder validation (DESIGN 2.10): DAG outputs / Jacobian / derivative vs the real component at one point."""
    r = out["runner"]
    rng = np.random.default_rng(777)
    vals = case.nominal(r, rng) if case.nominal else default_nominal(r, rng)
    vals = {n: np.array(vals.get(n, r.defaults[n]), dtype=float).reshape(r.shapes[n]) for n in r.in_names}
    if r.implicit:
        for n in r.out_names:
            vals[n] = 0.25 + rng.random(r.shapes[n])
    env = env_from_inputs(r, vals)
    # pre-state symbols take the values a fresh problem has
    for k, m in r.jinfo.items():
        shape = (len(m["rows"]),) if m["rows"] is not None else m["shape"]
        init = np.broadcast_to(m["val"], shape) if m["rows"] is not None else m["val"].reshape(shape)
        for idx in np.ndindex(*shape):
            env["g:h:jac:%s~%s[%s]" % (k[0], k[1], ",".join(map(str, idx)))] = float(init[idx])
    try:
        rr, outs, J = real_eval(case, vals)
    except Exception as e:
        return {"ok": None, "error": "real evaluation failed: %r" % (e,)}
    # pick the path whose decisions hold at this point
    chosen = None
    for pi, p in enumerate(out["paths"]):
        roots = [s for d, _, _ in p.decisions for s in __import__("symoas.sym", fromlist=["bool_syms"]).bool_syms(d)]
        try:
            val = evalf(roots, _Default(env))
            if all(evalb(d, val) == v for d, v, _ in p.decisions):
                chosen = pi
                break
        except KeyError:
            continue
    if chosen is None:
        return {"ok": None, "error": "no path matches the validation point"}
    maxerr = 0.0
    worst = None
    n = 0
    obs = [o for o in out["c01"] if o.meta["pi"] == chosen]
    roots = [o.lhs for o in obs] + [o.rhs for o in obs]
    val = evalf(roots, _Default(env))
    for o in obs:
        key = (o.meta["of"], o.meta["wrt"])
        if J is None or key not in J:
            continue
        jf = J[key]["J_fwd"][o.meta["i"], o.meta["j"]]
        jd = J[key]["J_fd"][o.meta["i"], o.meta["j"]]
        a, b = val[o.lhs.nid], val[o.rhs.nid]
        scale = max(1.0, abs(jf), abs(jd))
        if a == a:  # skip nan (g symbols without value)
            e1 = abs(a - jf) / scale
            if e1 > maxerr:
                maxerr, worst = e1, (o.id, "J_code dag %.6g vs real %.6g" % (a, jf))
        if b == b and o.verdict == "discharged":
            e2 = max(0.0, abs(b - jd) - J[key].get("noise", 0.0)) / scale
            if e2 > 1e-5 and e2 > maxerr:
                maxerr, worst = e2, (o.id, "derivative dag %.6g vs central-difference %.6g" % (b, jd))
        n += 1
    return {"ok": maxerr < 1e-5, "entries": n, "max_rel_err": maxerr, "worst": worst, "path": chosen}


class _Default(dict):
    """env that yields nan for unknown g symbols and 0.5 for other unknowns."""

    def __init__(self, d):
        super().__init__(d)

    def __missing__(self, k):
        if k.startswith("g"):
            return float("nan")
        raise KeyError(k)
