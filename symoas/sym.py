"""Hash-consed symbolic real scalars (`Sym`) that live inside numpy object arrays.

The repo's numpy code is executed unmodified on arrays of these; every arithmetic
operator builds a node of an expression DAG over the reals (DESIGN.md 2.2, 2.4, 2.5).

Nothing in this module decides a property: light local rewrites (constant
folding, x+0, x*1, x-x, sign normalisation) only keep the DAG small.  The modular
fingerprint `fp` (value of the node at a fixed pseudo-random point of GF(2^61-1))
is used solely as a *key* to recognise that two non-polynomial atoms (sqrt, sin,
...) have equal arguments; merges are confirmed by the solver (solve.py).
"""
from __future__ import annotations

import hashlib
import math
from fractions import Fraction

import numpy as np

P = (1 << 61) - 1

_TABLE: dict = {}
_COUNTER = [0]


class SymDomainError(ArithmeticError):
    """A concrete domain violation (division by the constant 0, sqrt of a negative constant)."""


def _h(*parts) -> int:
    d = hashlib.blake2b(repr(parts).encode(), digest_size=8).digest()
    return (int.from_bytes(d, "big") % (P - 2)) + 1


def _inv(x: int) -> int:
    return pow(x % P, P - 2, P)


# named irrational constants: name -> (float value, lower bound, upper bound) as exact decimals
NAMED = {
    "PI": (math.pi, Fraction("3.14159265358979"), Fraction("3.14159265358980")),
    "LN10": (math.log(10.0), Fraction("2.30258509299404"), Fraction("2.30258509299405")),
    "LN2": (math.log(2.0), Fraction("0.693147180559945"), Fraction("0.693147180559946")),
}


class Sym:
    __slots__ = ("op", "args", "nid", "fp", "pz")

    # ------------------------------------------------------------------ construction
    def __init__(self, op, args, fp):
        self.op = op
        self.args = args
        self.fp = fp
        # pz: a poison node (inf / nan that numpy produced from constants) is reachable.  Simplifications that would
        # drop such an operand (0 * x, x - x) keep the poison instead: in IEEE arithmetic 0 * inf and inf - inf are nan
        self.pz = op == "poison" or any(isinstance(a, Sym) and a.pz for a in args)
        _COUNTER[0] += 1
        self.nid = _COUNTER[0]

    def __hash__(self):
        return self.nid

    def __repr__(self):
        return "Sym<%s>" % show(self, 6)

    # numpy asks these of object-array elements
    def conjugate(self):
        return self

    conj = conjugate

    @property
    def real(self):
        # in a component whose partials are complex-step approximated, taking the real part discards the perturbation:
        # keep it visible (same value, but the complex-step model of the differentiator gives it derivative zero)
        return realpart(self) if CS_MODE[0] else self

    @property
    def imag(self):
        return ZERO

    def __float__(self):
        if self.op == "const":
            return float(self.args[0])
        raise TypeError("symbolic value cannot be converted to float: %r" % (self,))

    def __complex__(self):
        return complex(self.__float__())

    def __int__(self):
        if self.op == "const" and self.args[0].denominator == 1:
            return int(self.args[0])
        raise TypeError("symbolic value cannot be converted to int")

    def __index__(self):
        return self.__int__()

    # ------------------------------------------------------------------ arithmetic
    def __add__(self, o):
        o = _coerce(o)
        return NotImplemented if o is None else add(self, o)

    def __radd__(self, o):
        o = _coerce(o)
        return NotImplemented if o is None else add(o, self)

    def __sub__(self, o):
        o = _coerce(o)
        return NotImplemented if o is None else add(self, neg(o))

    def __rsub__(self, o):
        o = _coerce(o)
        return NotImplemented if o is None else add(o, neg(self))

    def __mul__(self, o):
        o = _coerce(o)
        return NotImplemented if o is None else mul(self, o)

    def __rmul__(self, o):
        o = _coerce(o)
        return NotImplemented if o is None else mul(o, self)

    def __truediv__(self, o):
        o = _coerce(o)
        return NotImplemented if o is None else div(self, o)

    def __rtruediv__(self, o):
        o = _coerce(o)
        return NotImplemented if o is None else div(o, self)

    def __neg__(self):
        return neg(self)

    def __pos__(self):
        return self

    def __abs__(self):
        return fabs(self)

    def __pow__(self, o):
        if isinstance(o, np.ndarray):
            return NotImplemented
        return power(self, o)

    def __rpow__(self, o):
        if isinstance(o, np.ndarray):
            return NotImplemented
        return power(S(o), self)

    # unary ufunc protocol used by numpy on object arrays
    def sqrt(self):
        return sqrt(self)

    def sin(self):
        return sin(self)

    def cos(self):
        return cos(self)

    def tan(self):
        return div(sin(self), cos(self))

    def arctan(self):
        return atan(self)

    def exp(self):
        return exp(self)

    def log(self):
        return log(self)

    def log10(self):
        return div(log(self), LN10)

    # ------------------------------------------------------------------ comparisons
    def __lt__(self, o):
        return _cmp("<", self, o)

    def __le__(self, o):
        return _cmp("<=", self, o)

    def __gt__(self, o):
        return _cmp("<", o, self)

    def __ge__(self, o):
        return _cmp("<=", o, self)

    def __eq__(self, o):
        if isinstance(o, np.ndarray):
            return NotImplemented
        try:
            return _cmp("==", self, o)
        except TypeError:
            return False

    def __ne__(self, o):
        if isinstance(o, np.ndarray):
            return NotImplemented
        try:
            return _cmp("!=", self, o)
        except TypeError:
            return True

    def __bool__(self):
        # numpy's nonzero / truthiness of a value: x != 0
        return bool(_cmp("!=", self, ZERO))


def _coerce(o):
    if isinstance(o, Sym):
        return o
    if isinstance(o, np.ndarray):
        if o.ndim == 0:
            return _coerce(o.item())
        return None
    if isinstance(o, (bool, np.bool_)):
        return S(int(o))
    if isinstance(o, (int, float, Fraction, np.integer, np.floating, complex, np.complexfloating)):
        return S(o)
    return None


def _mk(op, args, fp):
    key = (op,) + tuple(a.nid if isinstance(a, Sym) else a for a in args)
    n = _TABLE.get(key)
    if n is None:
        n = Sym(op, args, fp)
        _TABLE[key] = n
    return n


def const(q) -> Sym:
    q = Fraction(q)
    return _mk("const", (q,), (q.numerator % P) * _inv(q.denominator) % P)


def var(name: str) -> Sym:
    return _mk("var", (name,), _h("var", name))


ZERO = const(0)
ONE = const(1)
MONE = const(-1)
TWO = const(2)
HALF = const(Fraction(1, 2))
PI = var("PI")
LN10 = var("LN10")
LN2 = var("LN2")
_NAMED_NODES = {"PI": PI, "LN10": LN10, "LN2": LN2}


def _ulp_close(x: float, y: float, ulps=4) -> bool:
    if x == y:
        return True
    m = max(abs(x), abs(y))
    return abs(x - y) <= ulps * math.ulp(m)


def snap(x: float):
    """float -> Sym following DESIGN.md 2.4 (decimal literal semantics, pi/ln10 multiples)."""
    if x != x or x in (math.inf, -math.inf):
        raise SymDomainError("non-finite constant %r reached symbolic arithmetic" % (x,))
    if abs(x) <= 1e-15:
        # round-off residue of concrete trigonometry (cos(pi/2) = 6e-17) and regularisers (1e-50) are zero;
        # every behaviour-relevant threshold in the code base (1e-10, 1e-6, viscosities 3e-7) is far larger
        return ZERO
    if x == int(x) and abs(x) < 1e15:
        return const(int(x))
    fr = Fraction(x).limit_denominator(10**6)
    if fr != 0 and _ulp_close(float(fr), x):
        return const(fr)
    for name, (val, _, _) in NAMED.items():
        for t, form in ((x / val, "mul"), (x * val, "div")):
            q = Fraction(t).limit_denominator(10**4)
            if q != 0 and _ulp_close(float(q), t, 8):
                node = _NAMED_NODES[name]
                return mul(const(q), node) if form == "mul" else div(const(q), node)
    # decimal literal semantics: the shortest decimal that round-trips
    return const(Fraction(repr(float(x))))


def S(x) -> Sym:
    if isinstance(x, Sym):
        return x
    if isinstance(x, (bool, np.bool_)):
        return const(int(x))
    if isinstance(x, (int, np.integer)):
        return const(int(x))
    if isinstance(x, Fraction):
        return const(x)
    if isinstance(x, (complex, np.complexfloating)):
        if x.imag != 0:
            raise TypeError("complex constant with non-zero imaginary part")
        return snap(float(x.real))
    if isinstance(x, (float, np.floating)):
        return snap(float(x))
    if isinstance(x, np.ndarray) and x.ndim == 0:
        return S(x.item())
    raise TypeError("cannot lift %r to Sym" % (type(x),))


def is_const(a: Sym) -> bool:
    return a.op == "const"


def cval(a: Sym) -> Fraction:
    return a.args[0]


# ---------------------------------------------------------------------- arithmetic builders
def add(a: Sym, b: Sym) -> Sym:
    if a.op == "const":
        if b.op == "const":
            return const(a.args[0] + b.args[0])
        if a.args[0] == 0:
            return b
    elif b.op == "const" and b.args[0] == 0:
        return a
    if (a.op == "neg" and a.args[0] is b) or (b.op == "neg" and b.args[0] is a):
        return poison("(inf or nan) - (inf or nan)") if a.pz else ZERO
    if a.nid > b.nid:
        a, b = b, a
    return _mk("add", (a, b), (a.fp + b.fp) % P)


def neg(a: Sym) -> Sym:
    if a.op == "const":
        return const(-a.args[0])
    if a.op == "neg":
        return a.args[0]
    return _mk("neg", (a,), (-a.fp) % P)


def sub(a: Sym, b: Sym) -> Sym:
    return add(a, neg(b))


def mul(a: Sym, b: Sym) -> Sym:
    if a.op == "const":
        if b.op == "const":
            return const(a.args[0] * b.args[0])
        c = a.args[0]
        if c == 0:
            return poison("0 * (inf or nan)") if b.pz else ZERO
        if c == 1:
            return b
        if c == -1:
            return neg(b)
        if b.op == "mul" and b.args[0].op == "const":
            return mul(const(c * b.args[0].args[0]), b.args[1])
        if b.op == "mul" and b.args[1].op == "const":
            return mul(const(c * b.args[1].args[0]), b.args[0])
        if b.op == "neg":
            return mul(const(-c), b.args[0])
    elif b.op == "const":
        return mul(b, a)
    sign = False
    if a.op == "neg":
        a = a.args[0]
        sign = not sign
    if b.op == "neg":
        b = b.args[0]
        sign = not sign
    if a.op == "const" and a.args[0] < 0:
        a = const(-a.args[0])
        sign = not sign
        if a.args[0] == 1:
            return neg(b) if sign else b
    if SQRT_SQUARE_REWRITE and a is b and a.op == "sqrt":
        r = a.args[0]  # sqrt(x)^2 = x on the domain x >= 0
        return neg(r) if sign else r
    if a.nid > b.nid:
        a, b = b, a
    r = _mk("mul", (a, b), (a.fp * b.fp) % P)
    return neg(r) if sign else r


def div(a: Sym, b: Sym) -> Sym:
    if b.op == "const":
        if b.args[0] == 0:
            # numpy yields inf/nan (with a warning) and carries on; the code may discard the value (ViscousDrag with
            # k_lam = 0).  A poison node stands for it: using it in any obligation or evaluation is a domain error.
            return poison("division by the constant zero")
        return mul(a, const(1 / b.args[0]))
    if a.op == "const" and a.args[0] == 0:
        return poison("0 / (inf or nan)") if b.pz else ZERO
    if a is b:
        return poison("(inf or nan) / (inf or nan)") if a.pz else ONE
    sign = False
    if a.op == "neg":
        a = a.args[0]
        sign = not sign
    if b.op == "neg":
        b = b.args[0]
        sign = not sign
    r = _mk("div", (a, b), (a.fp * _inv(b.fp)) % P)
    return neg(r) if sign else r


_POISON = [0]


def poison(why: str) -> Sym:
    _POISON[0] += 1
    return _mk("poison", (why, _POISON[0]), _h("poison", _POISON[0]))


def powi(a: Sym, n: int) -> Sym:
    if n == 0:
        return ONE
    if n < 0:
        return div(ONE, powi(a, -n))
    r = None
    base = a
    while n:
        if n & 1:
            r = base if r is None else mul(r, base)
        n >>= 1
        if n:
            base = mul(base, base)
    return r


def _is_square(q: Fraction):
    if q < 0:
        return None
    n, d = q.numerator, q.denominator
    rn, rd = math.isqrt(n), math.isqrt(d)
    if rn * rn == n and rd * rd == d:
        return Fraction(rn, rd)
    return None


def sqrt(a: Sym) -> Sym:
    if a.op == "const":
        if a.args[0] < 0:
            return poison("sqrt of a negative constant")
        r = _is_square(a.args[0])
        if r is not None:
            return const(r)
    return _mk("sqrt", (a,), _h("sqrt", a.fp))


def _pi_multiple(a: Sym):
    """a == q*PI for a constant q -> q else None."""
    if a is PI:
        return Fraction(1)
    if a.op == "neg":
        q = _pi_multiple(a.args[0])
        return None if q is None else -q
    if a.op == "mul" and a.args[0].op == "const" and a.args[1] is PI:
        return a.args[0].args[0]
    if a.op == "mul" and a.args[1].op == "const" and a.args[0] is PI:
        return a.args[1].args[0]
    return None


_SIN_TABLE = {Fraction(0): 0, Fraction(1, 6): Fraction(1, 2), Fraction(1, 2): 1, Fraction(5, 6): Fraction(1, 2),
              Fraction(1): 0, Fraction(7, 6): Fraction(-1, 2), Fraction(3, 2): -1, Fraction(11, 6): Fraction(-1, 2)}
_COS_TABLE = {Fraction(0): 1, Fraction(1, 3): Fraction(1, 2), Fraction(1, 2): 0, Fraction(2, 3): Fraction(-1, 2),
              Fraction(1): -1, Fraction(4, 3): Fraction(-1, 2), Fraction(3, 2): 0, Fraction(5, 3): Fraction(1, 2)}


def sin(a: Sym) -> Sym:
    if a.op == "const" and a.args[0] == 0:
        return ZERO
    if a.op == "neg":
        return neg(sin(a.args[0]))
    if a.op == "atan":
        q = a.args[0]
        return div(q, sqrt(add(ONE, mul(q, q))))
    q = _pi_multiple(a)
    if q is not None and (q % 2) in _SIN_TABLE:
        return const(_SIN_TABLE[q % 2])
    return _mk("sin", (a,), _h("sin", a.fp))


def cos(a: Sym) -> Sym:
    if a.op == "const" and a.args[0] == 0:
        return ONE
    if a.op == "neg":
        return cos(a.args[0])
    if a.op == "atan":
        q = a.args[0]
        return div(ONE, sqrt(add(ONE, mul(q, q))))
    q = _pi_multiple(a)
    if q is not None and (q % 2) in _COS_TABLE:
        return const(_COS_TABLE[q % 2])
    return _mk("cos", (a,), _h("cos", a.fp))


def tan(a: Sym) -> Sym:
    return div(sin(a), cos(a))


def atan(a: Sym) -> Sym:
    if a.op == "const" and a.args[0] == 0:
        return ZERO
    if a.op == "neg":
        return neg(atan(a.args[0]))
    return _mk("atan", (a,), _h("atan", a.fp))


def exp(a: Sym) -> Sym:
    if a.op == "const" and a.args[0] == 0:
        return ONE
    return _mk("exp", (a,), _h("exp", a.fp))


def log(a: Sym) -> Sym:
    if a.op == "const":
        c = a.args[0]
        if c <= 0:
            return poison("log of a non-positive constant")  # numpy: -inf / nan with a warning; may be discarded by the caller
        if c == 1:
            return ZERO
        if c == 10:
            return LN10
        if c == 2:
            return LN2
    return _mk("log", (a,), _h("log", a.fp))


CS_MODE = [False]  # set by the harness while it runs a component whose partials are complex-step approximated


def realpart(a: Sym) -> Sym:
    if a.op in ("const", "re"):
        return a
    return _mk("re", (a,), a.fp)


def fabs(a: Sym) -> Sym:
    if a.op == "const":
        return const(abs(a.args[0]))
    if a.op == "neg":
        return fabs(a.args[0])
    if a.op in ("sqrt", "exp", "abs"):
        return a
    return _mk("abs", (a,), _h("abs", a.fp))


def powatom(a: Sym, frac: Fraction) -> Sym:
    """a ** frac for 0 < frac < 1 (not 1/2)."""
    return _mk("pow", (a, frac), _h("pow", a.fp, frac))


def power(a: Sym, p) -> Sym:
    if isinstance(p, Sym):
        if p.op != "const":
            if a.op == "const" and a.args[0] > 0:
                return exp(mul(p, log(a)))
            raise TypeError("symbolic exponent with symbolic base is not supported")
        p = p.args[0]
    if isinstance(p, (float, np.floating)):
        p = cval(snap(float(p))) if snap(float(p)).op == "const" else None
        if p is None:
            raise TypeError("irrational exponent")
    p = Fraction(p)
    if p.denominator == 1:
        return powi(a, int(p))
    if a.op == "const" and _is_square(a.args[0]) is None and a.args[0] <= 0:
        raise SymDomainError("fractional power of non-positive constant")
    fl = math.floor(p)
    fr = p - fl
    if fr == Fraction(1, 2):
        w = sqrt(a)
    else:
        w = powatom(a, fr)
    if fl == 0:
        return w
    return mul(powi(a, fl), w)


import os as _os
SQRT_SQUARE_REWRITE = _os.environ.get("SYMOAS_SQRT_REWRITE", "0") == "1"
UFN_EVAL = {}  # name -> callable(index tuple, [float args]) -> float   (numeric meaning, for validation only)


def ufn(name: str, index: tuple, args) -> Sym:
    """Application of an uninterpreted (separately verified) kernel: name[index](args)."""
    args = tuple(S(a) for a in args)
    return _mk("ufn", (name, tuple(index)) + args, _h("ufn", name, tuple(index), tuple(a.fp for a in args)))


def ite(c, a: Sym, b: Sym) -> Sym:
    a, b = S(a), S(b)
    if a is b:
        return a
    if isinstance(c, (bool, np.bool_)):
        return a if c else b
    c = c.norm()
    if c.op == "true":
        return a
    if c.op == "false":
        return b
    return _mk("ite", (c, a, b), _h("ite", c.key(), a.fp, b.fp))


# ---------------------------------------------------------------------- booleans
class SymBool:
    """Relation `e op 0` with op in <, <=, ==, != ; or and/or/not of such; or a constant."""

    __slots__ = ("op", "args", "_key")

    def __init__(self, op, args):
        self.op = op
        self.args = args
        self._key = None

    def key(self):
        if self._key is None:
            self._key = (self.op,) + tuple(
                a.nid if isinstance(a, Sym) else a.key() for a in self.args
            )
        return self._key

    # hashable so that it can sit in Sym.args
    @property
    def nid(self):
        return self.key()

    def norm(self):
        if self.op in ("<", "<=", "==", "!=") and self.args[0].op == "const":
            v = self.args[0].args[0]
            r = {"<": v < 0, "<=": v <= 0, "==": v == 0, "!=": v != 0}[self.op]
            return TRUE if r else FALSE
        return self

    def __invert__(self):
        return bnot(self)

    def __and__(self, o):
        return band(self, _b(o))

    __rand__ = __and__

    def __or__(self, o):
        return bor(self, _b(o))

    __ror__ = __or__

    def __bool__(self):
        n = self.norm()
        if n.op == "true":
            return True
        if n.op == "false":
            return False
        from . import execute

        return execute.decide(n)

    def __repr__(self):
        return "SymBool<%s>" % showb(self)


TRUE = SymBool("true", ())
FALSE = SymBool("false", ())


def _b(o):
    if isinstance(o, SymBool):
        return o
    return TRUE if o else FALSE


def _cmp(op, a, b):
    a, b = _coerce(a), _coerce(b)
    if a is None or b is None:
        raise TypeError("unsupported comparison operand")
    return SymBool(op, (sub(a, b),)).norm()


def lt(a, b):
    return _cmp("<", S(a), S(b))


def le(a, b):
    return _cmp("<=", S(a), S(b))


def gt(a, b):
    return _cmp("<", S(b), S(a))


def ge(a, b):
    return _cmp("<=", S(b), S(a))


def eq(a, b):
    return _cmp("==", S(a), S(b))


def ne(a, b):
    return _cmp("!=", S(a), S(b))


def bnot(c: SymBool) -> SymBool:
    c = c.norm()
    if c.op == "true":
        return FALSE
    if c.op == "false":
        return TRUE
    if c.op == "<":  # e < 0  ->  -e <= 0
        return SymBool("<=", (neg(c.args[0]),))
    if c.op == "<=":
        return SymBool("<", (neg(c.args[0]),))
    if c.op == "==":
        return SymBool("!=", c.args)
    if c.op == "!=":
        return SymBool("==", c.args)
    if c.op == "not":
        return c.args[0]
    return SymBool("not", (c,))


def band(*cs) -> SymBool:
    out = []
    for c in cs:
        c = _b(c).norm()
        if c.op == "false":
            return FALSE
        if c.op == "true":
            continue
        out.append(c)
    if not out:
        return TRUE
    if len(out) == 1:
        return out[0]
    return SymBool("and", tuple(out))


def bor(*cs) -> SymBool:
    out = []
    for c in cs:
        c = _b(c).norm()
        if c.op == "true":
            return TRUE
        if c.op == "false":
            continue
        out.append(c)
    if not out:
        return FALSE
    if len(out) == 1:
        return out[0]
    return SymBool("or", tuple(out))


def bool_syms(c: SymBool):
    """Sym roots referenced by a SymBool."""
    out = []
    stack = [c]
    while stack:
        x = stack.pop()
        for a in x.args:
            if isinstance(a, Sym):
                out.append(a)
            else:
                stack.append(a)
    return out


# ---------------------------------------------------------------------- traversal helpers
def reachable(roots):
    """All Sym nodes reachable from roots (through ite conditions too), sorted topologically."""
    seen = {}
    stack = [r for r in roots if isinstance(r, Sym)]
    while stack:
        n = stack.pop()
        if n.nid in seen:
            continue
        seen[n.nid] = n
        for a in n.args:
            if isinstance(a, Sym):
                if a.nid not in seen:
                    stack.append(a)
            elif isinstance(a, SymBool):
                stack.extend(s for s in bool_syms(a) if s.nid not in seen)
    return [seen[k] for k in sorted(seen)]


def variables(roots):
    return [n for n in reachable(roots) if n.op == "var"]


def show(n: Sym, depth=4) -> str:
    if n.op == "const":
        return str(n.args[0])
    if n.op == "var":
        return n.args[0]
    if depth <= 0:
        return "#%d" % n.nid
    if n.op in ("add", "mul", "div"):
        s = {"add": "+", "mul": "*", "div": "/"}[n.op]
        return "(%s %s %s)" % (show(n.args[0], depth - 1), s, show(n.args[1], depth - 1))
    if n.op == "neg":
        return "-%s" % show(n.args[0], depth - 1)
    if n.op == "pow":
        return "pow(%s,%s)" % (show(n.args[0], depth - 1), n.args[1])
    if n.op == "ite":
        return "ite(%s,%s,%s)" % (showb(n.args[0]), show(n.args[1], depth - 1), show(n.args[2], depth - 1))
    if n.op == "ufn":
        return "%s%s(%s)" % (n.args[0], list(n.args[1]), ",".join(show(a, depth - 1) for a in n.args[2:]))
    return "%s(%s)" % (n.op, show(n.args[0], depth - 1))


def showb(c: SymBool) -> str:
    if c.op in ("true", "false"):
        return c.op
    if c.op in ("<", "<=", "==", "!="):
        return "%s %s 0" % (show(c.args[0], 3), c.op)
    if c.op == "not":
        return "!(%s)" % showb(c.args[0])
    return "(" + (" %s " % c.op).join(showb(a) for a in c.args) + ")"


# ---------------------------------------------------------------------- numeric evaluation
def evalf(roots, env: dict, cplx=False):
    """Evaluate nodes in double precision. env: var name -> float. Returns dict nid -> value."""
    val = {}
    msqrt = np.sqrt if not cplx else np.lib.scimath.sqrt
    for n in reachable(roots):
        op = n.op
        if op == "const":
            v = float(n.args[0])
        elif op == "var":
            name = n.args[0]
            if name in NAMED and name not in env:
                v = NAMED[name][0]
            else:
                v = env[name]
        elif op == "add":
            v = val[n.args[0].nid] + val[n.args[1].nid]
        elif op == "mul":
            v = val[n.args[0].nid] * val[n.args[1].nid]
        elif op == "div":
            d = val[n.args[1].nid]
            v = val[n.args[0].nid] / d if d != 0 else math.nan
        elif op == "neg":
            v = -val[n.args[0].nid]
        elif op == "sqrt":
            a = val[n.args[0].nid]
            v = math.sqrt(a) if (not cplx and a >= 0) else (msqrt(a) if cplx else math.nan)
        elif op == "sin":
            v = np.sin(val[n.args[0].nid])
        elif op == "cos":
            v = np.cos(val[n.args[0].nid])
        elif op == "atan":
            v = np.arctan(val[n.args[0].nid])
        elif op == "exp":
            try:
                v = np.exp(val[n.args[0].nid])
            except OverflowError:
                v = math.inf
        elif op == "log":
            a = val[n.args[0].nid]
            v = np.log(a) if (cplx or a > 0) else math.nan
        elif op == "abs":
            v = abs(val[n.args[0].nid])
        elif op == "re":
            v = val[n.args[0].nid]
            v = v.real if isinstance(v, complex) else v
        elif op == "pow":
            a = val[n.args[0].nid]
            v = a ** float(n.args[1]) if (cplx or a > 0) else math.nan
        elif op == "ite":
            c = evalb(n.args[0], val)
            v = val[n.args[1].nid] if c else val[n.args[2].nid]
        elif op == "ufn":
            v = UFN_EVAL[n.args[0]](n.args[1], [val[a.nid] for a in n.args[2:]])
        elif op == "poison":
            v = math.nan
        else:
            raise ValueError(op)
        val[n.nid] = v
    return val


def evalb(c: SymBool, val) -> bool:
    if c.op == "true":
        return True
    if c.op == "false":
        return False
    if c.op in ("<", "<=", "==", "!="):
        v = val[c.args[0].nid]
        v = v.real if isinstance(v, complex) else v
        return {"<": v < 0, "<=": v <= 0, "==": v == 0, "!=": v != 0}[c.op]
    if c.op == "not":
        return not evalb(c.args[0], val)
    if c.op == "and":
        return all(evalb(a, val) for a in c.args)
    if c.op == "or":
        return any(evalb(a, val) for a in c.args)
    raise ValueError(c.op)


def evalf1(root: Sym, env: dict):
    return evalf([root], env)[root.nid]


def evalb1(c: SymBool, env: dict) -> bool:
    val = evalf(bool_syms(c), env)
    return evalb(c, val)


# ---------------------------------------------------------------------- substitution
def substitute(roots, mapping: dict):
    """Rebuild nodes with var name -> Sym replacements. Returns dict nid -> new node."""
    new = {}

    def sb(c):
        if c.op in ("true", "false"):
            return c
        if c.op in ("<", "<=", "==", "!="):
            return SymBool(c.op, (new[c.args[0].nid],)).norm()
        if c.op == "not":
            return bnot(sb(c.args[0]))
        if c.op == "and":
            return band(*[sb(a) for a in c.args])
        return bor(*[sb(a) for a in c.args])

    for n in reachable(roots):
        op = n.op
        if op == "const":
            r = n
        elif op == "var":
            r = mapping.get(n.args[0], n)
            r = S(r)
        elif op == "add":
            r = add(new[n.args[0].nid], new[n.args[1].nid])
        elif op == "mul":
            r = mul(new[n.args[0].nid], new[n.args[1].nid])
        elif op == "div":
            r = div(new[n.args[0].nid], new[n.args[1].nid])
        elif op == "neg":
            r = neg(new[n.args[0].nid])
        elif op == "pow":
            r = power(new[n.args[0].nid], n.args[1])
        elif op == "ite":
            r = ite(sb(n.args[0]), new[n.args[1].nid], new[n.args[2].nid])
        elif op == "ufn":
            r = ufn(n.args[0], n.args[1], [new[a.nid] for a in n.args[2:]])
        else:
            r = {"sqrt": sqrt, "sin": sin, "cos": cos, "atan": atan, "exp": exp, "log": log, "abs": fabs, "re": realpart}[op](
                new[n.args[0].nid]
            )
        new[n.nid] = r
    return new


def subst1(root: Sym, mapping: dict) -> Sym:
    return substitute([root], mapping)[root.nid]


def substb(c: SymBool, mapping: dict) -> SymBool:
    new = substitute(bool_syms(c), mapping)

    def sb(c):
        if c.op in ("true", "false"):
            return c
        if c.op in ("<", "<=", "==", "!="):
            return SymBool(c.op, (new[c.args[0].nid],)).norm()
        if c.op == "not":
            return bnot(sb(c.args[0]))
        if c.op == "and":
            return band(*[sb(a) for a in c.args])
        return bor(*[sb(a) for a in c.args])

    return sb(c)


# ---------------------------------------------------------------------- array helpers
def symarray(name: str, shape) -> np.ndarray:
    """Object array of fresh variables name[i,j,...]."""
    shape = tuple(int(s) for s in (shape if isinstance(shape, (tuple, list)) else (shape,)))
    out = np.empty(shape, dtype=object)
    if shape == ():
        out[()] = var(name)
        return out
    for idx in np.ndindex(*shape):
        out[idx] = var("%s[%s]" % (name, ",".join(map(str, idx))))
    return out


def lift(a) -> np.ndarray:
    """Numeric array -> object array of Sym constants."""
    a = np.asarray(a)
    out = np.empty(a.shape, dtype=object)
    if a.dtype == object:
        for idx in np.ndindex(*a.shape):
            out[idx] = S(a[idx])
        return out
    flat = a.ravel()
    of = out.reshape(-1) if out.size else out
    for i in range(flat.size):
        of[i] = S(flat[i])
    return out


def symify(a):
    """Ensure every element of an object array is a Sym (ints/floats are lifted)."""
    a = np.asarray(a, dtype=object)
    out = np.empty(a.shape, dtype=object)
    for idx in np.ndindex(*a.shape):
        out[idx] = S(a[idx])
    return out


def rawlog(a: Sym) -> Sym:
    """log node without constant folding to named constants (so that monotonicity axioms can relate it)."""
    return _mk("log", (a,), _h("log", a.fp))
