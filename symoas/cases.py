"""Concrete surface dictionaries of bounded size used to set up the real components."""
from __future__ import annotations

import copy
import warnings

import numpy as np


def rect_mesh(nx, ny, symmetry, right=False, span=10.0, chord=2.0, seed=None, jitter=0.0):
    """ny = number of spanwise nodes of the *modelled* mesh."""
    from openaerostruct.geometry.utils import generate_mesh

    num_y = 2 * ny - 1 if symmetry else ny
    with warnings.catch_warnings():
        warnings.simplefilter("ignore")
        mesh = generate_mesh({"num_y": num_y, "num_x": nx, "wing_type": "rect", "symmetry": symmetry,
                              "span": span, "root_chord": chord})
    mesh = np.array(mesh, dtype=float)
    if jitter:
        rng = np.random.default_rng(seed or 0)
        # dyadic offsets: float arithmetic on them is exact, so the concrete option data mean the same
        # rationals to numpy and to the solver
        mesh[:, :, 0] += np.round(jitter * rng.random(mesh.shape[:2]) * 64) / 64
        mesh[:, :, 2] += np.round(jitter * rng.random(mesh.shape[:2]) * 64) / 64
    if right:
        mesh = mesh[:, ::-1, :].copy()
        mesh[:, :, 1] *= -1.0
    return mesh


BASE = {
    "name": "wing",
    "symmetry": True,
    "groundplane": False,
    "S_ref_type": "wetted",
    "CL0": 0.1,
    "CD0": 0.1,
    "k_lam": 0.05,
    "t_over_c_cp": np.array([0.15]),
    "c_max_t": 0.303,
    "with_viscous": True,
    "with_wave": False,
    "fem_model_type": "tube",
    "E": 70.0e9,
    "G": 30.0e9,
    "yield": 500.0e6 / 2.5,
    "mrho": 3.0e3,
    "fem_origin": 0.35,
    "wing_weight_ratio": 2.0,
    "struct_weight_relief": False,
    "distributed_fuel_weight": False,
    "Wf_reserve": 10000.0,
    "exact_failure_constraint": False,
}


def surface(nx=2, ny=2, symmetry=True, right=False, name="wing", **over):
    s = copy.deepcopy(BASE)
    s["name"] = name
    s["symmetry"] = symmetry
    # from_half: a non-symmetric surface whose mesh is one half wing (any ny), e.g. an explicitly modelled wing half
    from_half = over.pop("from_half", False)
    s["mesh"] = rect_mesh(nx, ny, True if from_half else symmetry, right=right, jitter=over.pop("jitter", 0.0))
    s["num_x"], s["num_y"] = nx, ny
    if over.get("fem_model_type") == "wingbox":
        s.update(wingbox_keys())
    s.update(over)
    return s


def wingbox_keys():
    upper_x = np.array([0.1, 0.2, 0.3, 0.4, 0.5, 0.6], dtype="complex128")
    lower_x = np.array([0.1, 0.2, 0.3, 0.4, 0.5, 0.6], dtype="complex128")
    upper_y = np.array([0.0447, 0.0570, 0.0619, 0.0625, 0.0596, 0.0534], dtype="complex128")
    lower_y = np.array([-0.0447, -0.0570, -0.0619, -0.0625, -0.0596, -0.0534], dtype="complex128")
    return {
        "fem_model_type": "wingbox",
        "data_x_upper": upper_x,
        "data_x_lower": lower_x,
        "data_y_upper": upper_y,
        "data_y_lower": lower_y,
        "original_wingbox_airfoil_t_over_c": 0.12,
        "strength_factor_for_upper_skin": 1.0,
        "spar_thickness_cp": np.array([0.004, 0.005]),
        "skin_thickness_cp": np.array([0.005, 0.01]),
        "twist_cp": np.array([4.0, 5.0]),
        "fuel_density": 803.0,
    }


def surface_from_mesh(mesh, symmetry, name="wing", **over):
    """surface dictionary around a given concrete mesh (any ny)"""
    s = copy.deepcopy(BASE)
    s["name"] = name
    s["symmetry"] = symmetry
    s["mesh"] = np.array(mesh, dtype=float)
    s["num_x"], s["num_y"] = mesh.shape[0], mesh.shape[1]
    s.update(over)
    return s
