"""symoas - symbolic execution of OpenAeroStruct's real numpy code and SMT checking.

See /verif/DESIGN.md section 2.
"""
