"""Forward-mode symbolic differentiation of the expression DAG (DESIGN.md 2.7).

This is the oracle of C01 ("true derivative"); it is validated on every run against
real-valued finite differences of the real component (encoder validation).
`ite` is differentiated branch-wise (away from the switching surface); `abs` gives sign.
"""
from .sym import (
    ONE, ZERO, TWO, Sym, add, const, cos, div, exp, ite, mul, neg, reachable, sin, SymBool, power, sqrt, S, ufn,
)


def diff_all(roots, wrt: Sym, nodes=None, complex_step=False):
    """d(root)/d(wrt) for every root; wrt is a var node. Returns list aligned with roots.
    complex_step=True: what a complex-step approximation of the same code reports, Im f(x + ih) / h for h -> 0: identical
    to the derivative except that |u| of a perturbed u is a real magnitude and contributes nothing."""
    d = {}
    target = wrt.nid
    if nodes is None:
        nodes = reachable(roots)
    # quick exit: which nodes depend on wrt at all
    dep = set()
    for n in nodes:
        if n.nid == target:
            dep.add(n.nid)
        elif any(isinstance(a, Sym) and a.nid in dep for a in n.args):
            dep.add(n.nid)
    for n in nodes:
        if n.nid not in dep:
            continue
        op = n.op
        if op == "var":
            r = ONE
        elif op == "add":
            a, b = n.args
            r = add(d.get(a.nid, ZERO), d.get(b.nid, ZERO))
        elif op == "neg":
            r = neg(d.get(n.args[0].nid, ZERO))
        elif op == "mul":
            a, b = n.args
            r = add(mul(d.get(a.nid, ZERO), b), mul(a, d.get(b.nid, ZERO)))
        elif op == "div":
            a, b = n.args
            da, db = d.get(a.nid, ZERO), d.get(b.nid, ZERO)
            # da/b - a*db/b^2
            r = add(div(da, b), neg(div(mul(a, db), mul(b, b))))
        elif op == "sqrt":
            r = div(d[n.args[0].nid], mul(TWO, n))
        elif op == "sin":
            r = mul(cos(n.args[0]), d[n.args[0].nid])
        elif op == "cos":
            r = neg(mul(sin(n.args[0]), d[n.args[0].nid]))
        elif op == "atan":
            q = n.args[0]
            r = div(d[q.nid], add(ONE, mul(q, q)))
        elif op == "exp":
            r = mul(n, d[n.args[0].nid])
        elif op == "log":
            r = div(d[n.args[0].nid], n.args[0])
        elif op == "pow":
            a, p = n.args
            # d a^p = p * a^p / a * da   (shares the atom)
            r = mul(mul(const(p), div(n, a)), d[a.nid])
        elif op == "abs":
            a = n.args[0]
            r = ZERO if complex_step else mul(div(n, a), d[a.nid])
        elif op == "re":
            r = ZERO if complex_step else d[n.args[0].nid]
        elif op == "ufn":
            name, index = n.args[0], n.args[1]
            fargs = n.args[2:]
            r = ZERO
            for c, a in enumerate(fargs):
                da = d.get(a.nid)
                if da is not None:
                    r = add(r, mul(ufn(name + "'", index + (c,), fargs), da))
        elif op == "ite":
            c, a, b = n.args
            r = ite(c, d.get(a.nid, ZERO), d.get(b.nid, ZERO))
        else:
            raise ValueError(op)
        d[n.nid] = r
    return [d.get(r.nid, ZERO) if isinstance(r, Sym) else ZERO for r in roots]
