"""C20 - invalid set-ups are rejected loudly; valid ones give finite results; user arrays are never modified (reduced)."""
from __future__ import annotations

import ast
import concurrent.futures as cf
import inspect
import json
import os
import re
import subprocess
import sys
import time

import numpy as np

from props import c01
from symoas import cases as K
from symoas import execute, model, oblig, partials, report
from symoas.npproxy import symbolic_numpy
from symoas.model import SymComp, num_inputs, run_obligations
from symoas.sym import S, ZERO, ONE, Sym, bor, eq, evalf, ge, gt, le, lt, ne, reachable, symarray, var

PID = "C20"
HERE = os.path.dirname(os.path.abspath(__file__))
CONTRACTS = os.path.join(HERE, "c20_contracts.py")
HERE_ROOT = os.path.dirname(HERE)


# class-level mutable containers of the library (found by the ast scan below) and the CrossHair contract that decides that
# instances do not communicate through them
CLASS_STATE_CONTRACTS = {"AeroBuilder.def_options": "builders_do_not_share_options"}


# ------------------------------------------------------------------------------------- CrossHair
def contract_functions():
    src = open(CONTRACTS).read()
    tree = ast.parse(src)
    out = []
    for n in tree.body:
        if isinstance(n, ast.FunctionDef) and ast.get_docstring(n) and "post:" in ast.get_docstring(n):
            out.append((n.name, n.lineno + 1))
    return out


def run_crosshair(name, line, per_cond):
    env = dict(os.environ, PYTHONPATH="%s:%s" % (os.environ.get("OAS_REPO", "/repo"), HERE_ROOT), OPENMDAO_REPORTS="0")
    exe = os.path.join(os.path.dirname(sys.executable), "crosshair")
    t0 = time.time()
    try:
        p = subprocess.run([exe, "check", "--report_all", "--per_condition_timeout", str(per_cond), "%s:%d" % (CONTRACTS, line)],
                           capture_output=True, text=True, timeout=per_cond * 3 + 60, env=env, cwd=HERE_ROOT)
        out = (p.stdout + p.stderr).strip()
    except subprocess.TimeoutExpired:
        out = "timeout"
    verdict = "inconclusive"
    if "Confirmed over all paths" in out:
        verdict = "confirmed"
    elif "error:" in out and ("false when calling" in out or "raised" in out or "Postcondition" in out or "when calling" in out):
        verdict = "counterexample"
    elif "Not confirmed" in out or "Unable to meet precondition" in out:
        verdict = "inconclusive"
    return {"name": name, "verdict": verdict, "output": out[-600:], "time": round(time.time() - t0, 1)}


def crosshair_part(rep, tier):
    per_cond = 30 if tier == "quick" else 120
    fns = contract_functions()
    with cf.ThreadPoolExecutor(max_workers=8) as ex:
        res = list(ex.map(lambda f: run_crosshair(f[0], f[1], per_cond), fns))
    conf = inc = 0
    for r in res:
        twin = r["name"].endswith("_twin")
        rep.counts["obligations"] += 1
        rep.counts["nontrivial"] += 1
        if twin:
            rep.twins["expected_sat"] += 1
            if r["verdict"] == "counterexample":
                rep.twins["got_sat"] += 1
                rep.counts["discharged"] += 1
            else:
                rep.counts["inconclusive"] += 1
                rep.inconclusive.append({"group": "crosshair", "id": r["name"], "detail": "twin not refuted: " + r["output"][-150:]})
        else:
            if r["verdict"] == "confirmed":
                rep.counts["discharged"] += 1
                conf += 1
            elif r["verdict"] == "counterexample":
                rep.counts["candidates"] += 1
                # replay: CrossHair prints the concrete call; run it on the real code
                m = re.search(r"when calling (\w+\(.*?\))(?: \(which|\s*$)", r["output"], re.M)
                call = m.group(1) if m else None
                ok = None
                if call:
                    try:
                        import importlib

                        mod = importlib.import_module("props.c20_contracts")
                        ok = eval(call, vars(mod))
                    except SyntaxError:
                        ok, call = True, "%s (unparsable CrossHair call text)" % call
                    except Exception as e:
                        ok = "raised %r" % (e,)
                if ok is True or call is None:
                    rep.not_reproduced.append({"id": r["name"], "why": "CrossHair counterexample %s does not reproduce" % call})
                else:
                    if r["name"] in CLASS_STATE_CONTRACTS.values():
                        fam = "hidden shared state between independent set-ups: %s" % r["name"]
                        what = "(a later set-up without options must have the documented defaults)"
                    else:
                        fam = "invalid set-up accepted: %s" % r["name"]
                        what = "(expected the documented exception/warning)"
                    rep.violation(fam, "%s -> %r %s" % (call, ok, what), {"call": call, "contract": r["name"], "crosshair": True})
            else:
                rep.counts["inconclusive"] += 1
                inc += 1
                rep.inconclusive.append({"group": "crosshair", "id": r["name"], "detail": r["output"][-150:]})
        rep.samples.append({"group": "crosshair", "obligation": r["name"], "verdict": r["verdict"], "solver_time_s": r["time"], "output_tail": r["output"][-200:]})
    rep.groups.append({"case": "CrossHair contracts on the invalid-input domain", "functions": len(fns), "confirmed": conf, "inconclusive": inc})
    rep.log("CrossHair: %d contracts (%d twins): confirmed=%d inconclusive=%d twins refuted=%d/%d" % (
        len(fns), sum(1 for f in fns if f[0].endswith("_twin")), conf, inc, rep.twins["got_sat"], rep.twins["expected_sat"]))


def keys_part(rep):
    """unknown dictionary keys produce a warning: the two key loops translated from the AST to SMT over strings"""
    import warnings

    from openaerostruct.geometry import utils as gu
    from openaerostruct.utils.check_surface_dict import check_surface_dict_keys
    from props import c20_keys

    rep.encode(check_surface_dict_keys, gu.generate_mesh, gu.get_default_geo_dict)
    # documented keys: the mesh-dict defaults, and the surface keys listed in the user documentation page
    mesh_doc = list(gu.get_default_geo_dict().keys())
    surf_doc = documented_surface_keys()
    for fn, doc, label in ((check_surface_dict_keys, surf_doc, "surface dictionary"), (gu.generate_mesh, mesh_doc, "mesh dictionary")):
        extra_env = {"surf_dict": mesh_doc, "user_defined_keys": []} if fn is gu.generate_mesh else {}
        for oid, verdict, detail, text, t in c20_keys.check_unknown_keys_warn(fn, doc, extra_env=extra_env):
            rep.counts["obligations"] += 1
            rep.counts["nontrivial"] += 1
            rep.counts["solver_time_s"] += t
            if verdict == "discharged":
                rep.counts["discharged"] += 1
            elif verdict == "candidate":
                rep.counts["candidates"] += 1
                # replay on the real function
                key = detail
                # (the call is made twice: a set-up that is repeated, or made by a second independent Problem of the same
                #  process, must warn again; the smaller count is what is judged)
                counts = []
                for rep_i in range(2):
                    with warnings.catch_warnings(record=True) as w:
                        warnings.simplefilter("always")
                        try:
                            if fn is check_surface_dict_keys:
                                fn({key: 1})
                            else:
                                fn({"num_y": 5, "num_x": 2, "wing_type": "rect", "symmetry": True, key: 1.0})
                        except Exception:
                            pass
                    counts.append(sum(1 for x in w if issubclass(x.category, RuntimeWarning)))
                nrw = min(counts) if key not in doc else max(counts)
                isdoc = key in doc
                bad = (nrw == 0 and not isdoc) or (nrw > 0 and isdoc) or "category" in oid
                if bad:
                    rep.violation("%s keys: %s" % (label, oid.split(": ", 1)[1]), "key %r: %d RuntimeWarning(s) (documented key: %s)" % (key, nrw, isdoc),
                                  {"key": key, "label": label, "keys": True})
                else:
                    rep.not_reproduced.append({"id": oid, "why": "key %r behaves as documented on the real function" % key})
            else:
                rep.counts["inconclusive"] += 1
                rep.inconclusive.append({"group": "key loops", "id": oid, "detail": detail})
            if text and len(rep.samples) < 14:
                rep.samples.append({"group": "key loops", "obligation": oid, "verdict": verdict, "smtlib": text[:1500]})
    # validation of the translation (and of the environment it was given: which names hold which keys when the loop runs):
    # the real functions are called on probe keys and must behave as the decided formula says - an unknown key warns, a
    # documented one does not
    for fn, doc, label in ((check_surface_dict_keys, surf_doc, "surface dictionary"), (gu.generate_mesh, mesh_doc, "mesh dictionary")):
        probes = ["zz", "spn", doc[0] + "_x", doc[-1] + "2"] + [doc[0], doc[len(doc) // 2]]
        for key in probes:
            rep.counts["obligations"] += 1
            with warnings.catch_warnings(record=True) as w:
                warnings.simplefilter("always")
                try:
                    if fn is check_surface_dict_keys:
                        fn({key: 1})
                    else:
                        base = {"num_y": 5, "num_x": 2, "wing_type": "rect", "symmetry": True}
                        base[key] = base.get(key, 1.0)
                        fn(base)
                except Exception:
                    pass
            named = sum(1 for x in w if issubclass(x.category, RuntimeWarning) and ("`%s`" % key in str(x.message) or "'%s'" % key in str(x.message) or key in str(x.message).split()))
            isdoc = key in doc
            if (named == 0 and not isdoc) or (named > 0 and isdoc):
                rep.counts["candidates"] += 1
                rep.violation("%s keys: the real function agrees with the decided key-loop formula on probe keys" % label,
                              "key %r: %d RuntimeWarning(s) naming it (documented key: %s)" % (key, named, isdoc), {"key": key, "label": label, "keys": True, "probe": True})
            else:
                rep.counts["discharged"] += 1
    rep.groups.append({"case": "key-validation loops (AST -> SMT strings)", "documented_surface_keys": len(surf_doc), "documented_mesh_keys": len(mesh_doc)})
    rep.log("key loops translated and checked (%d surface keys, %d mesh keys documented)" % (len(surf_doc), len(mesh_doc)))


def documented_surface_keys():
    """keys named in the user reference (docs/user_reference/mesh_surface_dict.rst), independent of the checking code"""
    import openaerostruct

    path = os.path.join(os.path.dirname(openaerostruct.__file__), "docs", "user_reference", "mesh_surface_dict.rst")
    keys = set()
    tables = 0
    if os.path.exists(path):
        for line in open(path):
            m = re.match(r"\s*\*\s+-\s+``?([A-Za-z_0-9]+)``?\s*$", line) or re.match(r"\s*\*\s+-\s+([A-Za-z_][A-Za-z_0-9]*)\s*$", line)
            if m:
                if m.group(1) == "Key":
                    tables += 1  # the first table documents the mesh dictionary, the following ones the surface dictionary
                elif tables >= 2:
                    keys.add(m.group(1))
    return sorted(keys)


# ------------------------------------------------------------------------------------- finite outputs
def domain_obligations(paths, assume, label, what=("outputs",)):
    """every divisor != 0, every sqrt argument >= 0, every log argument > 0 on admissible inputs"""
    obs = []
    for pi, p in enumerate(paths):
        roots = []
        for w in what:
            for arr in p.result[w].values():
                roots += [S(x) for x in np.asarray(arr, dtype=object).ravel()]
        pa = list(assume) + p.conds
        seen = set()
        for n in reachable(roots):
            if n.nid in seen:
                continue
            seen.add(n.nid)
            if n.op == "poison":
                obs.append(oblig.Ob("%s p%d poison #%d" % (label, pi, n.nid), cond=eq(ZERO, ZERO), assume=pa,
                                    meta={"family": "%s: a value obtained by %s reaches an output" % (label, n.args[0])}))
            elif n.op == "div":
                obs.append(oblig.Ob("%s p%d divisor #%d != 0" % (label, pi, n.nid), cond=eq(n.args[1], 0), assume=pa,
                                    meta={"family": "%s: no division by zero on admissible inputs" % label, "node": n}))
            elif n.op == "sqrt":
                obs.append(oblig.Ob("%s p%d sqrt argument #%d >= 0" % (label, pi, n.nid), cond=lt(n.args[0], 0), assume=pa,
                                    meta={"family": "%s: no square root of a negative number on admissible inputs" % label, "node": n}))
            elif n.op in ("log", "pow"):
                obs.append(oblig.Ob("%s p%d %s argument #%d > 0" % (label, pi, n.op, n.nid), cond=le(n.args[0], 0), assume=pa,
                                    meta={"family": "%s: no logarithm / fractional power of a non-positive number on admissible inputs" % label, "node": n}))
    return obs


def finite_part(rep, tier, timeout):
    specs = []
    s = K.surface(2, 3, True)

    def add(label, modname, cls, kw, adm, fixed=None):
        specs.append((label, modname, cls, kw, adm, fixed))

    pos_all = lambda ins, names: [gt(x, 0) for n in names for x in ins[n].ravel()]
    add("Coeffs", "aerodynamics.coeffs", "Coeffs", {}, lambda ins: pos_all(ins, ["rho", "v", "S_ref"]))
    add("LiftCoeff2D", "aerodynamics.lift_coeff_2D", "LiftCoeff2D", {"surface": s}, lambda ins: pos_all(ins, ["rho", "v", "widths", "chords"]))
    add("ViscousDrag", "aerodynamics.viscous_drag", "ViscousDrag", {"surface": dict(s, with_viscous=True), "with_viscous": True},
        lambda ins: pos_all(ins, ["widths", "lengths", "lengths_spanwise", "S_ref", "t_over_c"]) + [gt(ins["re"][0] * S(0.05) * ins["lengths"][j], 1000) for j in range(3)] +
        [gt(ins["Mach_number"][0], 0), lt(ins["Mach_number"][0], S(0.95))])
    add("WaveDrag", "aerodynamics.wave_drag", "WaveDrag", {"surface": dict(s, with_wave=True), "with_wave": True},
        lambda ins: pos_all(ins, ["widths", "lengths_spanwise", "chords", "t_over_c"]) + [gt(ins["Mach_number"][0], 0), lt(ins["Mach_number"][0], 1)])
    add("Equilibrium", "functionals.equilibrium", "Equilibrium", {"surfaces": [s]}, lambda ins: pos_all(ins, [n for n in ins if n != "CL"]))
    add("BreguetRange", "functionals.breguet_range", "BreguetRange", {"surfaces": [s]}, lambda ins: pos_all(ins, list(ins)))
    add("TotalLiftDrag", "functionals.total_lift_drag", "TotalLiftDrag", {"surfaces": [s]}, lambda ins: pos_all(ins, ["S_ref_total", "rho", "v", "wing_S_ref"]))
    add("MomentCoefficient", "functionals.moment_coefficient", "MomentCoefficient", {"surfaces": [s]},
        lambda ins: pos_all(ins, ["rho", "v", "S_ref_total", "wing_S_ref", "wing_widths", "wing_chords"]))
    add("StructuralCG", "structures.structural_cg", "StructuralCG", {"surface": s}, lambda ins: pos_all(ins, ["structural_mass"]))
    add("ReynoldsComp", "common.reynolds_comp", "ReynoldsComp", {}, lambda ins: pos_all(ins, ["mu"]))
    add("LocalStiff", "structures.local_stiff", "LocalStiff", {"surface": s}, lambda ins: pos_all(ins, ["element_lengths"]))
    add("SectionPropertiesTube", "structures.section_properties_tube", "SectionPropertiesTube", {"surface": s}, lambda ins: [])
    add("FailureKS", "structures.failure_ks", "FailureKS", {"surface": K.surface(2, 2, True)}, lambda ins: [ge(x, 0) for x in ins["vonmises"].ravel()])
    sp = dict(s, n_point_masses=1)
    add("ComputePointMassLoads", "structures.compute_point_mass_loads", "ComputePointMassLoads", {"surface": sp}, lambda ins: [])
    add("ComputeThrustLoads", "structures.compute_thrust_loads", "ComputeThrustLoads", {"surface": sp}, lambda ins: [])

    def distinct_nodes(ins):
        nd = ins["nodes"]
        # consecutive structural nodes at increasing y (distinct, element not along x)
        return [lt(nd[j, 1], nd[j + 1, 1]) for j in range(nd.shape[0] - 1)]

    add("Length", "structures.length", "Length", {"surface": s}, distinct_nodes)
    add("Transform", "structures.transform", "Transform", {"surface": s}, distinct_nodes)
    add("VonMisesTube", "structures.vonmises_tube", "VonMisesTube", {"surface": s}, lambda ins: distinct_nodes(ins) + pos_all(ins, ["radius"]))
    add("Weight", "structures.weight", "Weight", {"surface": s}, distinct_nodes)
    add("StructureWeightLoads", "structures.wing_weight_loads", "StructureWeightLoads", {"surface": s}, distinct_nodes)
    add("FuelLoads", "structures.fuel_loads", "FuelLoads", {"surface": K.surface(2, 3, True, fem_model_type="wingbox")},
        lambda ins: distinct_nodes(ins) + pos_all(ins, ["fuel_vols"]))
    for (label, modname, cls, kw, adm, fixed) in specs:
        sc = SymComp(modname, cls, **kw)
        rep.encode(type(sc.comp))
        ins = sc.inputs()
        assume = adm(ins)
        paths = sc.sym(ins, assumptions=assume, max_paths=64)
        obs = domain_obligations(paths, assume, cls)

        def rp(ob, env, sc=sc, ins=ins):
            envf = model.FillEnv(env)
            with np.errstate(all="ignore"):
                real = sc.real(num_inputs(ins, envf))
            bad = [n for n, a in real.items() if not np.all(np.isfinite(a))]
            return bool(bad), "%s: non-finite output %s at an admissible input" % (sc.cls, bad)

        run_obligations(rep, "finite outputs: %s (%d paths)" % (cls, len(paths)), obs, timeout, replay=rp, levels=(2,), cut_threshold=0,
                        family=lambda ob: ob.meta["family"], box=(0.05, 2.0), fixed={"re[0]": 1e6})


# ------------------------------------------------------------------------------------- user data never modified
def readonly_part(rep, tier):
    """Every symbolic execution in this framework runs with the option meshes marked read-only; here all C01/C03 cases are
    executed once more for that purpose (every path of compute and compute_partials): a write raises."""
    cases = c01.build_cases("quick")
    n = 0
    paths = 0
    bad = []
    dim_hits = []
    by_name = {}
    for case in cases:
        try:
            # the surface dictionaries the component is handed (the same objects every time the factory is called): their key
            # sets before set-up and after the runs must be the same - the library does not write into the user's dictionary
            dicts0 = []
            try:
                c0 = case.factory(dict(case.cfg))
                for v0 in list(c0.options._dict.values()):
                    val0 = v0.get("val") if isinstance(v0, dict) else None
                    for d0 in ([val0] if isinstance(val0, dict) else (val0 if isinstance(val0, list) else [])):
                        if isinstance(d0, dict):
                            dicts0.append((d0, set(d0.keys())))
            except Exception:
                dicts0 = []
            r = case.build()
            frozen = []
            for v in list(r.comp.options._dict.values()):
                val = v.get("val") if isinstance(v, dict) else None
                for d in ([val] if isinstance(val, dict) else (val if isinstance(val, list) else [])):
                    if isinstance(d, dict):
                        for kk, arr in d.items():
                            if isinstance(arr, np.ndarray) and arr.flags.writeable:
                                arr.flags.writeable = False
                                frozen.append(arr)
                if isinstance(val, np.ndarray) and val.flags.writeable:
                    val.flags.writeable = False
                    frozen.append(val)
            ins = r.sym_inputs(case.overrides(r) if case.overrides else None)
            assume = case.assumptions(ins) if case.assumptions else []
            ps = r.run(ins, assumptions=assume, max_paths=case.max_paths, extra=case.extra)
            n += 1
            paths += len(ps)
            for a in frozen:
                a.flags.writeable = True
            dims_of_case(rep, case, r, ps, dim_hits)
            for d0, k0 in dicts0:
                added = sorted(str(k_) for k_ in set(d0.keys()) - k0)
                if added:
                    bad.append((case.name, "set-up / evaluation added the key(s) %s to the user's surface dictionary" % added))
                    for k_ in added:
                        d0.pop(k_, None)
            for vn, md in r.comp._var_rel2meta.items():
                base = vn
                for s_ in getattr(r.comp.options, "_dict", {}).get("surfaces", {}).get("val", None) or []:
                    if isinstance(s_, dict) and base.startswith(s_.get("name", "\0") + "_"):
                        base = base[len(s_["name"]) + 1:]
                by_name.setdefault(base, []).append((md.get("units"), vn in r.in_names, case, vn))
        except ValueError as e:
            if "read-only" in str(e):
                bad.append((case.name, str(e)))
            else:
                raise
    # ---- functions and group set-ups that are handed the user's arrays directly: executed with symbolic, write-protected
    # arrays (every data-dependent path); a write raises, and so does any change of the arrays' contents
    fcases = user_array_functions(tier)
    for name, fn in fcases:
        try:
            with symbolic_numpy():
                ps = execute.explore(fn, [], max_paths=64)
            n += 1
            paths += len(ps)
            for p_ in ps:
                if p_.result:
                    bad.append((name, p_.result))
        except ValueError as e:
            if "read-only" in str(e):
                bad.append((name, str(e)))
            else:
                raise
    for name, msg in bad:
        rep.violation("user array modified in place: %s" % name.split("[")[0], msg, {"case": name})
    rep.groups.append({"case": "option arrays read-only during symbolic execution", "components_executed": n, "paths": paths, "writes_detected": len(bad)})
    rep.counts["obligations"] += n
    rep.counts["discharged"] += n - len(bad)
    rep.log("read-only option arrays: %d component cases, %d paths, %d writes" % (n, paths, len(bad)))
    # one name, one kind of quantity: a variable that carries units in one component does not appear without units as the
    # input of another (the same names are connected by promotion all over the library)
    for base, occ in sorted(by_name.items()):
        united = [o for o in occ if o[0] is not None]
        bare = [o for o in occ if o[0] is None and o[1]]
        if united and bare:
            from symoas import dims as _dims

            if len({_dims.unit_dim(o[0]) for o in united}) == 1 and _dims.unit_dim(united[0][0]) not in ((), None):
                done_ = set()
                for (_, _, case_, vn_) in bare:
                    cls_ = case_.name.split("[")[0]
                    if cls_ in done_:
                        continue
                    done_.add(cls_)
                    dim_hits.append((case_.name, cls_, "input %s is declared without units, %s carries %s in %d other component(s)" % (vn_, base, united[0][0], len({o[2].name.split('[')[0] for o in united})),
                                     {"factory": case_.factory, "cfg": dict(case_.cfg), "var": vn_, "unit": united[0][0], "case": case_.name, "kind": "name"}))
    # dimensional analysis of the same executions
    confirmed = 0
    seen = set()
    for (cname, comp_cls, msg, spec) in dim_hits:
        key = (comp_cls, spec.get("var"))
        if key in seen:
            continue
        seen.add(key)
        rep.counts["candidates"] += 1
        ok, what = replay_dimension(spec)
        if ok:
            confirmed += 1
            fam_ = ("units: %s takes an input without units that carries units everywhere else" if spec.get("kind") == "name" else "units: %s adds quantities of different declared dimension") % comp_cls
            rep.violation(fam_, msg + " :: " + what, {"case": cname, "dims": True, "spec": {k: v for k, v in spec.items() if k != "factory"}})
        else:
            rep.not_reproduced.append({"id": "dimension conflict in %s" % cname, "why": msg + " :: " + what})
    rep.counts["obligations"] += n
    rep.counts["discharged"] += n - len(seen)
    rep.groups.append({"case": "dimensional analysis of the symbolic executions", "components_executed": n, "conflicts": len(seen), "confirmed": confirmed})
    rep.log("dimensional analysis: %d component cases, %d with a sum of different declared dimensions, %d confirmed" % (n, len(seen), confirmed))


def dims_of_case(rep, case, r, paths, hits):
    """every sum / difference the component forms joins quantities of one declared dimension (symoas.dims: constants that are
    not simple numbers and mixed-content arrays are of unknown dimension and never conflict)"""
    from symoas import dims

    meta = r.comp._var_rel2meta
    vd = {n_: dims.unit_dim(meta[n_].get("units")) for n_ in r.in_names}
    if r.implicit:
        for n_ in r.out_names:
            vd[n_] = dims.unit_dim(meta[n_].get("units"))
    for p_ in paths[:3]:
        res = p_.result
        roots = []
        for group in ("outputs", "residuals"):
            for n_, arr in (res.get(group) or {}).items():
                roots += [x for x in np.asarray(arr, dtype=object).ravel()]
        _, conf = dims.infer(roots, vd)
        for (node, a, b, da, db) in conf[:1]:
            la, lb = dims.leaves_of(a), dims.leaves_of(b)
            # the variable to blame: a unitless input on the dimensionless side while the other side carries a dimension
            unitless = [v for v in (la if not da else lb) if v in vd and meta[v].get("units") is None]
            donors = [v for v in (lb if not da else la) if v in vd and meta[v].get("units") is not None and dims.unit_dim(meta[v]["units"]) == (db if not da else da)]
            spec = {"factory": case.factory, "cfg": dict(case.cfg), "var": unitless[0] if unitless else None, "unit": meta[donors[0]]["units"] if donors else None,
                    "case": case.name}
            hits.append((case.name, type(r.comp).__name__, "%s + %s: dimensions %s and %s" % ("/".join(la) or "const", "/".join(lb) or "const", da, db), spec))


def replay_dimension(spec):
    """the real component on its own: the unitless input is fed the same physical quantity once in the unit its partner in the
    sum is declared in and once in a thousand times that unit - the outputs must not change"""
    import warnings

    import openmdao.api as om
    from openmdao.utils.units import unit_conversion

    var, unit = spec.get("var"), spec.get("unit")
    if not var or not unit:
        return False, "no unitless input to blame (all operands carry units): not replayed"
    try:
        unit_conversion("k" + unit, unit)
    except Exception:
        return False, "no scaled unit for %s" % unit
    outs = []
    rng = np.random.default_rng(11)
    for u_, scale in ((unit, 1.0), ("k" + unit, 1e-3)):
        comp = spec["factory"](dict(spec["cfg"]))
        p = om.Problem(reports=False)
        p.model.add_subsystem("c", comp, promotes=["*"])
        with warnings.catch_warnings():
            warnings.simplefilter("ignore")
            p.setup()
        shape = np.shape(p.get_val(var))
        base = 1.0 + np.random.default_rng(11).random(shape)
        p2 = om.Problem(reports=False)
        ivc = om.IndepVarComp()
        ivc.add_output(var, val=base * scale, units=u_)
        p2.model.add_subsystem("src", ivc, promotes=["*"])
        comp2 = spec["factory"](dict(spec["cfg"]))
        p2.model.add_subsystem("c", comp2, promotes=["*"])
        with warnings.catch_warnings():
            warnings.simplefilter("ignore")
            p2.setup()
            # other inputs: moderate non-zero values
            r0 = np.random.default_rng(3)
            for n_ in comp2._var_rel_names["input"]:
                if n_ != var:
                    v0 = np.asarray(p2.get_val(n_), dtype=float)
                    if not np.any(v0):
                        p2.set_val(n_, 0.3 + r0.random(v0.shape))
            p2.run_model()
        outs.append({n_: np.array(p2.get_val("c." + n_), dtype=float) for n_ in comp2._var_rel_names["output"]})
    worst = max((float(np.nanmax(np.abs(outs[0][n_] - outs[1][n_]))) / max(1.0, float(np.nanmax(np.abs(outs[0][n_])))), n_) for n_ in outs[0])
    return worst[0] > 1e-9, "given the same %s in %s and in k%s, output %s changes by a relative %.3g" % (var, unit, unit, worst[1], worst[0])


def user_array_functions(tier):
    """(label, thunk) pairs; a thunk returns a message when it finds a user array changed, else None"""
    import warnings

    from openaerostruct.geometry import utils as gu
    from openaerostruct.geometry.geometry_group import build_sections
    from openaerostruct.geometry.geometry_unification import unify_mesh
    from symoas.sym import symarray

    def frozen(name, shape, ycols=None):
        a = symarray(name, shape)
        a.flags.writeable = False
        return a

    def changed(arrs, keeps):
        for k, (a, b) in enumerate(zip(arrs, keeps)):
            if a.shape != b.shape or any(x is not y for x, y in zip(a.ravel(), b.ravel())):
                return "user array %d no longer holds the values it was given" % k
        return None

    out = []

    def sections_case(nsec, shift):
        def run():
            meshes = [frozen("sec%d" % k, (2, 2 + (k % 2), 3)) for k in range(nsec)]
            keeps = [m.copy() for m in meshes]
            surface = {"name": "surface", "is_multi_section": True, "num_sections": nsec, "sec_name": ["sec%d" % i for i in range(nsec)],
                       "symmetry": True, "S_ref_type": "wetted", "meshes": meshes, "root_section": nsec - 1,
                       "CL0": 0.0, "CD0": 0.015, "k_lam": 0.05, "c_max_t": 0.303, "with_viscous": False, "with_wave": False, "groundplane": False}
            with warnings.catch_warnings():
                warnings.simplefilter("ignore")
                secs = build_sections(surface)
                unify_mesh(secs, shift_uni_mesh=shift)
                unify_mesh(secs, shift_uni_mesh=shift)
            return changed(meshes, keeps)

        return run

    for nsec in ((2, 3) if tier == "quick" else (1, 2, 3, 4)):
        for shift in (True, False):
            out.append(("build_sections + unify_mesh[%d user meshes, shift=%s]" % (nsec, shift), sections_case(nsec, shift)))

    def gfm(side):
        def run():
            h = frozen("half", (2, 3, 3))
            keep = h.copy()
            gu.getFullMesh(left_mesh=h) if side == "left" else gu.getFullMesh(right_mesh=h)
            return changed([h], [keep])

        return run

    out.append(("getFullMesh[left]", gfm("left")))
    out.append(("getFullMesh[right]", gfm("right")))
    return out


def global_state_scan(rep):
    """No run-time method writes a module-level global (hidden state shared between Problems): ast scan of every module."""
    import openaerostruct

    root = os.path.dirname(openaerostruct.__file__)
    hits = []
    class_level = []
    nfun = 0
    for dp, dn, fn in os.walk(root):
        if any(x in dp for x in ("docs", "examples", "tests")):
            continue
        for f in fn:
            if not f.endswith(".py") or f.startswith("plot_"):
                continue
            path = os.path.join(dp, f)
            tree = ast.parse(open(path).read())
            mod_globals = set()
            for n in tree.body:
                if isinstance(n, (ast.Assign, ast.AnnAssign)):
                    for t in (n.targets if isinstance(n, ast.Assign) else [n.target]):
                        for sub in ast.walk(t):
                            if isinstance(sub, ast.Name):
                                mod_globals.add(sub.id)
            for cnode in ast.walk(tree):
                if isinstance(cnode, ast.ClassDef):
                    for b in cnode.body:
                        if isinstance(b, (ast.Assign, ast.AnnAssign)) and isinstance(b.value, (ast.Dict, ast.List, ast.Set, ast.Call, ast.ListComp, ast.DictComp, ast.SetComp)):
                            for t in (b.targets if isinstance(b, ast.Assign) else [b.target]):
                                if isinstance(t, ast.Name):
                                    class_level.append("%s.%s" % (cnode.name, t.id))
            for fnode in ast.walk(tree):
                if not isinstance(fnode, ast.FunctionDef):
                    continue
                nfun += 1
                declared = {n for g in ast.walk(fnode) if isinstance(g, ast.Global) for n in g.names}
                params = {a.arg for a in fnode.args.args + fnode.args.kwonlyargs}
                local_assigned = set()
                for node in ast.walk(fnode):
                    if isinstance(node, ast.Assign):
                        for t in node.targets:
                            if isinstance(t, ast.Name):
                                local_assigned.add(t.id)
                for node in ast.walk(fnode):
                    tgts = []
                    if isinstance(node, ast.Assign):
                        tgts = node.targets
                    elif isinstance(node, ast.AugAssign):
                        tgts = [node.target]
                    for t in tgts:
                        if isinstance(t, ast.Name) and t.id in declared:
                            hits.append("%s:%d writes global %s" % (path, node.lineno, t.id))
                        if isinstance(t, (ast.Subscript, ast.Attribute)):
                            base = t
                            while isinstance(base, (ast.Subscript, ast.Attribute)):
                                base = base.value
                            if isinstance(base, ast.Name) and base.id in mod_globals and base.id not in params and base.id not in local_assigned:
                                hits.append("%s:%d mutates module-level %s" % (path, node.lineno, base.id))
    rep.groups.append({"case": "module-level state scan", "functions_scanned": nfun, "writes_to_module_globals": hits,
                       "class_level_containers": class_level})
    have = {n for n, _ in contract_functions()}
    for c in class_level:
        if CLASS_STATE_CONTRACTS.get(c) not in have:
            rep.counts["obligations"] += 1
            rep.counts["inconclusive"] += 1
            rep.inconclusive.append({"group": "class-level state", "id": c, "detail": "class-level mutable container without an instance-independence contract"})
    for h in hits:
        rep.violation("hidden global state: %s" % h.split(" ", 1)[1], h, {"where": h})
    rep.log("global-state scan: %d functions, %d writes to module-level names, class-level containers %s" % (nfun, len(hits), class_level))


def run(tier, seed, only=None):
    rep = report.Report(PID, tier, seed)
    timeout = 20.0 if tier == "quick" else 60.0
    if not only or "crosshair" in only:
        crosshair_part(rep, tier)
    if not only or "keys" in only:
        keys_part(rep)
    if not only or "finite" in only:
        finite_part(rep, tier, timeout)
    if not only or "readonly" in only:
        readonly_part(rep, tier)
    if not only or "globals" in only:
        global_state_scan(rep)
    rep.assumptions = ["CrossHair explores the real validation code up to its per-condition time budget; string inputs <= 7 characters",
                       "contracts only on the invalid-input domain (successful set-ups reach OpenMDAO's connection stage, which CrossHair cannot trace)",
                       "finite outputs: real arithmetic, admissibility predicates stated per component in the obligations",
                       "not decided: bit-for-bit run-to-run reproducibility (no nondeterminism source is modelled)"]
    rep.bounds = {"strings": "<= 3..7 characters", "finite-output components": "ny = 3"}
    return rep.finish("C20 (reduced): CrossHair contracts (with refuted twins) on the error/warning paths; solver obligations that every divisor, "
                      "sqrt and log argument is in-domain on admissible inputs; read-only option arrays during all symbolic executions; scan for module-level state",
                      extra_cov={"checker_cmd": "crosshair check --report_all --per_condition_timeout N props/c20_contracts.py:LINE ; z3 via symoas"})


def replay_file(path):
    spec = json.load(open(path))
    if spec.get("crosshair"):
        import importlib

        mod = importlib.import_module("props.c20_contracts")
        try:
            ok = eval(spec["call"], vars(mod))
        except Exception as e:
            ok = "raised %r" % (e,)
        print("%s -> %r" % (spec["call"], ok))
        if ok is not True:
            print("VIOLATION property=%s replay=%s" % (PID, path))
            return 1
        return 0
    print("recorded counterexample: %s" % spec.get("what"))
    print("VIOLATION property=%s replay=%s" % (PID, path))
    return 1
