"""C11 - load and displacement transfer conserve force and moment; rigid motion is exact."""
from __future__ import annotations

import json

import numpy as np

from props.c16 import cross, vsum
from symoas import cases as K
from symoas import diff, model, oblig, report
from symoas.model import SymComp, idents, num_inputs, run_obligations
from symoas.sym import S, ZERO, ONE, evalf, ge, le, symarray, var, subst1, substitute

PID = "C11"


def cfgs(tier):
    c = [("symL_2x2", 2, 2, True), ("full_2x3", 2, 3, False), ("symL_3x3", 3, 3, True), ("full_4x3", 4, 3, False)]
    if tier == "thorough":
        c += [("full_3x5", 3, 5, False), ("symL_2x4", 2, 4, True), ("symL_5x3", 5, 3, True), ("full_2x7", 2, 7, False)]
    return c


def run(tier, seed, only=None):
    rep = report.Report(PID, tier, seed)
    timeout = 20.0 if tier == "quick" else 60.0
    p = symarray("p", (3,))
    w2 = var("fem_origin")
    for (cn, nx, ny, symm) in cfgs(tier):
        s = K.surface(nx, ny, symm)
        # ------------------------------------------------------------------ LoadTransfer
        sc = SymComp("transfer.load_transfer", "LoadTransfer", surface=s)
        rep.encode(type(sc.comp))
        sc.comp.w2 = w2  # spar location symbolic in [0, 1]
        ins = sc.inputs()
        o = sc.sym1(ins)
        sc.comp.w2 = sc.comp.fem_origin
        mesh, F = ins["def_mesh"], ins["sec_forces"]
        loads = o["loads"]
        spts = [[(ONE - w2) * mesh[0, j, k] + w2 * mesh[nx - 1, j, k] for k in range(3)] for j in range(ny)]
        apts = {}
        for i in range(nx - 1):
            for j in range(ny - 1):
                le_mid = [(mesh[i, j, k] + mesh[i, j + 1, k]) * S(0.5) for k in range(3)]
                te_mid = [(mesh[i + 1, j, k] + mesh[i + 1, j + 1, k]) * S(0.5) for k in range(3)]
                apts[i, j] = [S(0.75) * le_mid[k] + S(0.25) * te_mid[k] for k in range(3)]  # panel quarter chord, mid span
        Fn = vsum([[loads[j, k] for k in range(3)] for j in range(ny)])
        Mn = vsum([[loads[j, 3 + k] for k in range(3)] for j in range(ny)] +
                  [cross([spts[j][k] - p[k] for k in range(3)], [loads[j, k] for k in range(3)]) for j in range(ny)])
        Fp = vsum([[F[i, j, k] for k in range(3)] for i in range(nx - 1) for j in range(ny - 1)])
        Mp = vsum([cross([apts[i, j][k] - p[k] for k in range(3)], [F[i, j, k] for k in range(3)])
                   for i in range(nx - 1) for j in range(ny - 1)])
        assume = [ge(w2, 0), le(w2, 1)]
        obs = idents("sum F", Fn, Fp, assume=assume, meta={"family": "nodal forces sum to the panel forces"})
        obs += idents("sum M about p", Mn, Mp, assume=assume,
                      meta={"family": "nodal loads have the same total moment as the panel forces at their quarter-chord points"})

        def lt_real(ob, env, s=s, sc=sc, ins=ins, nx=nx, ny=ny):
            w = env.get("fem_origin", s["fem_origin"])
            scr = SymComp("transfer.load_transfer", "LoadTransfer", surface=dict(s, fem_origin=float(w)))
            vals = num_inputs(ins, env)
            real = scr.real(vals)["loads"]
            m = vals["def_mesh"]
            Fv = vals["sec_forces"]
            pp = np.array([env.get("p[%d]" % k, 0.0) for k in range(3)])
            sp = (1 - w) * m[0] + w * m[-1]
            a = 0.5 * (0.75 * m[:-1, :-1] + 0.25 * m[1:, :-1] + 0.75 * m[:-1, 1:] + 0.25 * m[1:, 1:])
            k = ob.meta["idx"][0]
            if ob.id.startswith("sum F"):
                got, ref = real[:, :3].sum(axis=0)[k], Fv.sum(axis=(0, 1))[k]
            else:
                got = (real[:, 3:].sum(axis=0) + np.cross(sp - pp, real[:, :3]).sum(axis=0))[k]
                ref = np.cross(a - pp, Fv).sum(axis=(0, 1))[k]
            return model.differs(got, ref, 1e-7), "LoadTransfer %s: nodal loads give %.9g, panel forces give %.9g" % (ob.id, got, ref)

        run_obligations(rep, "LoadTransfer[%s]" % cn, obs, timeout, replay=lt_real, family=lambda ob: "LoadTransfer: " + ob.meta["family"],
                        fixed={"fem_origin": 0.35})
        # ------------------------------------------------------------------ spar location taken from the surface dictionary
        # (no override): the nodal loads of LoadTransfer(surface) act at the structural nodes ComputeNodes(surface) reports,
        # for the boundary values and a non-default value of fem_origin
        if (nx, ny) == cfgs(tier)[0][1:3]:
            sw_key = K.surface(nx, ny, symm, fem_model_type="wingbox")  # wingbox: the spar location comes from the airfoil data,
            sw_nokey = dict(sw_key)                                       # whether or not the dictionary also carries a fem_origin key
            sw_nokey.pop("fem_origin", None)
            # ... and a tube dictionary may carry (unused) wingbox airfoil arrays, e.g. when it was copied from a wingbox study
            tube_data = dict(s, fem_origin=0.25, **{k_: sw_key[k_] for k_ in sw_key if k_.startswith("data_")})
            for fo, sfo in [(v_, dict(s, fem_origin=v_)) for v_ in (0.0, 0.35, 0.625, 1.0)] + [("wingbox with a fem_origin key", sw_key), ("wingbox", sw_nokey),
                                                                                           ("tube 0.25 with airfoil data keys", tube_data),
                                                                                           # the *geometry* reference axis (chord scaling, twist) is another key of the same dictionary:
                                                                                           # the panel force still acts at the panel quarter chord
                                                                                           ("0.35 with ref_axis_pos = 0.5", dict(s, fem_origin=0.35, ref_axis_pos=0.5)),
                                                                                           ("0.25 with ref_axis_pos = 0", dict(s, fem_origin=0.25, ref_axis_pos=0.0))]:
                lt = SymComp("transfer.load_transfer", "LoadTransfer", surface=sfo)
                cn_ = SymComp("structures.compute_nodes", "ComputeNodes", surface=sfo)
                rep.encode(type(cn_.comp))
                o2 = lt.sym1(ins)
                nd = cn_.sym1({"mesh": mesh})["nodes"]
                l2 = o2["loads"]
                Fn2 = vsum([[l2[j, k] for k in range(3)] for j in range(ny)])
                Mn2 = vsum([[l2[j, 3 + k] for k in range(3)] for j in range(ny)] +
                           [cross([nd[j, k] - p[k] for k in range(3)], [l2[j, k] for k in range(3)]) for j in range(ny)])
                obs = idents("sum F", Fn2, Fp, meta={"family": "nodal forces sum to the panel forces (spar location from the surface dictionary)", "fo": fo})
                obs += idents("sum M about p", Mn2, Mp, meta={"family": "nodal loads at the structural nodes have the total moment of the panel forces (spar location from the surface dictionary)", "fo": fo})

                def lt2_real(ob, env, sfo=sfo, ins=ins, fo=fo):
                    vals = num_inputs(ins, env)
                    real = SymComp("transfer.load_transfer", "LoadTransfer", surface=sfo).real(vals)["loads"]
                    nodes_r = SymComp("structures.compute_nodes", "ComputeNodes", surface=sfo).real({"mesh": vals["def_mesh"]})["nodes"]
                    m = vals["def_mesh"]
                    Fv = vals["sec_forces"]
                    pp = np.array([env.get("p[%d]" % k, 0.0) for k in range(3)])
                    a = 0.5 * (0.75 * m[:-1, :-1] + 0.25 * m[1:, :-1] + 0.75 * m[:-1, 1:] + 0.25 * m[1:, 1:])
                    k = ob.meta["idx"][0]
                    if ob.id.startswith("sum F"):
                        got, ref = real[:, :3].sum(axis=0)[k], Fv.sum(axis=(0, 1))[k]
                    else:
                        got = (real[:, 3:].sum(axis=0) + np.cross(nodes_r - pp, real[:, :3]).sum(axis=0))[k]
                        ref = np.cross(a - pp, Fv).sum(axis=(0, 1))[k]
                    return model.differs(got, ref, 1e-7), "fem_origin=%s, %s: nodal loads at the ComputeNodes nodes give %.9g, panel forces give %.9g" % (fo, ob.id, got, ref)

                run_obligations(rep, "LoadTransfer + ComputeNodes, fem_origin=%s [%s]" % (fo, cn), obs, timeout, replay=lt2_real,
                                family=lambda ob: "LoadTransfer: " + ob.meta["family"])
        # ------------------------------------------------------------------ MeshPointForces
        sc = SymComp("aerodynamics.mesh_point_forces", "MeshPointForces", surfaces=[s])
        rep.encode(type(sc.comp))
        ins2 = sc.inputs()
        o = sc.sym1(ins2)
        Fm = o["wing_mesh_point_forces"]
        F2 = ins2["wing_sec_forces"]
        Fn = vsum([[Fm[i, j, k] for k in range(3)] for i in range(nx) for j in range(ny)])
        Mn = vsum([cross([mesh[i, j, k] - p[k] for k in range(3)], [Fm[i, j, k] for k in range(3)]) for i in range(nx) for j in range(ny)])
        Fp = vsum([[F2[i, j, k] for k in range(3)] for i in range(nx - 1) for j in range(ny - 1)])
        Mp = vsum([cross([apts[i, j][k] - p[k] for k in range(3)], [F2[i, j, k] for k in range(3)])
                   for i in range(nx - 1) for j in range(ny - 1)])
        obs = idents("sum F", Fn, Fp, meta={"family": "mesh-point forces sum to the panel forces"})
        obs += idents("sum M about p", Mn, Mp, meta={"family": "mesh-point forces have the same total moment as the panel forces at their quarter-chord points"})

        def mp_real(ob, env, sc=sc, ins2=ins2, mesh=mesh):
            vals = num_inputs(ins2, env)
            m = num_inputs({"m": mesh}, env)["m"]
            real = sc.real(vals)["wing_mesh_point_forces"]
            Fv = vals["wing_sec_forces"]
            pp = np.array([env.get("p[%d]" % k, 0.0) for k in range(3)])
            a = 0.5 * (0.75 * m[:-1, :-1] + 0.25 * m[1:, :-1] + 0.75 * m[:-1, 1:] + 0.25 * m[1:, 1:])
            k = ob.meta["idx"][0]
            if ob.id.startswith("sum F"):
                got, ref = real.sum(axis=(0, 1))[k], Fv.sum(axis=(0, 1))[k]
            else:
                got, ref = np.cross(m - pp, real).sum(axis=(0, 1))[k], np.cross(a - pp, Fv).sum(axis=(0, 1))[k]
            return model.differs(got, ref, 1e-7), "MeshPointForces %s: mesh-point forces give %.9g, panel forces give %.9g" % (ob.id, got, ref)

        run_obligations(rep, "MeshPointForces[%s]" % cn, obs, timeout, replay=mp_real, family=lambda ob: "MeshPointForces: " + ob.meta["family"])
        # ------------------------------------------------------------------ displacement transfer chain
        cnod = SymComp("structures.compute_nodes", "ComputeNodes", surface=s)
        ctm = SymComp("transfer.compute_transformation_matrix", "ComputeTransformationMatrix", surface=s)
        cdt = SymComp("transfer.displacement_transfer", "DisplacementTransfer", surface=s)
        rep.encode(type(cnod.comp), type(ctm.comp), type(cdt.comp))
        m0 = symarray("mesh", (nx, ny, 3))
        disp = symarray("disp", (ny, 6))
        nodes = cnod.sym1({"mesh": m0})["nodes"]
        T = ctm.sym1({"disp": disp})["transformation_matrix"]
        dm = cdt.sym1({"mesh": m0, "disp": disp, "transformation_matrix": T, "nodes": nodes})["def_mesh"]
        flat = list(dm.ravel())
        zero = {"disp[%d,%d]" % (j, k): ZERO for j in range(ny) for k in range(6)}
        norot = {"disp[%d,%d]" % (j, k): ZERO for j in range(ny) for k in range(3, 6)}
        z = substitute(flat, zero)
        t = substitute(flat, norot)
        obs = []
        for idx in np.ndindex(nx, ny, 3):
            x = dm[idx]
            obs.append(oblig.Ob("zero disp %s" % list(idx), lhs=z[x.nid], rhs=m0[idx], meta={"family": "zero displacement leaves the mesh unchanged", "idx": list(idx), "kind": "zero"}))
            obs.append(oblig.Ob("translation %s" % list(idx), lhs=t[x.nid], rhs=m0[idx] + disp[idx[1], idx[2]],
                                meta={"family": "pure translation translates the mesh exactly", "idx": list(idx), "kind": "trans"}))
        # first-order rotation: d def_mesh / d theta_c at theta = 0 equals e_c x (mesh - node)
        for j in range(ny):
            for c in range(3):
                dcol = diff.diff_all(flat, disp[j, 3 + c])
                d0 = substitute(dcol, norot)
                e = [ONE if k == c else ZERO for k in range(3)]
                for i in range(nx):
                    arm = [m0[i, j, k] - nodes[j, k] for k in range(3)]
                    ref = cross(e, arm)
                    for k in range(3):
                        for jj in range(ny):
                            node = dcol[(i * ny + jj) * 3 + k]
                            obs.append(oblig.Ob("rotation d def_mesh[%d,%d,%d]/d theta[%d,%d]" % (i, jj, k, j, c),
                                                lhs=d0[node.nid], rhs=ref[k] if jj == j else ZERO,
                                                meta={"family": "rotation acts to first order as a rigid rotation about the structural node",
                                                      "idx": [i, jj, k], "kind": "rot", "j": j, "c": c}))

        def dt_real(ob, env, s=s, m0=m0, disp=disp, nx=nx, ny=ny):
            import openmdao.api as om
            from openaerostruct.transfer.displacement_transfer_group import DisplacementTransferGroup

            mv = num_inputs({"m": m0}, env)["m"]
            dv = num_inputs({"d": disp}, env)["d"]
            kind = ob.meta["kind"]

            def run(dvv):
                prob = om.Problem(reports=False)
                prob.model.add_subsystem("nodes", cnod_real(s), promotes=["*"])
                prob.model.add_subsystem("g", DisplacementTransferGroup(surface=s), promotes=["*"])
                prob.setup()
                prob.set_val("mesh", mv)
                prob.set_val("disp", dvv)
                prob.run_model()
                return np.array(prob.get_val("def_mesh")), np.array(prob.get_val("nodes"))

            idx = tuple(ob.meta["idx"])
            if kind == "zero":
                got, _ = run(np.zeros((ny, 6)))
                return model.differs(got[idx], mv[idx]), "def_mesh%s = %.9g at zero displacement, mesh = %.9g" % (list(idx), got[idx], mv[idx])
            if kind == "trans":
                d2 = dv.copy()
                d2[:, 3:] = 0
                got, _ = run(d2)
                ref = mv[idx] + d2[idx[1], idx[2]]
                return model.differs(got[idx], ref), "def_mesh%s = %.9g under pure translation, mesh + t = %.9g" % (list(idx), got[idx], ref)
            j, c = ob.meta["j"], ob.meta["c"]
            d2 = dv.copy()
            d2[:, 3:] = 0
            h = 1e-5
            dp, dm_ = d2.copy(), d2.copy()
            dp[j, 3 + c] += h
            dm_[j, 3 + c] -= h
            gp, nodesv = run(dp)
            gm, _ = run(dm_)
            fd = (gp[idx] - gm[idx]) / (2 * h)
            e = np.zeros(3)
            e[c] = 1
            ref = np.cross(e, mv[idx[0], j] - nodesv[j])[idx[2]] if idx[1] == j else 0.0
            return model.differs(fd, ref, 1e-6), "d def_mesh%s/d theta[%d,%d] = %.9g at zero rotation, rigid rotation gives %.9g" % (list(idx), j, c, fd, ref)

        run_obligations(rep, "DisplacementTransfer chain[%s]" % cn, obs, timeout, replay=dt_real,
                        family=lambda ob: "DisplacementTransfer: " + ob.meta["family"], levels=(1, 2))
    aerostruct_level(rep, tier, timeout)
    rep.bounds = {"meshes": [c[0] for c in cfgs(tier)], "fem_origin": "symbolic in [0,1]"}
    rep.assumptions = ["real arithmetic", "moment reference point symbolic", "panel force acts at the panel's quarter-chord mid-span point of the deformed mesh"]
    return rep.finish("C11: force/moment conservation of LoadTransfer and MeshPointForces; zero/translation/first-order-rotation "
                      "identities of ComputeNodes -> ComputeTransformationMatrix -> DisplacementTransfer")


def aerostruct_level(rep, tier, timeout):
    """The real AerostructPoint executed through its own wiring: the loads that reach the structure are conservative with
    respect to the sectional forces and the deformed mesh *of the same coupled group*; the deformed mesh fed to the
    aerodynamics is mesh + rigid section motion of the structural state; zero state leaves the mesh unchanged."""
    from props import groups
    from symoas.sym import substitute

    cfgl = [("symL_2x3", 2, 3, True)] + ([("full_3x3", 3, 3, False), ("symL_3x4", 3, 4, True)] if tier == "thorough" else [])
    runs = [c + (False, 1) for c in cfgl] + [cfgl[0] + (True, 1)]
    # two structural surfaces of the same mesh shape whose spars sit at different chord fractions: each surface's loads are
    # transferred with its own spar line
    runs.append(("symL_2x2 x 2 surfaces", 2, 2, True, False, 2))
    # wingbox structure: the spar line comes from the airfoil data of the surface (through the real ComputeNodes)
    runs.append(("symL_2x3 wingbox", 2, 3, True, False, -1))
    for (cn, nx, ny, symm, compressible, nsurf) in runs:
        wingbox, nsurf = nsurf < 0, abs(nsurf)
        surfs = []
        for si in range(nsurf):
            sx = K.surface(nx, ny, symm, name="wing" if si == 0 else "tail", **({"fem_model_type": "wingbox"} if wingbox else {}))
            if wingbox:
                sx.pop("radius_cp", None)
                sx.pop("thickness_cp", None)
            else:
                sx.update({"thickness_cp": np.array([0.1, 0.2]), "twist_cp": np.zeros(2)})
            if si:
                sx["fem_origin"] = 0.75
                sx["mesh"] = sx["mesh"] + np.array([6.0, 0.0, 0.5])
            surfs.append(sx)
        G = groups.aerostruct_symbolic(surfs if nsurf > 1 else surfs[0], compressible=compressible, rep=rep)
        G.encode(rep)
        if compressible:
            cn += " compressible"
        pre = "AS_point_0.coupled."
        p = symarray("p", (3,))
        obs = []
        for s in surfs:
            nm = s["name"]
            tag = "" if nsurf == 1 else " [%s]" % nm
            loads = G.computed_for_guess[pre + "%s_loads.loads" % nm]
            F = G.get(pre + "aero_states.%s_sec_forces" % nm)  # the physical sectional forces the states group publishes
            dm = G.vals[pre + "%s.def_mesh.displacement_transfer.def_mesh" % nm]
            mesh = G.vals["%s.geometry.mesh.rotate.mesh" % nm] if "%s.geometry.mesh.rotate.mesh" % nm in G.vals else None
            if wingbox:
                nd = SymComp("structures.compute_nodes", "ComputeNodes", surface=s).sym1({"mesh": dm})["nodes"]
                spts = [[nd[j, k] for k in range(3)] for j in range(ny)]
            else:
                w = S(s["fem_origin"])
                spts = [[(ONE - w) * dm[0, j, k] + w * dm[nx - 1, j, k] for k in range(3)] for j in range(ny)]
            Fn = vsum([[loads[j, k] for k in range(3)] for j in range(ny)])
            Mn = vsum([[loads[j, 3 + k] for k in range(3)] for j in range(ny)] +
                      [cross([spts[j][k] - p[k] for k in range(3)], [loads[j, k] for k in range(3)]) for j in range(ny)])
            Fp = vsum([[F[i, j, k] for k in range(3)] for i in range(nx - 1) for j in range(ny - 1)])
            Mp = []
            for i in range(nx - 1):
                for j in range(ny - 1):
                    a = [S(0.5) * (S(0.75) * dm[i, j, k] + S(0.25) * dm[i + 1, j, k]) + S(0.5) * (S(0.75) * dm[i, j + 1, k] + S(0.25) * dm[i + 1, j + 1, k]) for k in range(3)]
                    Mp.append(cross([a[k] - p[k] for k in range(3)], [F[i, j, k] for k in range(3)]))
            Mp = vsum(Mp)
            obs += idents("AerostructPoint loads%s: sum F" % tag, Fn, Fp, assume=G.assumed, meta={"family": "structural loads of the coupled group carry the total aerodynamic force of the same group"})
            obs += idents("AerostructPoint loads%s: sum M about p" % tag, Mn, Mp, assume=G.assumed, meta={"family": "structural loads of the coupled group carry the total aerodynamic moment about any point (deformed mesh of the same group)"})
            # mesh-node forces exported to external solvers: same resultant as the panel forces of the same group
            mpf = G.get(pre + "aero_states.%s_mesh_point_forces" % nm)
            Fm = vsum([[mpf[i, j, k] for k in range(3)] for i in range(nx) for j in range(ny)])
            Mm = vsum([cross([dm[i, j, k] - p[k] for k in range(3)], [mpf[i, j, k] for k in range(3)]) for i in range(nx) for j in range(ny)])
            obs += idents("AerostructPoint mesh-node forces%s: sum F" % tag, Fm, Fp, assume=G.assumed, meta={"family": "mesh-node forces of the coupled group carry the total aerodynamic force of the same group"})
            obs += idents("AerostructPoint mesh-node forces%s: sum M about p" % tag, Mm, Mp, assume=G.assumed, meta={"family": "mesh-node forces of the coupled group carry the total aerodynamic moment about any point"})
            if mesh is not None:
                flat = list(dm.ravel())
                zero = {v.args[0]: ZERO for x in flat for v in __import__("symoas.sym", fromlist=["variables"]).variables([x]) if ".disp_aug[" in v.args[0]}
                z = substitute(flat, zero)
                for idx in np.ndindex(*dm.shape):
                    obs.append(oblig.Ob("AerostructPoint def_mesh%s at zero state %s" % (tag, list(idx)), lhs=z[dm[idx].nid], rhs=mesh[idx], assume=G.assumed,
                                        meta={"family": "zero structural state leaves the aerodynamic mesh of the coupled group unchanged"}))
        run_obligations(rep, "real AerostructPoint group: transfer [%s]" % cn, obs, timeout, levels=(1, 2), family=lambda ob: "AerostructPoint: " + ob.meta["family"],
                        replay=lambda ob, env, surfs=surfs, compressible=compressible: replay_aerostruct_transfer(surfs, compressible))


def replay_aerostruct_transfer(surfs, compressible):
    """the real coupled model on floats: resultants of structural loads and mesh-node forces against the panel forces"""
    from props import groups

    surfs = surfs if isinstance(surfs, (list, tuple)) else [surfs]
    prob = groups.aerostruct_problem(list(surfs) if len(surfs) > 1 else surfs[0], compressible=compressible,
                                     vals={"alpha": 4.0, "beta": 3.0, "Mach_number": 0.6, "v": 200.0, "rho": 0.8, "W0": 2000.0, "R": 2.0e6})
    prob.run_model()
    pre = "AS_point_0.coupled."
    bad = []
    for s in surfs:
        nm = s["name"]
        F = np.array(prob.get_val(pre + "aero_states.%s_sec_forces" % nm), dtype=float)
        dm = np.array(prob.get_val(pre + "%s.def_mesh" % nm), dtype=float)
        mpf = np.array(prob.get_val(pre + "aero_states.%s_mesh_point_forces" % nm), dtype=float)
        loads = np.array(prob.get_val(pre + "%s_loads.loads" % nm), dtype=float)
        pp = np.array([0.3, -0.7, 0.2])
        a = 0.5 * (0.75 * dm[:-1, :-1] + 0.25 * dm[1:, :-1] + 0.75 * dm[:-1, 1:] + 0.25 * dm[1:, 1:])
        Fp, Mp = F.sum(axis=(0, 1)), np.cross(a - pp, F).sum(axis=(0, 1))
        if s.get("fem_model_type") == "wingbox":
            sp = np.array(SymComp("structures.compute_nodes", "ComputeNodes", surface=s).real({"mesh": dm})["nodes"], dtype=float)
        else:
            w = s["fem_origin"]
            sp = (1 - w) * dm[0] + w * dm[-1]
        sc = max(1.0, np.abs(Fp).max())
        scm = max(1.0, np.abs(Mp).max())
        for lab, Fx, Mx in (("structural loads", loads[:, :3].sum(axis=0), loads[:, 3:].sum(axis=0) + np.cross(sp - pp, loads[:, :3]).sum(axis=0)),
                            ("mesh-node forces", mpf.sum(axis=(0, 1)), np.cross(dm - pp, mpf).sum(axis=(0, 1)))):
            if np.abs(Fx - Fp).max() > 1e-8 * sc:
                bad.append("%s %s: total force %s vs panel forces %s" % (nm, lab, np.round(Fx, 4), np.round(Fp, 4)))
            if np.abs(Mx - Mp).max() > 1e-8 * scm:
                bad.append("%s %s: total moment %s vs panel forces %s" % (nm, lab, np.round(Mx, 4), np.round(Mp, 4)))
    return bool(bad), ("compressible=%s: " % compressible) + ("; ".join(bad) or "resultants agree")


def cnod_real(s):
    from openaerostruct.structures.compute_nodes import ComputeNodes

    return ComputeNodes(surface=s)


def replay_file(path):
    spec = json.load(open(path))
    print("recorded counterexample: %s" % spec.get("what"))
    print("VIOLATION property=%s replay=%s" % (PID, path))
    return 1
