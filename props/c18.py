"""C18 - viscous and wave drag estimates are well-behaved and discretisation-consistent (reduced claim)."""
from __future__ import annotations

import json

import numpy as np

from symoas import cases as K
from symoas import diff, model, oblig, report
from symoas.model import SymComp, idents, num_inputs, run_obligations
from symoas.sym import S, ZERO, ONE, Sym, band, bor, evalf, ge, gt, le, lt, ne, eq, symarray, var, substitute

PID = "C18"
A = "aerodynamics."


def run(tier, seed, only=None):
    rep = report.Report(PID, tier, seed)
    timeout = 20.0 if tier == "quick" else 60.0
    nys = [2, 3] if tier == "quick" else [2, 3, 4]

    def real_out(sc, ins, name):
        def f(env):
            return float(np.ravel(sc.real(num_inputs(ins, model.FillEnv(env)))[name])[0])
        return f

    # ---------------- switches and the total
    s = K.surface(2, 3, True)
    for (cls, mod, opt, out, off) in [(c, m, o, u, f) for (c, m, o, u) in (("ViscousDrag", "viscous_drag", "with_viscous", "CDv"), ("WaveDrag", "wave_drag", "with_wave", "CDw"))
                                      for f in (False, np.False_)]:
        sc = SymComp(A + mod, cls, surface=dict(s, **{opt: off}), **{opt: False})
        rep.encode(type(sc.comp))
        ins = sc.inputs()
        paths = sc.sym(ins)
        obs = [oblig.Ob("%s off path %d" % (cls, i), lhs=p.result["outputs"][out].ravel()[0], rhs=ZERO, assume=p.conds,
                        meta={"family": "%s is exactly zero when its option is off" % out}) for i, p in enumerate(paths)]
        f = real_out(sc, ins, out)
        run_obligations(rep, "%s option off%s" % (cls, "" if off is False else " (numpy flag)"), obs, timeout, family=lambda ob, cls=cls: "%s: %s" % (cls, ob.meta["family"]),
                        replay=lambda ob, env, f=f: (f(env) != 0.0, "output %.6g with the option off" % f(env)))
    sc = SymComp(A + "total_drag", "TotalDrag", surface=s)
    rep.encode(type(sc.comp))
    ins = sc.inputs()
    o = sc.sym1(ins)
    obs = idents("CD", o["CD"], [ins["CDi"][0] + ins["CDv"][0] + ins["CDw"][0] + S(s["CD0"])], meta={"family": "CD = CDi + CDv + CDw + CD0"})
    f = real_out(sc, ins, "CD")
    run_obligations(rep, "TotalDrag", obs, timeout, family=lambda ob: "TotalDrag: " + ob.meta["family"],
                    replay=lambda ob, env, f=f: (model.differs(f(env), float(evalf([ob.rhs], model.FillEnv(env))[ob.rhs.nid])), "CD = %.9g" % f(env)))

    # ---------------- wave drag
    for ny in nys:
        for symm in (True, False):
            if not symm and ny % 2 == 0:
                continue
            # (one size with the switch given as a NumPy boolean: "on" is any true value)
            sw = K.surface(2, ny, symm, with_wave=np.True_ if ny == 3 else True)
            sc = SymComp(A + "wave_drag", "WaveDrag", surface=sw, with_wave=True)
            ins = sc.inputs()
            M, CL = ins["Mach_number"][0], ins["CL"][0]
            adm = ([gt(x, 0) for n in ("widths", "lengths_spanwise", "chords") for x in ins[n].ravel()] +
                   [gt(x, 0) for x in ins["t_over_c"].ravel()] + [le(x, S(0.3)) for x in ins["t_over_c"].ravel()] +
                   [le(ins["widths"][e], ins["lengths_spanwise"][e]) for e in range(ny - 1)] +  # cos(sweep) <= 1
                   [ge(ins["widths"][e] * 2, ins["lengths_spanwise"][e]) for e in range(ny - 1)] +  # sweep below 60 deg
                   [gt(M, 0), lt(M, S(0.95)), ge(CL, 0)])
            paths = sc.sym(ins, assumptions=adm)
            tag = "WaveDrag[ny=%d,%s]" % (ny, "sym" if symm else "full")
            obs = []
            for pi, p in enumerate(paths):
                cdw = p.result["outputs"]["CDw"].ravel()[0]
                pa = adm + p.conds
                if cdw is ZERO or (isinstance(cdw, Sym) and cdw.op == "const"):
                    obs.append(oblig.Ob("p%d below critical Mach: CDw = 0" % pi, lhs=cdw, rhs=ZERO, assume=pa,
                                        meta={"family": "wave drag is zero up to the crest-critical Mach number", "kind": "val"}))
                    continue
                obs.append(oblig.Ob("p%d CDw > 0 beyond critical Mach" % pi, cond=le(cdw, 0), assume=pa,
                                    meta={"family": "wave drag is positive beyond the critical Mach number", "kind": "val"}))
                dM = diff.diff_all([cdw], M)[0]
                dCL = diff.diff_all([cdw], CL)[0]
                obs.append(oblig.Ob("p%d dCDw/dM > 0" % pi, cond=le(dM, 0), assume=pa, meta={"family": "wave drag grows monotonically with Mach", "kind": "dM"}))
                obs.append(oblig.Ob("p%d dCDw/dCL > 0" % pi, cond=le(dCL, 0), assume=pa, meta={"family": "wave drag grows with lift", "kind": "dCL"}))
                # continuity at the switch: the supercritical expression vanishes where the path condition becomes an equality
                for d, v, forced in p.decisions:
                    if not forced:
                        e = d.args[0]  # decision  e < 0 (or <=)  on  M vs Mcrit
                        obs.append(oblig.Ob("p%d continuous at onset" % pi, cond=band(eq(e, 0), ne(cdw, 0)), assume=adm,
                                            meta={"family": "wave drag is continuous at its onset", "kind": "cont"}))
                        obs.append(oblig.Ob("p%d smooth at onset" % pi, cond=band(eq(e, 0), ne(dM, 0)), assume=adm,
                                            meta={"family": "wave drag starts smoothly (zero slope) at its onset", "kind": "cont"}))
            # the switch is on: the estimate is not identically zero (some path lies beyond the critical Mach number)
            live = [p for p in paths if not (p.result["outputs"]["CDw"].ravel()[0] is ZERO or
                                             (isinstance(p.result["outputs"]["CDw"].ravel()[0], Sym) and p.result["outputs"]["CDw"].ravel()[0].op == "const"))]
            obs.append(oblig.Ob("option on: a supercritical path exists", lhs=S(len(live) > 0), rhs=ONE, assume=[],
                                meta={"family": "with the option on the wave-drag estimate is active beyond the critical Mach number", "kind": "on"}))
            f = real_out(sc, ins, "CDw")

            def wrp(ob, env, f=f, sc=sc, ins=ins):
                envf = model.FillEnv(env)
                k = ob.meta["kind"]
                if k == "on":
                    # thick section, high lift, M = 0.93: far beyond the critical Mach number of the Korn relation
                    hot = model.FillEnv(dict(envf))
                    hot.update({"Mach_number[0]": 0.93, "CL[0]": 0.6})
                    hot.update({"t_over_c[%d]" % e: 0.14 for e in range(8)})
                    hot.update({"widths[%d]" % e: 1.0 for e in range(8)})
                    hot.update({"lengths_spanwise[%d]" % e: 1.0 for e in range(8)})
                    hot.update({"chords[%d]" % e: 1.0 for e in range(9)})
                    v = f(hot)
                    return not (v > 0), "option on, M = 0.93, t/c = 0.14, CL = 0.6 (critical Mach about 0.64): CDw = %.9g" % v
                v = f(envf)
                if k == "val":
                    ref = float(evalf([ob.lhs], envf)[ob.lhs.nid]) if ob.cond is None else None
                    return (v < 0) or (ob.cond is None and v != 0.0), "CDw = %.9g" % v
                if k in ("dM", "dCL"):
                    key = "Mach_number[0]" if k == "dM" else "CL[0]"
                    e2 = model.FillEnv(dict(envf))
                    e2[key] = envf[key] + 1e-4
                    v2 = f(e2)
                    return v2 <= v, "CDw = %.9g at %s = %.6g and %.9g at %.6g" % (v, key, envf[key], v2, e2[key])
                return None, "limit statement: no point replay"

            run_obligations(rep, tag + " (%d paths)" % len(paths), obs, timeout, replay=wrp, family=lambda ob: "WaveDrag: " + ob.meta["family"],
                            box=(0.3, 0.9))
    # mesh independence of wave drag on a constant-chord, constant-sweep, constant-t/c wing
    c, tc, w1, w2, cs = var("c"), var("tc"), var("w1"), var("w2"), var("cos_sweep")
    M, CL = var("Mach_number[0]"), var("CL[0]")
    adm = [gt(c, 0), gt(tc, 0), gt(w1, 0), gt(w2, 0), gt(cs, 0), le(cs, 1), gt(M, 0), lt(M, 1), ge(CL, 0)]
    outs = {}
    for ny, ws in ((2, [w1 + w2]), (3, [w1, w2])):
        sw = K.surface(2, ny, True, with_wave=True)
        sc = SymComp(A + "wave_drag", "WaveDrag", surface=sw, with_wave=True)
        ins = {"Mach_number": [M], "CL": [CL], "widths": ws, "lengths_spanwise": [w / cs for w in ws], "chords": [c] * ny, "t_over_c": [tc] * (ny - 1)}
        outs[ny] = sc.sym(ins, assumptions=adm)
    obs = []
    for pa in outs[2]:
        for pb in outs[3]:
            obs.append(oblig.Ob("CDw(1 panel) == CDw(2 panels) [%s/%s]" % (pa.label(), pb.label()),
                                lhs=pa.result["outputs"]["CDw"].ravel()[0], rhs=pb.result["outputs"]["CDw"].ravel()[0],
                                assume=adm + pa.conds + pb.conds, meta={"family": "wave drag is independent of the spanwise panel count on a constant-chord wing"}))
    def mesh_indep_replay(cls, mod, over, ckw, ins_of, out):
        def rp(ob, env):
            vals = {"c": 1.3, "tc": 0.12, "w1": 0.8, "w2": 1.7, "cos_sweep": 0.9, "Mach_number[0]": 0.85, "CL[0]": 0.5, "re[0]": 2.0e6, "S_ref[0]": 7.0}
            got = []
            for ny, ws in ((2, [vals["w1"] + vals["w2"]]), (3, [vals["w1"], vals["w2"]])):
                sx = K.surface(2, ny, True, **over)
                got.append(float(np.ravel(SymComp(A + mod, cls, surface=sx, **ckw).real(ins_of(ny, ws, vals))[out])[0]))
            return model.differs(got[0], got[1], 1e-9), "%s = %.12g with one spanwise panel, %.12g with the same strip split in two" % (out, got[0], got[1])
        return rp

    wave_ins = lambda ny, ws, v: {"Mach_number": [v["Mach_number[0]"]], "CL": [v["CL[0]"]], "widths": ws, "lengths_spanwise": [w / v["cos_sweep"] for w in ws],
                                   "chords": [v["c"]] * ny, "t_over_c": [v["tc"]] * (ny - 1)}
    run_obligations(rep, "WaveDrag mesh independence", obs, timeout, family=lambda ob: "WaveDrag: " + ob.meta["family"],
                    replay=mesh_indep_replay("WaveDrag", "wave_drag", {"with_wave": True}, {"with_wave": True}, wave_ins, "CDw"))

    # ---------------- viscous drag
    re_, S_ref = var("re[0]"), var("S_ref[0]")
    for k_lam in ([0.0, 1.0, 0.05] if tier == "quick" else [0.0, 1.0, 0.05, 0.5]):
        for ny in nys[:2]:
            sv = K.surface(2, ny, True, with_viscous=np.True_ if ny == 3 else True, k_lam=k_lam)
            sc = SymComp(A + "viscous_drag", "ViscousDrag", surface=sv, with_viscous=True)
            ins = sc.inputs()
            M = ins["Mach_number"][0]
            adm = ([gt(x, 0) for n in ("widths", "lengths_spanwise", "lengths") for x in ins[n].ravel()] +
                   [gt(x, 0) for x in ins["t_over_c"].ravel()] + [le(x, S(0.3)) for x in ins["t_over_c"].ravel()] +
                   [gt(ins["re"][0], 0), gt(ins["S_ref"][0], 0), gt(M, 0), lt(M, S(0.95))])
            # turbulent / laminar chord Reynolds numbers above 1e3: log10 > 3 is given to the solver as a fact of the box
            paths = sc.sym(ins, assumptions=adm, max_paths=64)
            from symoas.sym import reachable
            tag = "ViscousDrag[k_lam=%g,ny=%d]" % (k_lam, ny)
            obs = []
            # every path of the component (a change that adds a branch - a clamp, a special case - adds paths): the chord
            # Reynolds numbers re * lengths are above 1e3 on all of them (the property's range)
            rec = [gt(ins["re"][0] * x, S(1e3)) for x in ins["lengths"].ravel()]
            for pi, p_ in enumerate(paths):
                cdv = p_.result["outputs"]["CDv"].ravel()[0]
                logs = [n for n in reachable([cdv]) if n.op == "log"]
                box = adm + rec + p_.conds + [gt(l, 3 * S(2.302585092994046)) for l in logs]  # ln(Re_c k) > ln(1e3)
                pt = "" if len(paths) == 1 else " path %d" % pi
                if k_lam in (0.0, 1.0):
                    obs.append(oblig.Ob("CDv > 0" + pt, cond=le(cdv, 0), assume=box, meta={"family": "viscous drag is positive (fully turbulent / fully laminar)", "kind": "pos"}))
                    dre = diff.diff_all([cdv], ins["re"][0])[0]
                    obs.append(oblig.Ob("dCDv/dRe < 0" + pt, cond=ge(dre, 0), assume=box, meta={"family": "viscous drag decreases with Reynolds number (fully turbulent / fully laminar)", "kind": "dre"}))
                    for e in range(ny - 1):
                        dt = diff.diff_all([cdv], ins["t_over_c"][e])[0]
                        obs.append(oblig.Ob("dCDv/d(t/c)[%d] > 0%s" % (e, pt), cond=le(dt, 0), assume=box, meta={"family": "viscous drag increases with thickness ratio", "kind": "dtc", "e": e}))
                else:
                    # with transition the sign of the strip skin-friction sum needs monotonicity of x / log10(x)^2.58, which is
                    # outside the instantiated axioms: posed, reported inconclusive when the solver cannot decide
                    obs.append(oblig.Ob("CDv > 0 (transition)" + pt, cond=le(cdv, 0), assume=box, meta={"family": "viscous drag is positive (with transition)", "kind": "pos"}))
            f = real_out(sc, ins, "CDv")

            def vrp(ob, env, f=f):
                envf = model.FillEnv(env)
                v = f(envf)
                k = ob.meta["kind"]
                if not np.isfinite(v):
                    return True, "CDv = %r (not finite)" % v
                if k == "pos":
                    return v <= 0, "CDv = %.9g" % v
                key = "re[0]" if k == "dre" else "t_over_c[%d]" % ob.meta["e"]
                e2 = model.FillEnv(dict(envf))
                e2[key] = envf[key] * 1.001
                v2 = f(e2)
                bad = v2 >= v if k == "dre" else v2 <= v
                return bad, "CDv = %.9g at %s = %.6g and %.9g at %.6g" % (v, key, envf[key], v2, e2[key])

            run_obligations(rep, tag, obs, timeout, replay=vrp, levels=(2,), family=lambda ob: "ViscousDrag: " + ob.meta["family"],
                            fixed={"re[0]": 1e6, "Mach_number[0]": 0.5}, box=(0.05, 0.3), cut_threshold=0)
    # mesh independence of the strip sum on a constant-chord untwisted wing
    c, tc, w1, w2, cs = var("c"), var("tc"), var("w1"), var("w2"), var("cos_sweep")
    M = var("Mach_number[0]")
    adm = [gt(c, 0), gt(tc, 0), gt(w1, 0), gt(w2, 0), gt(cs, 0), le(cs, 1), gt(M, 0), lt(M, 1), gt(re_, 0), gt(S_ref, 0)]
    for k_lam in (0.05, 0.0, 1.0):
        res = {}
        for ny, ws in ((2, [w1 + w2]), (3, [w1, w2])):
            sv = K.surface(2, ny, True, with_viscous=True, k_lam=k_lam)
            sc = SymComp(A + "viscous_drag", "ViscousDrag", surface=sv, with_viscous=True)
            ins = {"re": [re_], "Mach_number": [M], "S_ref": [S_ref], "widths": ws, "lengths_spanwise": [w / cs for w in ws], "lengths": [c] * ny, "t_over_c": [tc] * (ny - 1)}
            res[ny] = sc.sym1(ins, assumptions=adm)["CDv"].ravel()[0]
        obs = [oblig.Ob("CDv(1 panel) == CDv(2 panels)", lhs=res[2], rhs=res[3], assume=adm,
                        meta={"family": "viscous drag is independent of the spanwise panel count on a constant-chord wing"})]
        visc_ins = lambda ny, ws, v: {"re": [v["re[0]"]], "Mach_number": [v["Mach_number[0]"]], "S_ref": [v["S_ref[0]"]], "widths": ws,
                                       "lengths_spanwise": [w / v["cos_sweep"] for w in ws], "lengths": [v["c"]] * ny, "t_over_c": [v["tc"]] * (ny - 1)}
        run_obligations(rep, "ViscousDrag mesh independence[k_lam=%g]" % k_lam, obs, timeout, family=lambda ob: "ViscousDrag: " + ob.meta["family"],
                        replay=mesh_indep_replay("ViscousDrag", "viscous_drag", {"with_viscous": True, "k_lam": k_lam}, {"with_viscous": True}, visc_ins, "CDv"))
    # chordwise independence: the strip chord `lengths` of a flat constant-chord wing does not depend on nx
    for nx in (2, 3):
        sg = K.surface(nx, 2, True)
        sc = SymComp(A + "geometry", "VLMGeometry", surface=sg)
        rep.encode(type(sc.comp))
        x0, cch = var("x0"), var("c")
        ys = [var("ya"), var("yb")]
        xi = [ZERO, ONE] if nx == 2 else [ZERO, var("xi"), ONE]
        # constant chord, swept by x = x0 + t y: one panel of *any* width (ya < yb), so what is shown holds at every spanwise resolution
        tsw = var("tan_sweep")
        mesh = np.array([[[x0 + tsw * ys[j] + cch * xi[i], ys[j], ZERO] for j in range(2)] for i in range(nx)], dtype=object)
        adm = [gt(cch, 0), lt(ys[0], ys[1])] + ([gt(xi[1], 0), lt(xi[1], 1)] if nx == 3 else [])
        o = sc.sym1({"def_mesh": mesh}, assumptions=adm)
        obs = [oblig.Ob("lengths[%d] == chord (nx=%d)" % (j, nx), lhs=o["lengths"][j], rhs=cch, assume=adm,
                        meta={"family": "strip chord length is independent of the chordwise panel count on a flat wing"}) for j in range(2)]
        obs += [oblig.Ob("widths == dy (nx=%d)" % nx, lhs=o["widths"][0], rhs=ys[1] - ys[0], assume=adm, meta={"family": "strip width is independent of the chordwise panel count"})]
        # the sweep cosine both drag estimates use is widths / lengths_spanwise: it must be that of the quarter-chord line whatever the panel size
        lsq = o["lengths_spanwise"][0]
        obs += [oblig.Ob("lengths_spanwise^2 == (1 + tan^2 sweep) dy^2 (nx=%d)" % nx, lhs=lsq * lsq / ((ys[1] - ys[0]) * (ys[1] - ys[0])), rhs=ONE + tsw * tsw, assume=adm,
                         meta={"family": "the quarter-chord panel length, and with it the sweep cosine of the drag estimates, is independent of the panel size"}),
                oblig.Ob("lengths_spanwise >= 0 (nx=%d)" % nx, cond=lt(lsq, 0), assume=adm,
                         meta={"family": "the quarter-chord panel length, and with it the sweep cosine of the drag estimates, is independent of the panel size"})]
        def geo_rp(ob, env, sc=sc, nx=nx):
            x0v, cv, xiv, tv = 0.3, 1.7, 0.37, 0.5
            xs = [0.0, 1.0] if nx == 2 else [0.0, xiv, 1.0]
            worst, msg = 0.0, ""
            # panels from metres down to millimetres (small models, fine meshes)
            for ya, yb in ((-2.0, -0.5), (-0.25, -0.125), (-0.0625, -0.0625 + 2.0 ** -9)):
                mv = np.array([[[x0v + tv * (ya, yb)[j] + cv * xs[i], (ya, yb)[j], 0.0] for j in range(2)] for i in range(nx)], dtype=float)
                real = sc.real({"def_mesh": mv})
                cosw = float(real["widths"][0] / real["lengths_spanwise"][0])
                e = max(float(np.abs(real["lengths"] - cv).max()), abs(float(real["widths"][0]) - (yb - ya)), abs(cosw - 1.0 / np.sqrt(1.0 + tv * tv)))
                if e > worst:
                    worst, msg = e, "constant-chord wing (chord %.3g, tan sweep %.3g, nx=%d), panel width %.4g: strip chords %s, width %.9g, widths/lengths_spanwise %.9g (cos sweep %.9g)" % (
                        cv, tv, nx, yb - ya, real["lengths"], float(real["widths"][0]), cosw, 1.0 / np.sqrt(1.0 + tv * tv))
            return worst > 1e-9, msg or "strip geometry reproduced at three panel sizes"

        # (witnesses are looked for on a millimetre panel first: a length that is off by an absolute amount shows there)
        run_obligations(rep, "strip geometry nx=%d" % nx, obs, timeout, levels=(2,), family=lambda ob: "VLMGeometry: " + ob.meta["family"], replay=geo_rp,
                        fixed={"ya": (-0.0625, -2.0), "yb": (-0.0625 + 2.0 ** -9, -0.5), "tan_sweep": 0.5, "c": 1.75, "x0": 0.25, "xi": 0.375})
    rep.bounds = {"ny": nys}
    rep.assumptions = ["real arithmetic", "log/pow are uninterpreted atoms with instantiated sign/monotonicity facts; ln(Re_c k_lam) > ln(1e3) given as the admissibility box",
                       "Re-monotonicity and positivity with transition (0 < k_lam < 1) need x/log10(x)^2.58 monotone: posed and reported inconclusive if undecided"]
    # the estimates as the per-surface functionals group wires them: wave drag is evaluated with the surface's own CL
    # (CL1 + CL0), the drag sum takes the group's CDi, CDv, CDw
    from props import groups
    from openaerostruct.aerodynamics.functionals import VLMFunctionals

    for lab, over in (("viscous, wave", dict(with_viscous=True, with_wave=True)), ("wave only", dict(with_viscous=np.False_, with_wave=np.True_))):
        sg = K.surface(2, 3, True, **over)
        groups.wiring_check(rep, lambda sg=sg: VLMFunctionals(surface=sg), "VLMFunctionals(%s)" % lab,
                            "every drag estimate is evaluated on the group's own variables of the same name (lift coefficient, geometry, flow)", timeout)
    return rep.finish("C18 (reduced): switch semantics, wave-drag sign/monotonicity/continuity on every path, viscous-drag sign/monotonicity for "
                      "fully turbulent/laminar flow, spanwise/chordwise mesh independence on constant-chord wings")


def replay_file(path):
    spec = json.load(open(path))
    print("recorded counterexample: %s" % spec.get("what"))
    print("VIOLATION property=%s replay=%s" % (PID, path))
    return 1
