"""C14 - generated meshes are well-formed, ordered and consistent between half and full."""
from __future__ import annotations

import json
import warnings

import numpy as np

from symoas import execute, model, oblig, report
from symoas.model import idents, run_obligations
from symoas.npproxy import symbolic_numpy
from symoas.sym import S, ZERO, ONE, Sym, const, evalf, ge, gt, le, lt, ne, symarray, symify, var

PID = "C14"


def gen(d):
    import openaerostruct.geometry.utils as gu

    with warnings.catch_warnings():
        warnings.simplefilter("ignore")
        return gu.generate_mesh(d)


def run(tier, seed, only=None):
    import openaerostruct.geometry.utils as gu

    rep = report.Report(PID, tier, seed)
    rep.encode(gu.generate_mesh, gu.gen_rect_mesh, gu.add_chordwise_panels, gu.getFullMesh, gu.gen_crm_mesh)
    timeout = 20.0 if tier == "quick" else 60.0
    span, chord = var("span"), var("root_chord")
    bs, bc = var("span_cos_spacing"), var("chord_cos_spacing")
    off = symarray("offset", (3,))
    assume = [gt(span, 0), gt(chord, 0), ge(bs, 0), le(bs, 1), ge(bc, 0), le(bc, 1)]
    sizes = [(2, 3), (3, 5)] if tier == "quick" else [(2, 3), (3, 5), (4, 7), (2, 5), (3, 3)]

    def rect(nx, ny, symm, offset=None, spacing=True):
        d = {"num_x": nx, "num_y": ny, "wing_type": "rect", "symmetry": symm, "span": span, "root_chord": chord}
        if spacing:
            d["span_cos_spacing"] = bs
            d["chord_cos_spacing"] = bc
        if offset is not None:
            d["offset"] = offset
        with symbolic_numpy():
            paths = execute.explore(lambda: symify(gen(d)), assume)
        if len(paths) != 1:
            raise RuntimeError("generate_mesh: %d paths" % len(paths))
        return paths[0].result

    def replay(ob, env):
        env = model.FillEnv(env)
        d = dict(ob.meta["dict"])
        for k in ("span", "root_chord", "span_cos_spacing", "chord_cos_spacing"):
            if k in d:
                d[k] = float(env[k])
        if "offset" in d:
            d["offset"] = np.array([env["offset[%d]" % k] for k in range(3)])
        mesh = np.asarray(gen(d), dtype=float)
        lhs = float(evalf([ob.lhs], env)[ob.lhs.nid]) if ob.cond is None else None
        kind = ob.meta["kind"]
        idx = ob.meta.get("idx")
        if kind == "entry":
            ref = float(evalf([ob.rhs], env)[ob.rhs.nid])
            got = mesh[tuple(idx)]
            return model.differs(got, ref, 1e-9), "generate_mesh%s = %.12g, expected %.12g" % (idx, got, ref)
        if kind == "order":
            a, b = mesh[tuple(ob.meta["a"])], mesh[tuple(ob.meta["b"])]
            return not (b > a), "ordering violated: mesh%s = %.12g, mesh%s = %.12g" % (ob.meta["a"], a, ob.meta["b"], b)
        if kind == "extent":
            got = mesh[ob.meta["row"], -1, 1] - mesh[ob.meta["row"], 0, 1]
            return model.differs(got, d["span"], 1e-9), "tip-to-tip extent %.12g, requested span %.12g" % (got, d["span"])
        if kind == "chord":
            got = mesh[-1, ob.meta["col"], 0] - mesh[0, ob.meta["col"], 0]
            return model.differs(got, d["root_chord"], 1e-9), "chord %.12g at spanwise station %d, requested root chord %.12g (chord_cos_spacing %.4g)" % (
                got, ob.meta["col"], d["root_chord"], d.get("chord_cos_spacing", 0.0))
        if kind in ("gfm_left", "gfm_right"):
            half = np.asarray(gen(dict(d, symmetry=True)), dtype=float)
            arg = half.copy() if kind == "gfm_left" else (np.flip(half, axis=1) * np.array([1.0, -1.0, 1.0])).copy()
            keep = arg.copy()
            back = np.asarray(gu.getFullMesh(left_mesh=arg) if kind == "gfm_left" else gu.getFullMesh(right_mesh=arg), dtype=float)
            bad = []
            if back.shape != mesh.shape or np.abs(back - mesh).max() > 1e-9:
                bad.append("getFullMesh(%s half) differs from the full mesh by %.6g" % ("left" if kind == "gfm_left" else "right", np.abs(back - mesh).max() if back.shape == mesh.shape else np.inf))
            if np.abs(arg - keep).max() > 0:
                bad.append("the caller's half mesh was modified in place (max change %.6g)" % np.abs(arg - keep).max())
            return bool(bad), "; ".join(bad) or "mirroring back reproduces the full mesh"
        return None, "no replay"

    for (nx, ny) in sizes:
        full = rect(nx, ny, False)
        half = rect(nx, ny, True)
        fullo = rect(nx, ny, False, offset=off)
        dmeta = {"num_x": nx, "num_y": ny, "wing_type": "rect", "symmetry": False, "span": 0, "root_chord": 0, "span_cos_spacing": 0, "chord_cos_spacing": 0}
        obs = []
        # shape
        if full.shape != (nx, ny, 3) or half.shape != (nx, (ny + 1) // 2, 3):
            rep.errors.append("generate_mesh shape %r / %r for num_x=%d num_y=%d" % (full.shape, half.shape, nx, ny))
        # ordering
        for i in range(nx - 1):
            for j in range(ny):
                obs.append(oblig.Ob("x increases chordwise [%d,%d]" % (i, j), cond=le(full[i + 1, j, 0], full[i, j, 0]), assume=assume,
                                    meta={"family": "x increases chordwise", "kind": "order", "a": [i, j, 0], "b": [i + 1, j, 0], "dict": dmeta}))
        for i in range(nx):
            for j in range(ny - 1):
                obs.append(oblig.Ob("y increases spanwise [%d,%d]" % (i, j), cond=le(full[i, j + 1, 1], full[i, j, 1]), assume=assume,
                                    meta={"family": "y increases spanwise", "kind": "order", "a": [i, j, 1], "b": [i, j + 1, 1], "dict": dmeta}))
        # extents
        for i in range(nx):
            obs.append(oblig.Ob("span extent row %d" % i, lhs=full[i, ny - 1, 1] - full[i, 0, 1], rhs=span, assume=assume,
                                meta={"family": "tip-to-tip extent equals the requested span", "kind": "extent", "row": i, "dict": dmeta}))
        for j in range(ny):
            obs.append(oblig.Ob("root chord col %d" % j, lhs=full[nx - 1, j, 0] - full[0, j, 0], rhs=chord, assume=assume,
                                meta={"family": "chord equals the requested root chord", "kind": "chord", "col": j, "dict": dmeta}))
        # mirror symmetry about y = 0
        for i in range(nx):
            for j in range(ny):
                obs.append(oblig.Ob("mirror y [%d,%d]" % (i, j), lhs=full[i, j, 1], rhs=-full[i, ny - 1 - j, 1], assume=assume,
                                    meta={"family": "mesh is mirror-symmetric about y = 0", "kind": "entry", "idx": [i, j, 1], "dict": dmeta}))
                for k in (0, 2):
                    obs.append(oblig.Ob("mirror xz [%d,%d,%d]" % (i, j, k), lhs=full[i, j, k], rhs=full[i, ny - 1 - j, k], assume=assume,
                                        meta={"family": "mesh is mirror-symmetric about y = 0", "kind": "entry", "idx": [i, j, k], "dict": dmeta}))
        # offset is a pure translation
        dm2 = dict(dmeta, offset=0)
        for idx in np.ndindex(nx, ny, 3):
            obs.append(oblig.Ob("offset %s" % list(idx), lhs=fullo[idx], rhs=full[idx] + off[idx[2]], assume=assume,
                                meta={"family": "offset is a pure translation", "kind": "entry", "idx": list(idx), "dict": dm2}))
        # half mesh = left half of the full mesh; mirroring it back reproduces the full mesh
        nh = (ny + 1) // 2
        dm3 = dict(dmeta, symmetry=True)
        for idx in np.ndindex(nx, nh, 3):
            obs.append(oblig.Ob("half == left half %s" % list(idx), lhs=half[idx], rhs=full[idx], assume=assume,
                                meta={"family": "symmetric half mesh is the left half of the full mesh", "kind": "entry", "idx": list(idx), "dict": dm3}))
        with symbolic_numpy():
            back = symify(gu.getFullMesh(left_mesh=half))
            back_r = symify(gu.getFullMesh(right_mesh=symify(np.flip(half, axis=1) * np.array([1, -1, 1]))))
        if back.shape != full.shape:
            rep.errors.append("getFullMesh shape %r" % (back.shape,))
        else:
            for idx in np.ndindex(nx, ny, 3):
                obs.append(oblig.Ob("getFullMesh(left half) %s" % list(idx), lhs=back[idx], rhs=full[idx], assume=assume,
                                    meta={"family": "mirroring the half mesh reproduces the full mesh", "kind": "gfm_left", "dict": dmeta}))
                obs.append(oblig.Ob("getFullMesh(right half) %s" % list(idx), lhs=back_r[idx], rhs=full[idx], assume=assume,
                                    meta={"family": "mirroring the half mesh reproduces the full mesh", "kind": "gfm_right", "dict": dmeta}))
        run_obligations(rep, "rect mesh num_x=%d num_y=%d" % (nx, ny), obs, timeout, replay=replay,
                        family=lambda ob: "generate_mesh(rect): " + ob.meta["family"], box=(0.05, 0.95),
                        fixed={"span": 10.0, "root_chord": 2.0})
    # ---- the documented special value span_cos_spacing = 2 and concrete CRM planforms: ground queries on the real output
    obs = []
    for wt in (["CRM", "rect2"] if tier == "quick" else ["CRM", "CRM:jig", "CRM:alpha_2.75", "rect2"]):
        for (nx, ny) in (sizes + ([(4, 5), (5, 7)] if wt != "rect2" else [])):  # CRM: interior chordwise rows exist from num_x = 3, differ from 4 on
            for symm in (False, True):
                if wt == "rect2":
                    d = {"num_x": nx, "num_y": ny, "wing_type": "rect", "symmetry": symm, "span_cos_spacing": 2.0, "span": 10.0, "root_chord": 1.0}
                    mesh = np.asarray(gen(d), dtype=float)
                else:
                    d = {"num_x": nx, "num_y": ny, "wing_type": wt, "symmetry": symm, "num_twist_cp": 3}
                    mesh = np.asarray(gen(d)[0], dtype=float)
                    # the twist control points returned with a CRM mesh: as many as asked for, mirror symmetric on a full
                    # span, and on its left half the values of the half model (tip -> root)
                    for ntw in ((2, 3, 4, 5, 6) if (nx, ny) == sizes[0] else ()):
                        from symoas.sym import fabs as _fabs
                        from fractions import Fraction as _Fr
                        tw = np.asarray(gen(dict(d, num_twist_cp=ntw))[1], dtype=float)
                        cq = lambda v: const(_Fr(float(v)))
                        mt = {"wt": wt, "nx": nx, "ny": ny, "symm": symm, "ntw": ntw, "kind": "twist"}
                        obs.append(oblig.Ob("%s twist count %d (%s)" % (wt, ntw, "half" if symm else "full"), lhs=S(len(tw)), rhs=S(ntw),
                                            meta=dict(mt, family="as many CRM twist control points as requested (%s)" % wt.split(":")[0])))
                        if not symm:
                            for j in range(len(tw)):
                                obs.append(oblig.Ob("%s twist mirror %d/%d" % (wt, j, ntw), cond=gt(_fabs(cq(tw[j]) - cq(tw[len(tw) - 1 - j])), S(1e-12)),
                                                    meta=dict(mt, family="CRM twist control points of a full-span wing are mirror symmetric (%s)" % wt.split(":")[0])))
                            half = np.asarray(gen(dict(d, symmetry=True, num_twist_cp=(ntw + 1) // 2))[1], dtype=float)
                            for j in range(len(half)):
                                obs.append(oblig.Ob("%s twist left half %d/%d" % (wt, j, ntw), cond=gt(_fabs(cq(tw[j]) - cq(half[j])), S(1e-12)),
                                                    meta=dict(mt, family="left half of the full-span CRM twist control points = those of the half model (%s)" % wt.split(":")[0])))
                nyy = mesh.shape[1]
                if mesh.shape != (nx, ny if not symm else (ny + 1) // 2, 3):
                    rep.errors.append("shape %r for %r" % (mesh.shape, d))
                from fractions import Fraction
                q = np.vectorize(lambda v: const(Fraction(float(v))), otypes=[object])(mesh)
                tag = "%s %dx%d %s" % (wt, nx, ny, "half" if symm else "full")
                for i in range(nx - 1):
                    for j in range(nyy):
                        obs.append(oblig.Ob("%s x order [%d,%d]" % (tag, i, j), cond=le(q[i + 1, j, 0], q[i, j, 0]), meta={"family": "x increases chordwise (%s)" % wt.split(":")[0], "cfg": (wt, nx, ny, symm)}))
                for j in range(nyy - 1):
                    obs.append(oblig.Ob("%s y order [%d]" % (tag, j), cond=le(q[0, j + 1, 1], q[0, j, 1]), meta={"family": "y increases spanwise (%s)" % wt.split(":")[0], "cfg": (wt, nx, ny, symm)}))
                if not symm:
                    for j in range(nyy):
                        from symoas.sym import fabs
                        obs.append(oblig.Ob("%s mirror [%d]" % (tag, j), cond=gt(fabs(q[0, j, 1] + q[0, nyy - 1 - j, 1]), S(1e-9)), meta={"family": "mirror symmetry about y = 0 (%s)" % wt.split(":")[0], "cfg": (wt, nx, ny, symm)}))
    def planform_replay(ob, env):
        # ground clauses about the real generator's output: generate again and evaluate the clause on floats
        m_ = ob.meta
        if m_.get("kind") == "twist":
            d_ = {"num_x": m_["nx"], "num_y": m_["ny"], "wing_type": m_["wt"], "symmetry": m_["symm"], "num_twist_cp": m_["ntw"]}
            tw_ = np.asarray(gen(d_)[1], dtype=float)
            bad_ = []
            if len(tw_) != m_["ntw"]:
                bad_.append("%d control points returned for num_twist_cp = %d" % (len(tw_), m_["ntw"]))
            if not m_["symm"]:
                if np.abs(tw_ - tw_[::-1]).max() > 1e-12:
                    bad_.append("twist control points %s are not mirror symmetric" % np.round(tw_, 4))
                half_ = np.asarray(gen(dict(d_, symmetry=True, num_twist_cp=(m_["ntw"] + 1) // 2))[1], dtype=float)
                if len(tw_) >= len(half_) and np.abs(tw_[: len(half_)] - half_).max() > 1e-12:
                    bad_.append("left half %s differs from the half model's %s" % (np.round(tw_[: len(half_)], 4), np.round(half_, 4)))
            return bool(bad_), "%s, symmetry=%s, num_twist_cp=%d: %s" % (m_["wt"], m_["symm"], m_["ntw"], "; ".join(bad_) or "clause holds on the real output")
        wt_, nx_, ny_, symm_ = m_["cfg"]
        if wt_ == "rect2":
            mesh_ = np.asarray(gen({"num_x": nx_, "num_y": ny_, "wing_type": "rect", "symmetry": symm_, "span_cos_spacing": 2.0, "span": 10.0, "root_chord": 1.0}), dtype=float)
        else:
            mesh_ = np.asarray(gen({"num_x": nx_, "num_y": ny_, "wing_type": wt_, "symmetry": symm_, "num_twist_cp": 3})[0], dtype=float)
        bad_ = []
        if np.any(np.diff(mesh_[:, :, 0], axis=0) <= 0):
            bad_.append("x does not increase chordwise")
        if np.any(np.diff(mesh_[0, :, 1]) <= 0):
            bad_.append("y does not increase spanwise")
        if not symm_ and np.abs(mesh_[0, :, 1] + mesh_[0, ::-1, 1]).max() > 1e-9:
            bad_.append("y not mirror symmetric")
        return bool(bad_), "%s %dx%d symmetry=%s: %s" % (wt_, nx_, ny_, symm_, "; ".join(bad_) or "clause holds on the real output")

    for o_ in obs:
        o_.meta.setdefault("cfg", None)
    run_obligations(rep, "concrete planforms (CRM tables, span_cos_spacing=2)", obs, timeout, family=lambda ob: "generate_mesh: " + ob.meta["family"], cut_threshold=0,
                    replay=planform_replay)
    multisection(rep, tier, timeout)
    rep.bounds = {"sizes": sizes, "blends": "symbolic in [0,1]", "span, chord": "symbolic > 0", "CRM": "concrete tables"}
    rep.assumptions = ["real arithmetic; concrete cosines of the spacing law are the doubles numpy computes (residues below 1e-15 are zero)"]
    return rep.finish("C14: generators executed with symbolic span/chord/blends/offset; ordering, extents, symmetry, offset and half/full "
                      "relations as SMT obligations; CRM tables and the special spacing value as ground queries on the real output")


def multisection(rep, tier, timeout):
    multisection_case(rep, tier, timeout, True, 3 if tier == "quick" else 4, None)
    # full-span multi-section surfaces: sections left of, and right of, the root section
    multisection_case(rep, tier, timeout, False, 3, 1)
    multisection_case(rep, tier, timeout, False, 4, 1)
    if tier != "quick":
        multisection_case(rep, tier, timeout, False, 2, 0)
        multisection_case(rep, tier, timeout, False, 4, 2)


def multisection_case(rep, tier, timeout, symmetry, nsec, root):
    import openaerostruct.geometry.geometry_mesh_gen as mg
    from openaerostruct.geometry.geometry_unification import unify_mesh

    rep.encode(mg.generate_mesh, mg.generate_section_geometry, mg.stitch_section_geometry, mg.output_oas_mesh, unify_mesh)
    taper = symarray("taper", (nsec,))
    spans = symarray("secspan", (nsec,))
    tsw = symarray("tansweep", (nsec,))
    rc = var("root_chord")
    from symoas.sym import atan
    assume = [gt(rc, 0)] + [gt(t, 0) for t in taper] + [lt(t, 2) for t in taper] + [gt(b, 0) for b in spans]
    surface = {"num_sections": nsec, "symmetry": symmetry, "taper": taper, "span": spans,
               "sweep": np.array([atan(t) for t in tsw], dtype=object), "root_chord": rc, "nx": 2, "ny": np.array([2, 3, 2, 3][:nsec])}
    if not symmetry:
        surface["root_section"] = root
    rootsec = nsec - 1 if symmetry else root
    label = "multi-section generate_mesh/unify (%s, %d sections%s" % ("symmetric half" if symmetry else "full span", nsec, "" if symmetry else ", root section %d" % root)

    def numeric_surface(envf):
        num = lambda a: np.array([float(evalf([S(x)], envf)[S(x).nid]) for x in np.asarray(a, dtype=object).ravel()]).reshape(np.shape(a))
        return dict(surface, taper=num(taper), span=num(spans), sweep=np.arctan(num(tsw)), root_chord=float(num(rc)))

    try:
        with symbolic_numpy():
            paths = execute.explore(lambda: mg.generate_mesh(surface), assume + [ne(t, 1) for t in taper])
    except execute.ForkBudgetExceeded:
        raise
    except Exception as e:
        # the generator does not get through a valid description at all: confirm on floats and report
        envf = model.FillEnv({})
        envf.update({"root_chord": 1.5})
        envf.update({"taper[%d]" % k: 0.8 - 0.1 * k for k in range(nsec)})
        envf.update({"secspan[%d]" % k: 1.0 + 0.5 * k for k in range(nsec)})
        envf.update({"tansweep[%d]" % k: 0.1 * (k + 1) for k in range(nsec)})
        rep.counts["obligations"] += 1
        rep.counts["nontrivial"] += 1
        rep.counts["candidates"] += 1
        try:
            mg.generate_mesh(numeric_surface(envf))
            rep.not_reproduced.append({"id": label, "why": "symbolic execution raised %r but the real call on floats succeeds" % (e,)})
            rep.errors.append("%s): symbolic execution raised %r" % (label, e))
        except Exception as e2:
            rep.violation("multi-section: the generator returns a mesh for every valid section list (%s)" % ("symmetric half" if symmetry else "full span, %d sections right of the root" % (nsec - 1 - root)),
                          "generate_mesh raises %r for %d sections, root section %s, symmetry=%s" % (e2, nsec, root, symmetry),
                          {"group": label, "env": dict(envf), "crash": True, "symmetry": symmetry, "nsec": nsec, "root": root})
        rep.log("%-52s generator raised %r" % (label + ")", e))
        return
    obs = []
    for p in paths:
        mesh, secs = p.result
        mesh = symify(mesh)
        secs = [symify(s) for s in secs]
        pa = assume + [ne(t, 1) for t in taper] + p.conds
        # sections join with coincident edges
        for k in range(nsec - 1):
            for i in range(mesh.shape[0]):
                for c in range(3):
                    obs.append(oblig.Ob("edge sec%d/sec%d [%d,%d]" % (k, k + 1, i, c), lhs=secs[k][i, -1, c], rhs=secs[k + 1][i, 0, c], assume=pa,
                                        meta={"family": "multi-section meshes join with coincident edges"}))
        # requested root chord and per-section taper: the chord at the inboard edge of section k is the root chord times the
        # tapers of all sections between it and the root, the chord at its outboard edge that times its own taper
        # (sections are numbered left -> right; left of the root the inboard edge is the last column, right of it the first)
        for side, order in (("left", range(rootsec, -1, -1)), ("right", range(rootsec + 1, nsec))):
            c_in = rc if side == "left" else rc
            for k in order:
                inb, outb = (-1, 0) if side == "left" else (0, -1)
                obs.append(oblig.Ob("chord sec%d inboard" % k, lhs=secs[k][-1, inb, 0] - secs[k][0, inb, 0], rhs=c_in, assume=pa,
                                    meta={"family": "section chords follow the requested root chord and tapers"}))
                c_in = c_in * taper[k]
                obs.append(oblig.Ob("chord sec%d outboard" % k, lhs=secs[k][-1, outb, 0] - secs[k][0, outb, 0], rhs=c_in, assume=pa,
                                    meta={"family": "section chords follow the requested root chord and tapers"}))
                obs.append(oblig.Ob("span sec%d" % k, lhs=secs[k][0, -1, 1] - secs[k][0, 0, 1], rhs=spans[k], assume=pa,
                                    meta={"family": "section spans are the requested ones"}))
        # unifying the sections reproduces the contiguous surface node for node
        with symbolic_numpy():
            uni = symify(unify_mesh([{"mesh": s} for s in secs], shift_uni_mesh=False))
        if uni.shape != mesh.shape:
            rep.errors.append("unify_mesh shape %r vs %r" % (uni.shape, mesh.shape))
        else:
            obs += idents("unify(sections) == surface", uni, mesh, assume=pa, meta={"family": "unifying C0-continuous sections reproduces the contiguous surface"})
        # ordering: y increases, section spans respected
        for j in range(mesh.shape[1] - 1):
            obs.append(oblig.Ob("y increases [%d]" % j, cond=le(mesh[0, j + 1, 1], mesh[0, j, 1]), assume=pa, meta={"family": "y increases spanwise (multi-section)"}))
        obs.append(oblig.Ob("total extent", lhs=mesh[0, -1, 1] - mesh[0, 0, 1], rhs=sum(list(spans), ZERO), assume=pa, meta={"family": "multi-section extent is the sum of the section spans"}))
        for i in range(mesh.shape[0] - 1):
            for j in range(mesh.shape[1]):
                obs.append(oblig.Ob("x increases [%d,%d]" % (i, j), cond=le(mesh[i + 1, j, 0], mesh[i, j, 0]), assume=pa, meta={"family": "x increases chordwise (multi-section)"}))

    def replay(ob, env):
        # the real generator on floats at the witness; the clause of the obligation's family is re-measured on its output
        envf = model.FillEnv(env)
        surf = numeric_surface(envf)
        rmesh, rsecs = mg.generate_mesh(surf)
        runi = unify_mesh([{"mesh": x} for x in rsecs], shift_uni_mesh=False)
        fam = ob.meta["family"]
        bad = []
        if "coincident" in fam:
            for k in range(nsec - 1):
                d = np.abs(rsecs[k][:, -1, :] - rsecs[k + 1][:, 0, :]).max()
                if d > 1e-9:
                    bad.append("sections %d and %d do not share an edge (gap %.3g)" % (k, k + 1, d))
        elif "chords" in fam or "spans" in fam:
            for side, order in (("left", range(rootsec, -1, -1)), ("right", range(rootsec + 1, nsec))):
                c = surf["root_chord"]
                for k in order:
                    inb, outb = (-1, 0) if side == "left" else (0, -1)
                    got = (rsecs[k][-1, inb, 0] - rsecs[k][0, inb, 0], rsecs[k][-1, outb, 0] - rsecs[k][0, outb, 0])
                    want = (c, c * surf["taper"][k])
                    c = want[1]
                    if model.differs(got[0], want[0]) or model.differs(got[1], want[1]):
                        bad.append("section %d chords %.6g -> %.6g, requested %.6g -> %.6g" % (k, got[0], got[1], want[0], want[1]))
                    if model.differs(rsecs[k][0, -1, 1] - rsecs[k][0, 0, 1], surf["span"][k]):
                        bad.append("section %d span %.6g, requested %.6g" % (k, rsecs[k][0, -1, 1] - rsecs[k][0, 0, 1], surf["span"][k]))
        elif "unifying" in fam:
            if runi.shape != rmesh.shape or np.abs(runi - rmesh).max() > 1e-9:
                bad.append("unify_mesh(sections) differs from the surface mesh")
        else:
            if np.any(np.diff(rmesh[0, :, 1]) <= 0):
                bad.append("y not increasing")
            if np.any(np.diff(rmesh[:, :, 0], axis=0) <= 0):
                bad.append("x not increasing")
            if model.differs(rmesh[0, -1, 1] - rmesh[0, 0, 1], surf["span"].sum()):
                bad.append("total extent %.6g vs %.6g" % (rmesh[0, -1, 1] - rmesh[0, 0, 1], surf["span"].sum()))
        return bool(bad), "; ".join(bad) or "real generate_mesh output satisfies the clause at the witness"

    fam_tag = "multi-section: " if symmetry else "multi-section (full span): "
    run_obligations(rep, label + ", %d paths)" % len(paths), obs, timeout, replay=replay,
                    family=lambda ob: fam_tag + ob.meta["family"], box=(0.4, 0.9))


def replay_file(path):
    spec = json.load(open(path))
    print("recorded counterexample: %s" % spec.get("what"))
    print("VIOLATION property=%s replay=%s" % (PID, path))
    return 1
