"""C01 - analytic partials == true derivative, entry by entry, for all real inputs (bounded mesh sizes).

Also hosts the shared case registry used by C03.
"""
from __future__ import annotations

import importlib
import json
import time

import numpy as np

from symoas import cases as K
from symoas import oblig, partials, report, solve
from symoas.partials import Case
from symoas.sym import bool_syms, evalb, evalf, ge, gt, le, lt, ne, S, variables

PID = "C01"


def F(modname, cls, **kw):
    def f(cfg):
        m = importlib.import_module("openaerostruct." + modname)
        return getattr(m, cls)(**{**kw, **cfg})

    f.__qualname__ = "%s.%s" % (modname, cls)
    return f


# ------------------------------------------------------------------------------- surface configurations
def surf_cfgs(tier):
    """name -> single-surface dict"""
    c = {
        "symL_2x2": K.surface(2, 2, True),
        "symL_2x3": K.surface(2, 3, True),
        "full_2x3": K.surface(2, 3, False),
        "symR_2x3": K.surface(2, 3, True, right=True),
    }
    if tier == "thorough":
        c.update({
            "symL_3x3": K.surface(3, 3, True),
            "symL_2x4": K.surface(2, 4, True),
            "full_3x3": K.surface(3, 3, False),
            "full_2x5": K.surface(2, 5, False),
            "symR_3x2": K.surface(3, 2, True, right=True),
        })
    return c


def multi_cfgs(tier):
    """name -> list of surfaces"""
    c = {
        "1symL_2x2": [K.surface(2, 2, True)],
        "1full_2x3": [K.surface(2, 3, False)],
        "symL_2x2+full_2x3": [K.surface(2, 2, True), K.surface(2, 3, False, name="tail")],
    }
    if tier == "thorough":
        c.update({
            "1symR_2x3": [K.surface(2, 3, True, right=True)],
            "symL_3x3+symR_2x2": [K.surface(3, 3, True), K.surface(2, 2, True, right=True, name="tail")],
            "1full_3x3": [K.surface(3, 3, False)],
        })
    return c


def pos(*names):
    """assumption builder: listed inputs strictly positive (all entries)"""
    def a(ins):
        out = []
        for n in names:
            for x in ins[n].ravel():
                out.append(gt(x, 0))
        return out

    return a


def build_cases(tier):
    C = []
    S1 = surf_cfgs(tier)
    SM = multi_cfgs(tier)

    def per_surface(label, mod, cls, names=None, **kw):
        extra = {k: kw.pop(k) for k in list(kw) if k in ("assumptions", "overrides", "nominal", "skip_wrt", "max_paths",
                                                           "note", "timeout", "comp_kw", "surf_over")}
        ckw = extra.pop("comp_kw", {})
        so = extra.pop("surf_over", {})
        for cn, s in S1.items():
            if names and cn not in names:
                continue
            s2 = dict(s)
            s2.update(so)
            C.append(Case("%s[%s]" % (label, cn), F(mod, cls, surface=s2, **ckw), **extra))

    def per_multi(label, mod, cls, names=None, **kw):
        extra = {k: kw.pop(k) for k in list(kw) if k in ("assumptions", "overrides", "nominal", "skip_wrt", "max_paths",
                                                           "note", "timeout", "comp_kw", "surf_over")}
        ckw = extra.pop("comp_kw", {})
        so = extra.pop("surf_over", {})
        for cn, ss in SM.items():
            if names and cn not in names:
                continue
            ss2 = [dict(s, **so) for s in ss]
            C.append(Case("%s[%s]" % (label, cn), F(mod, cls, surfaces=ss2, **ckw), **extra))

    # ---- aerodynamics
    C.append(Case("Coeffs", F("aerodynamics.coeffs", "Coeffs")))
    per_multi("CollocationPoints", "aerodynamics.collocation_points", "CollocationPoints")
    per_multi("ConvertVelocity", "aerodynamics.convert_velocity", "ConvertVelocity")
    per_multi("ConvertVelocity(rot)", "aerodynamics.convert_velocity", "ConvertVelocity", comp_kw={"rotational": True})
    per_multi("EvalVelocities", "aerodynamics.eval_velocities", "EvalVelocities",
              comp_kw={"eval_name": "ev", "num_eval_points": 2})
    per_surface("VLMGeometry", "aerodynamics.geometry", "VLMGeometry")
    per_surface("VLMGeometry(projected)", "aerodynamics.geometry", "VLMGeometry", surf_over={"S_ref_type": "projected"})
    per_multi("GetVectors", "aerodynamics.get_vectors", "GetVectors", comp_kw={"eval_name": "ev", "num_eval_points": 2})
    per_multi("HorseshoeCirculations", "aerodynamics.horseshoe_circulations", "HorseshoeCirculations")
    per_surface("LiftCoeff2D", "aerodynamics.lift_coeff_2D", "LiftCoeff2D")
    per_surface("LiftDrag", "aerodynamics.lift_drag", "LiftDrag")
    per_multi("MeshPointForces", "aerodynamics.mesh_point_forces", "MeshPointForces")
    per_multi("VLMMtxRHSComp", "aerodynamics.mtx_rhs", "VLMMtxRHSComp")
    per_multi("PanelForces", "aerodynamics.panel_forces", "PanelForces")
    per_multi("PanelForcesSurf", "aerodynamics.panel_forces_surf", "PanelForcesSurf")
    per_multi("RotationalVelocity", "aerodynamics.rotational_velocity", "RotationalVelocity")
    per_multi("SolveMatrix", "aerodynamics.solve_matrix", "SolveMatrix")
    per_surface("TotalDrag", "aerodynamics.total_drag", "TotalDrag", names=["symL_2x2"])
    per_surface("TotalLift", "aerodynamics.total_lift", "TotalLift", names=["symL_2x2"])
    per_multi("VortexMesh", "aerodynamics.vortex_mesh", "VortexMesh")
    return C


# ------------------------------------------------------------------------------- run
def nominal_env(case, out):
    r = out["runner"]
    rng = np.random.default_rng(4242)
    vals = case.nominal(r, rng) if case.nominal else partials.default_nominal(r, rng)
    vals = {n: np.array(vals.get(n, r.defaults[n]), dtype=float).reshape(r.shapes[n]) for n in r.in_names}
    if r.implicit:
        for n in r.out_names:
            vals[n] = 0.25 + rng.random(r.shapes[n])
    return partials.env_from_inputs(r, vals)


def witness_env(case, out, ob):
    """A concrete point for replay: nominal point, with the solver's values for the variables that
    occur in the path condition / assumptions (so that the path is the one the obligation is about)."""
    env = nominal_env(case, out)
    menv = oblig.model_env(ob)
    conds = list(ob.assume)
    names = set()
    for c in conds:
        for v in variables(bool_syms(c)):
            names.add(v.args[0])
    e2 = dict(env)
    for n in names:
        if n in menv:
            e2[n] = menv[n]

    def holds(e):
        try:
            roots = [s for c in conds for s in bool_syms(c)]
            val = evalf(roots, e)
            return all(evalb(c, val) for c in conds)
        except Exception:
            return False

    cands = [e2]
    full = dict(env)
    full.update({k: v for k, v in menv.items() if k in env})
    cands.append(full)
    for e in cands:
        if holds(e):
            return e
    return None


def replay_point(case, env, meta, tol=1e-6):
    """Real code: analytic partial vs Richardson central difference at env."""
    r0 = partials.CompRunner(case.factory(dict(case.cfg)), prerun=False)
    vals = partials.inputs_from_env(r0, env)
    r, outs, J = partials.real_eval(case, vals, prob_r=r0)
    key = (meta["of"], meta["wrt"])
    if key not in J:
        return None, "pair %s not reported by check_partials" % (key,)
    jf = float(np.real(J[key]["J_fwd"][meta["i"], meta["j"]]))
    jd = float(np.real(J[key]["J_fd"][meta["i"], meta["j"]]))
    if not (np.isfinite(jf) and np.isfinite(jd)):
        return None, "non-finite replay values"
    bad = abs(jf - jd) > tol * max(1.0, abs(jf), abs(jd)) + 1e-9
    return bad, "analytic d%s[%d]/d%s[%d] = %.9g, central difference = %.9g" % (
        meta["of"], meta["i"], meta["wrt"], meta["j"], jf, jd)


def family_of(case, ob):
    base = case.name.split("[")[0]
    return "%s partial d(%s)/d(%s) path{%s}" % (base, ob.meta["of"], ob.meta["wrt"], ob.meta["path"])


def process(case, out, rep, obs, replay_fn, family_fn, max_replays_per_family=2):
    tried = {}
    for o in obs:
        if o.verdict != "candidate":
            continue
        fam = family_fn(case, o)
        if tried.get(fam, 0) >= max_replays_per_family:
            continue
        tried[fam] = tried.get(fam, 0) + 1
        env = witness_env(case, out, o)
        if env is None:
            rep.not_reproduced.append({"id": o.id, "why": "no admissible witness point found"})
            continue
        try:
            bad, what = replay_fn(case, env, o.meta)
        except Exception as e:
            bad, what = None, "replay crashed: %r" % (e,)
        if bad:
            spec = {"case": case.name, "meta": o.meta, "env": env, "what": what}
            rep.violation(fam, what, spec)
        else:
            rep.not_reproduced.append({"id": o.id, "why": what})


def run(tier, seed, only=None):
    rep = report.Report(PID, tier, seed)
    cases = build_cases(tier)
    if only:
        cases = [c for c in cases if any(s in c.name for s in only)]
    timeout = 20.0 if tier == "quick" else 60.0
    for case in cases:
        t0 = time.time()
        try:
            out = partials.run_case(case, rep, want=("C01",), timeout=timeout)
        except Exception as e:
            import traceback

            traceback.print_exc()
            rep.errors.append("case %s: %r" % (case.name, e))
            continue
        obs = out["c01"]
        rep.add_obs(case.name, obs)
        s = oblig.summarize(obs)
        v = out.get("validation") or {}
        g = dict(out["info"])
        g.update({k: s[k] for k in ("obligations", "discharged", "candidate", "inconclusive", "nontrivial")})
        g["validation"] = {k: (float(x) if isinstance(x, (np.floating, float)) else (bool(x) if isinstance(x, (np.bool_, bool)) else x))
                           for k, x in v.items()}
        rep.groups.append(g)
        if v.get("ok") is False:
            rep.errors.append("encoder validation failed for %s: %s" % (case.name, v.get("worst")))
        if v.get("ok"):
            rep.validation["cases"] += 1
            rep.validation["max_rel_err"] = max(rep.validation["max_rel_err"], float(v["max_rel_err"]))
        process(case, out, rep, obs, replay_point, family_of)
        rep.log("%-45s paths=%d obl=%d nontriv=%d disch=%d cand=%d inconc=%d valid=%s  %.1fs" % (
            case.name, out["info"]["paths"], s["obligations"], s["nontrivial"], s["discharged"], s["candidate"],
            s["inconclusive"], v.get("ok"), time.time() - t0))
    rep.bounds = {"tier": tier, "cases": [c.name for c in cases]}
    rep.assumptions = ["real arithmetic (no IEEE round-off)", "per-path derivative away from switching surfaces",
                       "OpenMDAO setup metadata (rows/cols/val/shape) taken from the real set-up problem"]
    return rep.finish("C01: per-entry solver obligations J_code[i,j] == d out_i / d in_j for every real component case")


def replay_file(path):
    spec = json.load(open(path))
    tier = "thorough"
    cases = {c.name: c for c in build_cases(tier)}
    case = cases[spec["case"]]
    bad, what = replay_point(case, spec["env"], spec["meta"])
    print(what)
    if bad:
        print("VIOLATION property=%s replay=%s" % (PID, path))
        return 1
    return 0
