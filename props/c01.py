"""C01 - analytic partials == true derivative, entry by entry, for all real inputs (bounded mesh sizes).

Also hosts the shared case registry used by C03.
"""
from __future__ import annotations

import importlib
import json
import time

import numpy as np

from symoas import cases as K
from symoas import oblig, partials, report, solve
from symoas.partials import Case
from symoas.sym import bool_syms, evalb, evalf, ge, gt, le, lt, ne, S, variables

PID = "C01"


def F(modname, cls, **kw):
    def f(cfg):
        m = importlib.import_module("openaerostruct." + modname)
        return getattr(m, cls)(**{**kw, **cfg})

    f.__qualname__ = "%s.%s" % (modname, cls)
    return f


# ------------------------------------------------------------------------------- surface configurations
def surf_cfgs(tier):
    """name -> single-surface dict"""
    c = {
        "symL_2x2": K.surface(2, 2, True),
        "symL_2x3": K.surface(2, 3, True),
        "full_2x3": K.surface(2, 3, False),
        "symR_2x3": K.surface(2, 3, True, right=True),
        # three chordwise nodes and two spanwise panels: index patterns that silently assume nx == 2 (leading / trailing edge
        # rows, panel offsets, tile-vs-repeat orderings)
        "symL_3x3": K.surface(3, 3, True),
    }
    if tier == "thorough":
        c.update({
            "symL_3x2": K.surface(3, 2, True),
            "symL_2x4": K.surface(2, 4, True),
            "full_3x3": K.surface(3, 3, False),
            "full_2x5": K.surface(2, 5, False),
            "symR_3x2": K.surface(3, 2, True, right=True),
        })
    return c


def multi_cfgs(tier):
    """name -> list of surfaces"""
    c = {
        "1symL_2x2": [K.surface(2, 2, True)],
        "1full_2x3": [K.surface(2, 3, False)],
        "symL_2x2+full_2x3": [K.surface(2, 2, True), K.surface(2, 3, False, name="tail")],
        # a right-half symmetric surface with three chordwise nodes (spanwise flips of index patterns, chordwise offsets)
        "1symR_3x2": [K.surface(3, 2, True, right=True)],
    }
    if tier == "thorough":
        c.update({
            "1symR_2x3": [K.surface(2, 3, True, right=True)],
            "symL_3x3+symR_2x2": [K.surface(3, 3, True), K.surface(2, 2, True, right=True, name="tail")],
            "1full_3x3": [K.surface(3, 3, False)],
        })
    return c


def multi_sections_tc(n=2, ny=3):
    """sections that carry a thickness-to-chord distribution (equal spanwise sizes: the unification component sizes every
    section's t/c input like the last section's)"""
    import warnings

    from openaerostruct.geometry.geometry_group import build_sections

    surface = {
        "name": "surface", "is_multi_section": True, "num_sections": n, "sec_name": ["sec%d" % i for i in range(n)],
        "symmetry": True, "S_ref_type": "wetted", "taper": [1.0, 0.8, 0.7][:n], "span": [2.0, 3.0, 1.5][:n], "sweep": [0.0, 5.0, 10.0][:n],
        "chord_cp": [np.array([1, 1]), np.array([1.0, 0.8]), np.array([0.8, 0.7])][:n], "twist_cp": [np.zeros(2)] * n, "root_chord": 1.0,
        "meshes": "gen-meshes", "nx": 2, "ny": [ny] * n, "CL0": 0.0, "CD0": 0.015, "k_lam": 0.05, "c_max_t": 0.303, "with_viscous": False,
        "with_wave": False, "groundplane": False, "root_section": n - 1, "t_over_c_cp": [np.array([0.1, 0.12]), np.array([0.13, 0.15]), np.array([0.12, 0.1])][:n],
    }
    with warnings.catch_warnings():
        warnings.simplefilter("ignore")
        return build_sections(surface)


def multi_sections(n):
    import warnings

    from openaerostruct.geometry.geometry_group import build_sections

    surface = {
        "name": "surface", "is_multi_section": True, "num_sections": n, "sec_name": ["sec%d" % i for i in range(n)],
        "symmetry": True, "S_ref_type": "wetted", "taper": [1.0, 0.8, 0.7, 0.9, 0.75][:n], "span": [2.0, 3.0, 1.5, 1.0, 2.5][:n],
        "sweep": [0.0, 5.0, 10.0, 15.0, 8.0][:n], "chord_cp": [np.array([1, 1]), np.array([1.0, 0.8]), np.array([0.8, 0.7]), np.array([0.7, 0.6]), np.array([0.6, 0.5])][:n],
        "twist_cp": [np.zeros(2)] * n, "root_chord": 1.0, "meshes": "gen-meshes", "nx": 2, "ny": [2, 3, 2, 2, 3][:n],
        "CL0": 0.0, "CD0": 0.015, "k_lam": 0.05, "c_max_t": 0.303, "with_viscous": False, "with_wave": False,
        "groundplane": False, "root_section": n - 1,
    }
    with warnings.catch_warnings():
        warnings.simplefilter("ignore")
        return build_sections(surface)


def pos(*names):
    """assumption builder: listed inputs strictly positive (all entries)"""
    def a(ins):
        out = []
        for n in names:
            for x in ins[n].ravel():
                out.append(gt(x, 0))
        return out

    return a


def build_cases(tier):
    C = []
    S1 = surf_cfgs(tier)
    SM = multi_cfgs(tier)

    def per_surface(label, mod, cls, names=None, **kw):
        extra = {k: kw.pop(k) for k in list(kw) if k in ("assumptions", "overrides", "nominal", "skip_wrt", "max_paths",
                                                           "note", "timeout", "comp_kw", "surf_over")}
        ckw = extra.pop("comp_kw", {})
        so = extra.pop("surf_over", {})
        for cn, s in S1.items():
            if names and cn not in names:
                continue
            s2 = dict(s)
            s2.update(so)
            C.append(Case("%s[%s]" % (label, cn), F(mod, cls, surface=s2, **ckw), **extra))

    def per_multi(label, mod, cls, names=None, **kw):
        extra = {k: kw.pop(k) for k in list(kw) if k in ("assumptions", "overrides", "nominal", "skip_wrt", "max_paths",
                                                           "note", "timeout", "comp_kw", "surf_over")}
        ckw = extra.pop("comp_kw", {})
        so = extra.pop("surf_over", {})
        for cn, ss in SM.items():
            if names and cn not in names:
                continue
            ss2 = [dict(s, **so) for s in ss]
            C.append(Case("%s[%s]" % (label, cn), F(mod, cls, surfaces=ss2, **ckw), **extra))

    # ---- aerodynamics
    C.append(Case("Coeffs", F("aerodynamics.coeffs", "Coeffs")))
    per_multi("CollocationPoints", "aerodynamics.collocation_points", "CollocationPoints")
    per_multi("ConvertVelocity", "aerodynamics.convert_velocity", "ConvertVelocity")
    per_multi("ConvertVelocity(rot)", "aerodynamics.convert_velocity", "ConvertVelocity", comp_kw={"rotational": True})
    for cn, ss in SM.items():
        npts = sum((x["mesh"].shape[0] - 1) * (x["mesh"].shape[1] - 1) for x in ss)
        C.append(Case("EvalVelocities[%s]" % cn, F("aerodynamics.eval_velocities", "EvalVelocities", surfaces=ss,
                                                   eval_name="ev", num_eval_points=npts)))
    from symoas.kernels import EVAL_MTX_STUBS
    for cn, ss in SM.items():
        npts = 2
        C.append(Case("EvalVelMtx[%s]" % cn, F("aerodynamics.eval_mtx", "EvalVelMtx", surfaces=ss, eval_name="ev",
                                               num_eval_points=npts), extra=EVAL_MTX_STUBS, skip_wrt=("alpha",),
                      note="vortex kernels replaced by uninterpreted atoms (kernel contracts are separate obligations)"))
    C.append(Case("EvalVelMtx(ground)[1symL_2x2]", F("aerodynamics.eval_mtx", "EvalVelMtx",
                                                      surfaces=[dict(SM["1symL_2x2"][0], groundplane=True)],
                                                      eval_name="ev", num_eval_points=2), extra=EVAL_MTX_STUBS,
                  skip_wrt=("alpha",)))
    per_surface("VLMGeometry", "aerodynamics.geometry", "VLMGeometry")
    per_surface("VLMGeometry(projected)", "aerodynamics.geometry", "VLMGeometry", surf_over={"S_ref_type": "projected"})
    per_multi("GetVectors", "aerodynamics.get_vectors", "GetVectors", comp_kw={"eval_name": "ev", "num_eval_points": 2})
    per_multi("HorseshoeCirculations", "aerodynamics.horseshoe_circulations", "HorseshoeCirculations")
    per_surface("LiftCoeff2D", "aerodynamics.lift_coeff_2D", "LiftCoeff2D")
    per_surface("LiftDrag", "aerodynamics.lift_drag", "LiftDrag")
    per_multi("MeshPointForces", "aerodynamics.mesh_point_forces", "MeshPointForces")
    per_multi("VLMMtxRHSComp", "aerodynamics.mtx_rhs", "VLMMtxRHSComp")
    per_multi("PanelForces", "aerodynamics.panel_forces", "PanelForces")
    per_multi("PanelForcesSurf", "aerodynamics.panel_forces_surf", "PanelForcesSurf")
    per_multi("RotationalVelocity", "aerodynamics.rotational_velocity", "RotationalVelocity")
    per_multi("SolveMatrix", "aerodynamics.solve_matrix", "SolveMatrix")
    per_surface("TotalDrag", "aerodynamics.total_drag", "TotalDrag", names=["symL_2x2"])
    per_surface("TotalLift", "aerodynamics.total_lift", "TotalLift", names=["symL_2x2"])
    per_multi("VortexMesh", "aerodynamics.vortex_mesh", "VortexMesh")
    per_multi("VortexMesh(ground)", "aerodynamics.vortex_mesh", "VortexMesh", names=["1symL_2x2", "1symR_2x3"],
              surf_over={"groundplane": True})
    # every branch of the laminar-fraction switch (k_lam = 0: fully turbulent, 0 < k_lam < 1: transition, 1: fully laminar)
    for kl in (0.05, 0.0, 1.0):
        per_surface("ViscousDrag(k_lam=%g)" % kl, "aerodynamics.viscous_drag", "ViscousDrag",
                    names=["symL_2x2", "symL_2x3", "full_2x3"] if (kl == 0.05 or tier == "thorough") else ["symL_2x2"],
                    surf_over={"k_lam": kl, "with_viscous": True}, comp_kw={"with_viscous": True})
    per_surface("ViscousDrag(off)", "aerodynamics.viscous_drag", "ViscousDrag", names=["symL_2x2"],
                surf_over={"with_viscous": False}, comp_kw={"with_viscous": False})
    per_surface("WaveDrag", "aerodynamics.wave_drag", "WaveDrag", names=["symL_2x2", "symL_2x3", "full_2x3"],
                surf_over={"with_wave": True}, comp_kw={"with_wave": True})
    per_surface("WaveDrag(off)", "aerodynamics.wave_drag", "WaveDrag", names=["symL_2x2"],
                surf_over={"with_wave": False}, comp_kw={"with_wave": False})
    per_multi("ScaleToPG(rot)", "aerodynamics.pg_scale", "ScaleToPrandtlGlauert", comp_kw={"rotational": True})
    per_multi("ScaleToPG", "aerodynamics.pg_scale", "ScaleToPrandtlGlauert", names=["1symL_2x2"])
    per_multi("ScaleFromPG", "aerodynamics.pg_scale", "ScaleFromPrandtlGlauert")
    per_multi("RotateToWindFrame(rot)", "aerodynamics.pg_wind_rotation", "RotateToWindFrame", comp_kw={"rotational": True})
    per_multi("RotateToWindFrame", "aerodynamics.pg_wind_rotation", "RotateToWindFrame", names=["1symL_2x2"])
    per_multi("RotateFromWindFrame", "aerodynamics.pg_wind_rotation", "RotateFromWindFrame")

    # ---- structures
    def loads_big(ins):
        from symoas.sym import bor
        return [bor(gt(x, 1e-6), lt(x, -1e-6)) for x in ins["total_loads"].ravel()]

    per_surface("ComputeNodes", "structures.compute_nodes", "ComputeNodes")
    per_surface("CreateRHS", "structures.create_rhs", "CreateRHS", names=["symL_2x2", "full_2x3"], assumptions=loads_big)
    per_surface("Disp", "structures.disp", "Disp", names=["symL_2x2", "full_2x3"])
    per_surface("Energy", "structures.energy", "Energy", names=["symL_2x2", "full_2x3"])
    per_surface("FailureExact", "structures.failure_exact", "FailureExact", names=["symL_2x3"])
    per_surface("FailureKS", "structures.failure_ks", "FailureKS", names=["symL_2x2", "symL_2x3"])
    per_surface("FEM", "structures.fem", "FEM", names=["symL_2x2", "full_2x3", "symL_2x3"])
    per_surface("Length", "structures.length", "Length")
    per_surface("LocalStiff", "structures.local_stiff", "LocalStiff", names=["symL_2x2", "full_2x3"])
    per_surface("LocalStiffPermuted", "structures.local_stiff_permuted", "LocalStiffPermuted", names=["symL_2x2"])
    per_surface("LocalStiffTransformed", "structures.local_stiff_transformed", "LocalStiffTransformed", names=["symL_2x2"])
    per_surface("NonIntersectingThickness", "structures.non_intersecting_thickness", "NonIntersectingThickness", names=["symL_2x3"])
    per_surface("SectionPropertiesTube", "structures.section_properties_tube", "SectionPropertiesTube", names=["symL_2x3"])
    per_surface("StructuralCG", "structures.structural_cg", "StructuralCG")
    per_surface("TotalLoads", "structures.total_loads", "TotalLoads", names=["symL_2x2"])
    per_surface("TotalLoads(all)", "structures.total_loads", "TotalLoads", names=["symL_2x2"],
                surf_over={"struct_weight_relief": True, "distributed_fuel_weight": True, "n_point_masses": 1})
    per_surface("TotalLoads(point masses)", "structures.total_loads", "TotalLoads", names=["symL_2x2"], surf_over={"n_point_masses": 2})
    per_surface("Transform", "structures.transform", "Transform")
    per_surface("VonMisesTube", "structures.vonmises_tube", "VonMisesTube", names=["symL_2x2", "full_2x3"])
    per_surface("Weight", "structures.weight", "Weight")
    per_surface("StructureWeightLoads", "structures.wing_weight_loads", "StructureWeightLoads")

    # ---- transfer
    per_surface("ComputeTransformationMatrix", "transfer.compute_transformation_matrix", "ComputeTransformationMatrix",
                names=["symL_2x2", "full_2x3"])
    per_surface("DisplacementTransfer", "transfer.displacement_transfer", "DisplacementTransfer")
    per_surface("LoadTransfer", "transfer.load_transfer", "LoadTransfer")

    # ---- functionals / common
    per_multi("BreguetRange", "functionals.breguet_range", "BreguetRange", names=["1symL_2x2", "symL_2x2+full_2x3"])
    per_multi("CenterOfGravity", "functionals.center_of_gravity", "CenterOfGravity", names=["1symL_2x2", "symL_2x2+full_2x3"])
    per_multi("Equilibrium", "functionals.equilibrium", "Equilibrium", names=["1symL_2x2", "symL_2x2+full_2x3"])
    per_multi("MomentCoefficient", "functionals.moment_coefficient", "MomentCoefficient")
    per_multi("SumAreas", "functionals.sum_areas", "SumAreas", names=["symL_2x2+full_2x3"])
    per_multi("TotalLiftDrag", "functionals.total_lift_drag", "TotalLiftDrag", names=["1symL_2x2", "symL_2x2+full_2x3"])
    # ---- geometry
    G = "geometry.geometry_mesh_transformations"
    gm = [("symL_2x3", 2, 3, True, False), ("full_2x3", 2, 3, False, False), ("symR_2x3", 2, 3, True, True)]
    if tier == "thorough":
        gm += [("symL_3x2", 3, 2, True, False), ("full_3x5", 3, 5, False, False), ("symL_2x4", 2, 4, True, False)]
    raps = [0.25] if tier == "quick" else [0.25, 0.0, 1.0, 0.625]
    for (cn, nx, ny, symm, right) in gm:
        mesh = K.rect_mesh(nx, ny, symm, right=right, jitter=0.25, seed=3)
        shp = mesh.shape
        for rap in raps:
            tag = "%s,ref=%g" % (cn, rap)
            C.append(Case("Taper[%s]" % tag, F(G, "Taper", val=0.8, mesh=mesh, symmetry=symm, ref_axis_pos=rap)))
            C.append(Case("ScaleX[%s]" % tag, F(G, "ScaleX", val=np.ones(ny), mesh_shape=shp, ref_axis_pos=rap)))
            C.append(Case("Stretch[%s]" % tag, F(G, "Stretch", val=9.0, mesh_shape=shp, symmetry=symm, ref_axis_pos=rap)))
            for rx in (True, False):
                C.append(Case("Rotate(rotate_x=%s)[%s]" % (rx, tag), F(G, "Rotate", val=np.zeros(ny), mesh_shape=shp,
                                                                       symmetry=symm, ref_axis_pos=rap, rotate_x=rx)))
        C.append(Case("Sweep[%s]" % cn, F(G, "Sweep", val=5.0, mesh_shape=shp, symmetry=symm)))
        C.append(Case("Dihedral[%s]" % cn, F(G, "Dihedral", val=5.0, mesh_shape=shp, symmetry=symm)))
        C.append(Case("ShearX[%s]" % cn, F(G, "ShearX", val=np.zeros(ny), mesh_shape=shp)))
        C.append(Case("ShearY[%s]" % cn, F(G, "ShearY", val=np.zeros(ny), mesh_shape=shp)))
        C.append(Case("ShearZ[%s]" % cn, F(G, "ShearZ", val=np.zeros(ny), mesh_shape=shp)))
    per_surface("RadiusComp", "geometry.radius_comp", "RadiusComp", names=["symL_2x3", "full_2x3", "symL_3x3"])
    per_surface("MonotonicConstraint", "geometry.monotonic_constraint", "MonotonicConstraint",
                names=["symL_2x3", "full_2x3"], comp_kw={"var_name": "chord"})
    secs = multi_sections(3 if tier == "thorough" else 2)
    # four sections (five in thorough): a middle section's tips shift every block further outboard, not only its neighbour
    secs4 = multi_sections(5 if tier == "thorough" else 4)
    C.append(Case("GeomMultiUnification(shift)", F("geometry.geometry_unification", "GeomMultiUnification", sections=secs4,
                                                   surface_name="surface", shift_uni_mesh=True)))
    C.append(Case("GeomMultiUnification", F("geometry.geometry_unification", "GeomMultiUnification", sections=secs4,
                                            surface_name="surface", shift_uni_mesh=False)))
    # sections with a thickness-to-chord distribution: the unified t/c is the concatenation of the sections' own
    C.append(Case("GeomMultiUnification(t/c)", F("geometry.geometry_unification", "GeomMultiUnification", sections=multi_sections_tc(2 if tier == "quick" else 3),
                                                 surface_name="surface", shift_uni_mesh=True)))
    # three sections (two shared edges) and more than one constrained coordinate per edge: the declared rows of the second
    # edge start after *all* constrained coordinates of the first
    secs3 = secs if len(secs) >= 3 else multi_sections(3)
    C.append(Case("GeomMultiJoin", F("geometry.geometry_multi_join", "GeomMultiJoin", sections=secs3,
                                     dim_constr=[np.ones(3)] * (len(secs3) - 1))))
    C.append(Case("GeomMultiJoin[xy]", F("geometry.geometry_multi_join", "GeomMultiJoin", sections=secs3,
                                         dim_constr=[np.array([1, 1, 0])] * (len(secs3) - 1))))
    # consecutive shared edges constraining different axes (a middle section sees two different masks); the component stacks
    # the edges into one array, so every edge constrains the same number of coordinates
    C.append(Case("GeomMultiJoin[x|z]", F("geometry.geometry_multi_join", "GeomMultiJoin", sections=secs3,
                                          dim_constr=[np.array([1, 0, 0]), np.array([0, 0, 1])][: len(secs3) - 1])))
    C.append(Case("GeomMultiJoin[xy|yz]", F("geometry.geometry_multi_join", "GeomMultiJoin", sections=secs3,
                                           dim_constr=[np.array([1, 1, 0]), np.array([0, 1, 1])][: len(secs3) - 1])))
    C.append(Case("ReynoldsComp", F("common.reynolds_comp", "ReynoldsComp")))
    C.append(Case("MultiCD", F("integration.multipoint_comps", "MultiCD", n_points=3)))
    return C


# ------------------------------------------------------------------------------- kernel contracts
def kernel_obligations(rep, timeout):
    """The derivative kernels of eval_mtx equal the DAG derivative of the value kernels (real code,
    unabstracted, every path of the |den| > tol branch).  These contracts justify the `ufn` stubs."""
    import importlib

    from symoas import diff, execute, lower
    from symoas.npproxy import symbolic_numpy
    from symoas.sym import symarray, symify

    em = importlib.import_module("openaerostruct.aerodynamics.eval_mtx")
    rep.encode(em._compute_finite_vortex, em._compute_finite_vortex_deriv1, em._compute_finite_vortex_deriv2,
               em._compute_semi_infinite_vortex, em._compute_semi_infinite_vortex_deriv)
    va = importlib.import_module("openaerostruct.utils.vector_algebra")
    rep.encode(va.compute_dot, va.compute_dot_deriv, va.compute_cross, va.compute_cross_deriv1, va.compute_cross_deriv2,
               va.compute_norm, va.compute_norm_deriv)
    r1 = symarray("r1", (1, 3))
    r2 = symarray("r2", (1, 3))
    u = symarray("u", (1, 3))
    eye = np.eye(3).reshape(1, 3, 3)
    groups = []

    def run_fv():
        return (symify(em._compute_finite_vortex(r1, r2)), symify(em._compute_finite_vortex_deriv1(r1, r2, eye)),
                symify(em._compute_finite_vortex_deriv2(r1, r2, eye)))

    def run_siv():
        return (symify(em._compute_semi_infinite_vortex(u, r2)), symify(em._compute_semi_infinite_vortex_deriv(u, r2, eye)))

    allobs = []
    with symbolic_numpy():
        pf = execute.explore(run_fv)
        ps = execute.explore(run_siv)
    for pi, p in enumerate(pf):
        val, d1, d2 = p.result
        outs = list(val.ravel())
        lw = lower.Lowerer()
        obs = []
        for which, (arr, dk) in enumerate(((r1, d1), (r2, d2))):
            for j in range(3):
                col = diff.diff_all(outs, arr[0, j])
                for i in range(3):
                    obs.append(oblig.Ob("kernel:finite_vortex|p%d|d K[%d]/d r%d[%d]" % (pi, i, which + 1, j),
                                        lhs=dk[0, i, j], rhs=col[i], assume=p.conds,
                                        meta={"case": "kernel:finite_vortex", "path": partials.path_label(p)}))
        oblig.discharge(obs, lw=lw, timeout=timeout)
        allobs += obs
    for pi, p in enumerate(ps):
        val, dk = p.result
        outs = list(val.ravel())
        lw = lower.Lowerer()
        obs = []
        for j in range(3):
            col = diff.diff_all(outs, r2[0, j])
            for i in range(3):
                obs.append(oblig.Ob("kernel:semi_infinite_vortex|p%d|d K[%d]/d r[%d]" % (pi, i, j), lhs=dk[0, i, j],
                                    rhs=col[i], assume=p.conds,
                                    meta={"case": "kernel:semi_infinite_vortex", "path": partials.path_label(p)}))
        oblig.discharge(obs, lw=lw, timeout=timeout)
        allobs += obs
    # antisymmetry K(r2, r1) = -K(r1, r2): the stub canonicalises argument order with it
    with symbolic_numpy():
        pr = execute.explore(lambda: symify(em._compute_finite_vortex(r2, r1)))
    for pa in pf:
        for pb in pr:
            if pa.label() != pb.label():
                continue
            obs = [oblig.Ob("kernel:finite_vortex|antisymmetry[%d] path %s" % (k, pa.label()), lhs=pb.result[0, k], rhs=-pa.result[0][0, k],
                            assume=pa.conds + pb.conds, meta={"case": "kernel:finite_vortex", "path": partials.path_label(pa)}) for k in range(3)]
            oblig.discharge(obs, timeout=timeout)
            allobs += obs
    # mirror covariance K(M a, M b) = -M K(a, b): the stub canonicalises mirror images with it
    Mv = np.array([1, -1, 1], dtype=object)
    with symbolic_numpy():
        pm = execute.explore(lambda: symify(em._compute_finite_vortex(r1 * Mv, r2 * Mv)))
        psm = execute.explore(lambda: symify(em._compute_semi_infinite_vortex(u * Mv, r2 * Mv)))
    mu = (-1, 1, -1)
    for pa in pf:
        for pb in pm:
            if pa.label() != pb.label():
                continue
            obs = [oblig.Ob("kernel:finite_vortex|mirror covariance[%d] path %s" % (k, pa.label()), lhs=pb.result[0, k], rhs=pa.result[0][0, k] * mu[k],
                            assume=pa.conds + pb.conds, meta={"case": "kernel:finite_vortex", "path": partials.path_label(pa)}) for k in range(3)]
            oblig.discharge(obs, timeout=timeout)
            allobs += obs
    obs = [oblig.Ob("kernel:semi_infinite_vortex|mirror covariance[%d]" % k, lhs=psm[0].result[0, k], rhs=ps[0].result[0][0, k] * mu[k],
                    meta={"case": "kernel:semi_infinite_vortex", "path": "-"}) for k in range(3)]
    oblig.discharge(obs, timeout=timeout)
    allobs += obs
    # numeric validation of the two value kernels' DAG against the real kernels
    rng = np.random.default_rng(5)
    a, b = rng.random((1, 3)) + 0.3, rng.random((1, 3)) - 1.2
    env = {"r1[0,%d]" % k: a[0, k] for k in range(3)}
    env.update({"r2[0,%d]" % k: b[0, k] for k in range(3)})
    real = em._compute_finite_vortex(a, b)
    for p in pf:
        try:
            ok = all(evalb(d, evalf(bool_syms(d), env)) == v for d, v, _ in p.decisions)
        except Exception:
            ok = False
        if ok:
            got = [evalf([x], env)[x.nid] for x in p.result[0].ravel()]
            err = float(np.max(np.abs(np.array(got) - real.ravel())))
            if err > 1e-12:
                rep.errors.append("kernel DAG does not reproduce the real finite-vortex kernel (err %g)" % err)
            rep.validation["cases"] += 1
    return allobs, {"case": "kernels", "paths": len(pf) + len(ps)}


def kernel_replay(obid, env, tol=1e-6):
    """Real kernels, real numpy: derivative kernel vs Richardson central difference of the value kernel."""
    import importlib
    import re

    em = importlib.import_module("openaerostruct.aerodynamics.eval_mtx")
    m = re.search(r"d K\[(\d)\]/d (r1|r2|r)\[(\d)\]", obid)
    i, wrt, j = int(m.group(1)), m.group(2), int(m.group(3))
    r1 = np.array([[env["r1[0,%d]" % k] for k in range(3)]])
    r2 = np.array([[env["r2[0,%d]" % k] for k in range(3)]])
    u = np.array([[env["u[0,%d]" % k] for k in range(3)]])
    eye = np.eye(3).reshape(1, 3, 3)
    if "finite_vortex" in obid and "semi" not in obid:
        f = lambda a, b: em._compute_finite_vortex(a, b)[0, i]
        if wrt == "r1":
            an = em._compute_finite_vortex_deriv1(r1, r2, eye)[0, i, j]
            g = lambda h: (f(r1 + h * eye[0, j], r2) - f(r1 - h * eye[0, j], r2)) / (2 * h)
        else:
            an = em._compute_finite_vortex_deriv2(r1, r2, eye)[0, i, j]
            g = lambda h: (f(r1, r2 + h * eye[0, j]) - f(r1, r2 - h * eye[0, j])) / (2 * h)
    else:
        f = lambda a, b: em._compute_semi_infinite_vortex(a, b)[0, i]
        an = em._compute_semi_infinite_vortex_deriv(u, r2, eye)[0, i, j]
        g = lambda h: (f(u, r2 + h * eye[0, j]) - f(u, r2 - h * eye[0, j])) / (2 * h)
    fd = (4 * g(5e-5) - g(1e-4)) / 3
    bad = abs(an - fd) > tol * max(1.0, abs(an), abs(fd)) + 1e-9
    return bad, "%s: derivative kernel %.9g, central difference of value kernel %.9g" % (obid, an, fd)


# ------------------------------------------------------------------------------- run
def nominal_env(case, out):
    r = out["runner"]
    rng = np.random.default_rng(4242)
    vals = case.nominal(r, rng) if case.nominal else partials.default_nominal(r, rng)
    vals = {n: np.array(vals.get(n, r.defaults[n]), dtype=float).reshape(r.shapes[n]) for n in r.in_names}
    if r.implicit:
        for n in r.out_names:
            vals[n] = 0.25 + rng.random(r.shapes[n])
    return partials.env_from_inputs(r, vals)


def witness_env(case, out, ob):
    """A concrete point for replay: nominal point, with the solver's values for the variables that
    occur in the path condition / assumptions (so that the path is the one the obligation is about)."""
    env = nominal_env(case, out)
    menv = oblig.model_env(ob)
    conds = list(ob.assume)
    names = set()
    for c in conds:
        for v in variables(bool_syms(c)):
            names.add(v.args[0])
    e2 = dict(env)
    for n in names:
        if n in menv:
            e2[n] = menv[n]

    def holds(e):
        try:
            roots = [s for c in conds for s in bool_syms(c)]
            val = evalf(roots, e)
            return all(evalb(c, val) for c in conds)
        except Exception:
            return False

    cands = [e2]
    full = dict(env)
    full.update({k: v for k, v in menv.items() if k in env})
    cands.append(full)
    for e in cands:
        if holds(e):
            return e
    # search: vary only the variables that occur in the path condition / assumptions around the nominal point
    rng = np.random.default_rng(7)
    names = sorted(names)
    for t in range(400):
        e = dict(env)
        for n in names:
            if n in e:
                e[n] = e[n] * float(np.exp(rng.uniform(-2.5, 1.5))) * (1 if rng.random() < 0.9 else -1)
        if holds(e):
            return e
    return None


def replay_point(case, env, meta, tol=1e-6):
    """Real code: analytic partial vs Richardson central difference at env.  When the symbolic
    counterexample depends on the pre-state (stale Jacobian storage), the live Problem is first run and
    linearised at another point, as an optimiser iteration would."""
    r0 = partials.CompRunner(case.factory(dict(case.cfg)), prerun=False)
    vals = partials.inputs_from_env(r0, env)
    history = None
    if meta.get("stale"):
        rng = np.random.default_rng(99)
        hv = case.nominal(r0, rng) if case.nominal else partials.default_nominal(r0, rng)
        history = [{n: np.array(hv.get(n, r0.defaults[n]), dtype=float).reshape(r0.shapes[n]) for n in r0.in_names}]
    r, outs, J = partials.real_eval(case, vals, prob_r=r0, history=history)
    key = (meta["of"], meta["wrt"])
    if key not in J:
        return None, "pair %s not reported by check_partials" % (key,)
    # a pair the component does not declare is a zero block as far as OpenMDAO's total derivatives are concerned
    jf = float(np.real(J[key]["J_fwd"][meta["i"], meta["j"]])) if J[key].get("J_fwd") is not None else 0.0
    undeclared = J[key].get("J_fwd") is None
    jd = float(np.real(J[key]["J_fd"][meta["i"], meta["j"]]))
    if not (np.isfinite(jf) and np.isfinite(jd)):
        return None, "non-finite replay values"
    nc = J[key].get("noise_col")
    if nc is not None:
        # scale-aware: relative disagreement beyond the round-off noise of the difference quotient (badly scaled inputs
        # such as the Reynolds number have tiny derivatives in absolute terms)
        bad = abs(jf - jd) > 1e-5 * max(abs(jf), abs(jd)) + float(nc[meta["j"]]) + 1e-300
    else:
        bad = abs(jf - jd) > tol * max(1.0, abs(jf), abs(jd)) + 1e-9
    return bad, "%s d%s[%d]/d%s[%d] = %.9g, central difference = %.9g" % (
        "undeclared (= 0 for OpenMDAO)" if undeclared else "analytic", meta["of"], meta["i"], meta["wrt"], meta["j"], jf, jd)


def family_of(case, ob):
    base = case.name.split("[")[0]
    return "%s partial d(%s)/d(%s) path{%s}%s" % (base, ob.meta["of"], ob.meta["wrt"], stable_path(ob.meta["path"]),
                                                  " stale-storage" if ob.meta.get("stale") else "")


def stable_path(label):
    """path labels print truncated sub-expressions as #<node id>; ids differ between runs and mesh sizes"""
    import re

    return re.sub(r"#\d+", "..", label)


def process(case, out, rep, obs, replay_fn, family_fn, max_replays_per_family=2):
    tried = {}
    for o in obs:
        if o.verdict != "candidate":
            continue
        if o.kind == "ident" and o.lhs is not None:
            from symoas.partials import _has_g_flags
            o.meta["stale"] = bool(_has_g_flags([o.lhs])[o.lhs.nid])
        fam = family_fn(case, o)
        if tried.get(fam, 0) >= max_replays_per_family:
            continue
        tried[fam] = tried.get(fam, 0) + 1
        env = witness_env(case, out, o)
        if env is None:
            rep.not_reproduced.append({"id": o.id, "why": "no admissible witness point found"})
            continue
        try:
            bad, what = replay_fn(case, env, o.meta)
        except Exception as e:
            bad, what = None, "replay crashed: %r" % (e,)
        if bad:
            spec = {"case": case.name, "meta": o.meta, "env": env, "what": what}
            rep.violation(fam, what, spec)
        else:
            rep.not_reproduced.append({"id": o.id, "why": what})


def approximated_cases(tier):
    """components whose partials OpenMDAO derives by complex step through compute(): what the approximation reports is the
    derivative unless compute() applies a non-analytic operation to a perturbed quantity (|u| discards the perturbation)"""
    from props import c03

    return [c for c in c03.extra_cases(tier) if not c.name.startswith(("CreateRHS", "AtmosComp"))]


def run(tier, seed, only=None):
    rep = report.Report(PID, tier, seed)
    cases = build_cases(tier) + approximated_cases(tier)
    if only:
        cases = [c for c in cases if any(s in c.name for s in only)]
    timeout = 20.0 if tier == "quick" else 60.0
    if not only or any("kernel" in o for o in only):
        t0 = time.time()
        kobs, kinfo = kernel_obligations(rep, timeout)
        rep.add_obs("kernels", kobs)
        s = oblig.summarize(kobs)
        kinfo.update({k: s[k] for k in ("obligations", "discharged", "candidate", "inconclusive", "nontrivial")})
        rep.groups.append(kinfo)
        tried = {}
        for o in kobs:
            if o.verdict == "candidate":
                fam = "%s derivative kernel path{%s}" % (o.meta["case"], o.meta["path"])
                if tried.get(fam, 0) >= 3:
                    continue
                tried[fam] = tried.get(fam, 0) + 1
                env = {"r1[0,%d]" % k: v for k, v in enumerate((0.7, 0.4, 0.9))}
                env.update({"r2[0,%d]" % k: v for k, v in enumerate((-0.6, 0.8, 0.5))})
                env.update({"u[0,%d]" % k: v for k, v in enumerate((0.9950041652780258, 0.0, 0.09983341664682815))})
                menv = oblig.model_env(o)
                for e in (env, {**env, **{k: v for k, v in menv.items() if k in env}}):
                    bad, what = kernel_replay(o.id, e)
                    if bad:
                        rep.violation(fam, what, {"case": o.meta["case"], "ob": o.id, "env": e, "kernel": True})
                        break
                else:
                    rep.not_reproduced.append({"id": o.id, "why": what})
        rep.log("%-45s paths=%d obl=%d nontriv=%d disch=%d cand=%d inconc=%d  %.1fs" % (
            "kernels (eval_mtx)", kinfo["paths"], s["obligations"], s["nontrivial"], s["discharged"], s["candidate"],
            s["inconclusive"], time.time() - t0))
    if not only or any("Atmos" in o for o in only):
        # AtmosComp: Akima pieces as concrete polynomials; derivative consistency per table interval (tolerance 1e-12,
        # scipy rounds the derivative coefficients) - shared with C17
        from props import c17

        c17.atmosphere(rep, tier, timeout, kinds=("deriv", "ident"))
    for case in cases:
        t0 = time.time()
        try:
            out = partials.run_case(case, rep, want=("C01",), timeout=timeout)
        except Exception as e:
            import traceback

            traceback.print_exc()
            rep.errors.append("case %s: %r" % (case.name, e))
            continue
        obs = out["c01"]
        rep.add_obs(case.name, obs)
        s = oblig.summarize(obs)
        v = out.get("validation") or {}
        g = dict(out["info"])
        g.update({k: s[k] for k in ("obligations", "discharged", "candidate", "inconclusive", "nontrivial")})
        g["validation"] = {k: (float(x) if isinstance(x, (np.floating, float)) else (bool(x) if isinstance(x, (np.bool_, bool)) else x))
                           for k, x in v.items()}
        rep.groups.append(g)
        if v.get("ok") is False:
            rep.errors.append("encoder validation failed for %s: %s" % (case.name, v.get("worst")))
        if v.get("ok"):
            rep.validation["cases"] += 1
            rep.validation["max_rel_err"] = max(rep.validation["max_rel_err"], float(v["max_rel_err"]))
        process(case, out, rep, obs, replay_point, family_of)
        rep.log("%-45s paths=%d obl=%d nontriv=%d disch=%d cand=%d inconc=%d valid=%s  %.1fs" % (
            case.name, out["info"]["paths"], s["obligations"], s["nontrivial"], s["discharged"], s["candidate"],
            s["inconclusive"], v.get("ok"), time.time() - t0))
    rep.bounds = {"tier": tier, "cases": [c.name for c in cases]}
    rep.assumptions = ["real arithmetic (no IEEE round-off)", "per-path derivative away from switching surfaces",
                       "OpenMDAO setup metadata (rows/cols/val/shape) taken from the real set-up problem"]
    return rep.finish("C01: per-entry solver obligations J_code[i,j] == d out_i / d in_j for every real component case")


def replay_file(path):
    spec = json.load(open(path))
    tier = "thorough"
    cases = {c.name: c for c in build_cases(tier) + approximated_cases(tier)}
    if spec.get("kernel"):
        bad, what = kernel_replay(spec["ob"], spec["env"])
        print(what)
        if bad:
            print("VIOLATION property=%s replay=%s" % (PID, path))
        return 1 if bad else 0
    case = cases[spec["case"]]
    bad, what = replay_point(case, spec["env"], spec["meta"])
    print(what)
    if bad:
        print("VIOLATION property=%s replay=%s" % (PID, path))
        return 1
    return 0
