"""C01 - analytic partials == true derivative, entry by entry, for all real inputs (bounded mesh sizes).

Also hosts the shared case registry used by C03.
"""
from __future__ import annotations

import importlib
import json
import time

import numpy as np

from symoas import cases as K
from symoas import oblig, partials, report, solve
from symoas.partials import Case
from symoas.sym import bool_syms, evalb, evalf, ge, gt, le, lt, ne, S, variables

PID = "C01"


def F(modname, cls, **kw):
    def f(cfg):
        m = importlib.import_module("openaerostruct." + modname)
        return getattr(m, cls)(**{**kw, **cfg})

    f.__qualname__ = "%s.%s" % (modname, cls)
    return f


# ------------------------------------------------------------------------------- surface configurations
def surf_cfgs(tier):
    """name -> single-surface dict"""
    c = {
        "symL_2x2": K.surface(2, 2, True),
        "symL_2x3": K.surface(2, 3, True),
        "full_2x3": K.surface(2, 3, False),
        "symR_2x3": K.surface(2, 3, True, right=True),
    }
    if tier == "thorough":
        c.update({
            "symL_3x3": K.surface(3, 3, True),
            "symL_2x4": K.surface(2, 4, True),
            "full_3x3": K.surface(3, 3, False),
            "full_2x5": K.surface(2, 5, False),
            "symR_3x2": K.surface(3, 2, True, right=True),
        })
    return c


def multi_cfgs(tier):
    """name -> list of surfaces"""
    c = {
        "1symL_2x2": [K.surface(2, 2, True)],
        "1full_2x3": [K.surface(2, 3, False)],
        "symL_2x2+full_2x3": [K.surface(2, 2, True), K.surface(2, 3, False, name="tail")],
    }
    if tier == "thorough":
        c.update({
            "1symR_2x3": [K.surface(2, 3, True, right=True)],
            "symL_3x3+symR_2x2": [K.surface(3, 3, True), K.surface(2, 2, True, right=True, name="tail")],
            "1full_3x3": [K.surface(3, 3, False)],
        })
    return c


def pos(*names):
    """assumption builder: listed inputs strictly positive (all entries)"""
    def a(ins):
        out = []
        for n in names:
            for x in ins[n].ravel():
                out.append(gt(x, 0))
        return out

    return a


def build_cases(tier):
    C = []
    S1 = surf_cfgs(tier)
    SM = multi_cfgs(tier)

    def per_surface(label, mod, cls, names=None, **kw):
        extra = {k: kw.pop(k) for k in list(kw) if k in ("assumptions", "overrides", "nominal", "skip_wrt", "max_paths",
                                                           "note", "timeout", "comp_kw", "surf_over")}
        ckw = extra.pop("comp_kw", {})
        so = extra.pop("surf_over", {})
        for cn, s in S1.items():
            if names and cn not in names:
                continue
            s2 = dict(s)
            s2.update(so)
            C.append(Case("%s[%s]" % (label, cn), F(mod, cls, surface=s2, **ckw), **extra))

    def per_multi(label, mod, cls, names=None, **kw):
        extra = {k: kw.pop(k) for k in list(kw) if k in ("assumptions", "overrides", "nominal", "skip_wrt", "max_paths",
                                                           "note", "timeout", "comp_kw", "surf_over")}
        ckw = extra.pop("comp_kw", {})
        so = extra.pop("surf_over", {})
        for cn, ss in SM.items():
            if names and cn not in names:
                continue
            ss2 = [dict(s, **so) for s in ss]
            C.append(Case("%s[%s]" % (label, cn), F(mod, cls, surfaces=ss2, **ckw), **extra))

    # ---- aerodynamics
    C.append(Case("Coeffs", F("aerodynamics.coeffs", "Coeffs")))
    per_multi("CollocationPoints", "aerodynamics.collocation_points", "CollocationPoints")
    per_multi("ConvertVelocity", "aerodynamics.convert_velocity", "ConvertVelocity")
    per_multi("ConvertVelocity(rot)", "aerodynamics.convert_velocity", "ConvertVelocity", comp_kw={"rotational": True})
    for cn, ss in SM.items():
        npts = sum((x["mesh"].shape[0] - 1) * (x["mesh"].shape[1] - 1) for x in ss)
        C.append(Case("EvalVelocities[%s]" % cn, F("aerodynamics.eval_velocities", "EvalVelocities", surfaces=ss,
                                                   eval_name="ev", num_eval_points=npts)))
    per_surface("VLMGeometry", "aerodynamics.geometry", "VLMGeometry")
    per_surface("VLMGeometry(projected)", "aerodynamics.geometry", "VLMGeometry", surf_over={"S_ref_type": "projected"})
    per_multi("GetVectors", "aerodynamics.get_vectors", "GetVectors", comp_kw={"eval_name": "ev", "num_eval_points": 2})
    per_multi("HorseshoeCirculations", "aerodynamics.horseshoe_circulations", "HorseshoeCirculations")
    per_surface("LiftCoeff2D", "aerodynamics.lift_coeff_2D", "LiftCoeff2D")
    per_surface("LiftDrag", "aerodynamics.lift_drag", "LiftDrag")
    per_multi("MeshPointForces", "aerodynamics.mesh_point_forces", "MeshPointForces")
    per_multi("VLMMtxRHSComp", "aerodynamics.mtx_rhs", "VLMMtxRHSComp")
    per_multi("PanelForces", "aerodynamics.panel_forces", "PanelForces")
    per_multi("PanelForcesSurf", "aerodynamics.panel_forces_surf", "PanelForcesSurf")
    per_multi("RotationalVelocity", "aerodynamics.rotational_velocity", "RotationalVelocity")
    per_multi("SolveMatrix", "aerodynamics.solve_matrix", "SolveMatrix")
    per_surface("TotalDrag", "aerodynamics.total_drag", "TotalDrag", names=["symL_2x2"])
    per_surface("TotalLift", "aerodynamics.total_lift", "TotalLift", names=["symL_2x2"])
    per_multi("VortexMesh", "aerodynamics.vortex_mesh", "VortexMesh")
    per_multi("VortexMesh(ground)", "aerodynamics.vortex_mesh", "VortexMesh", names=["1symL_2x2", "1symR_2x3"],
              surf_over={"groundplane": True})
    for kl in ([0.05] if tier == "quick" else [0.05, 0.0, 1.0]):
        per_surface("ViscousDrag(k_lam=%g)" % kl, "aerodynamics.viscous_drag", "ViscousDrag",
                    names=["symL_2x2", "symL_2x3", "full_2x3"], surf_over={"k_lam": kl, "with_viscous": True},
                    comp_kw={"with_viscous": True})
    per_surface("ViscousDrag(off)", "aerodynamics.viscous_drag", "ViscousDrag", names=["symL_2x2"],
                surf_over={"with_viscous": False}, comp_kw={"with_viscous": False})
    per_surface("WaveDrag", "aerodynamics.wave_drag", "WaveDrag", names=["symL_2x2", "symL_2x3", "full_2x3"],
                surf_over={"with_wave": True}, comp_kw={"with_wave": True})
    per_surface("WaveDrag(off)", "aerodynamics.wave_drag", "WaveDrag", names=["symL_2x2"],
                surf_over={"with_wave": False}, comp_kw={"with_wave": False})
    per_multi("ScaleToPG(rot)", "aerodynamics.pg_scale", "ScaleToPrandtlGlauert", comp_kw={"rotational": True})
    per_multi("ScaleToPG", "aerodynamics.pg_scale", "ScaleToPrandtlGlauert", names=["1symL_2x2"])
    per_multi("ScaleFromPG", "aerodynamics.pg_scale", "ScaleFromPrandtlGlauert")
    per_multi("RotateToWindFrame(rot)", "aerodynamics.pg_wind_rotation", "RotateToWindFrame", comp_kw={"rotational": True})
    per_multi("RotateToWindFrame", "aerodynamics.pg_wind_rotation", "RotateToWindFrame", names=["1symL_2x2"])
    per_multi("RotateFromWindFrame", "aerodynamics.pg_wind_rotation", "RotateFromWindFrame")

    # ---- structures
    def loads_big(ins):
        from symoas.sym import bor
        return [bor(gt(x, 1e-6), lt(x, -1e-6)) for x in ins["total_loads"].ravel()]

    per_surface("ComputeNodes", "structures.compute_nodes", "ComputeNodes")
    per_surface("CreateRHS", "structures.create_rhs", "CreateRHS", names=["symL_2x2", "full_2x3"], assumptions=loads_big)
    per_surface("Disp", "structures.disp", "Disp", names=["symL_2x2", "full_2x3"])
    per_surface("Energy", "structures.energy", "Energy", names=["symL_2x2", "full_2x3"])
    per_surface("FailureExact", "structures.failure_exact", "FailureExact", names=["symL_2x3"])
    per_surface("FailureKS", "structures.failure_ks", "FailureKS", names=["symL_2x2", "symL_2x3"])
    per_surface("FEM", "structures.fem", "FEM", names=["symL_2x2", "full_2x3", "symL_2x3"])
    per_surface("Length", "structures.length", "Length")
    per_surface("LocalStiff", "structures.local_stiff", "LocalStiff", names=["symL_2x2", "full_2x3"])
    per_surface("LocalStiffPermuted", "structures.local_stiff_permuted", "LocalStiffPermuted", names=["symL_2x2"])
    per_surface("LocalStiffTransformed", "structures.local_stiff_transformed", "LocalStiffTransformed", names=["symL_2x2"])
    per_surface("NonIntersectingThickness", "structures.non_intersecting_thickness", "NonIntersectingThickness", names=["symL_2x3"])
    per_surface("SectionPropertiesTube", "structures.section_properties_tube", "SectionPropertiesTube", names=["symL_2x3"])
    per_surface("StructuralCG", "structures.structural_cg", "StructuralCG")
    per_surface("TotalLoads", "structures.total_loads", "TotalLoads", names=["symL_2x2"])
    per_surface("TotalLoads(all)", "structures.total_loads", "TotalLoads", names=["symL_2x2"],
                surf_over={"struct_weight_relief": True, "distributed_fuel_weight": True})
    per_surface("Transform", "structures.transform", "Transform")
    per_surface("VonMisesTube", "structures.vonmises_tube", "VonMisesTube", names=["symL_2x2", "full_2x3"])
    per_surface("Weight", "structures.weight", "Weight")
    per_surface("StructureWeightLoads", "structures.wing_weight_loads", "StructureWeightLoads")

    # ---- transfer
    per_surface("ComputeTransformationMatrix", "transfer.compute_transformation_matrix", "ComputeTransformationMatrix",
                names=["symL_2x2", "full_2x3"])
    per_surface("DisplacementTransfer", "transfer.displacement_transfer", "DisplacementTransfer")
    per_surface("LoadTransfer", "transfer.load_transfer", "LoadTransfer")

    # ---- functionals / common
    per_multi("BreguetRange", "functionals.breguet_range", "BreguetRange", names=["1symL_2x2", "symL_2x2+full_2x3"])
    per_multi("CenterOfGravity", "functionals.center_of_gravity", "CenterOfGravity", names=["1symL_2x2", "symL_2x2+full_2x3"])
    per_multi("Equilibrium", "functionals.equilibrium", "Equilibrium", names=["1symL_2x2", "symL_2x2+full_2x3"])
    per_multi("MomentCoefficient", "functionals.moment_coefficient", "MomentCoefficient")
    per_multi("SumAreas", "functionals.sum_areas", "SumAreas", names=["symL_2x2+full_2x3"])
    per_multi("TotalLiftDrag", "functionals.total_lift_drag", "TotalLiftDrag", names=["1symL_2x2", "symL_2x2+full_2x3"])
    C.append(Case("ReynoldsComp", F("common.reynolds_comp", "ReynoldsComp")))
    C.append(Case("MultiCD", F("integration.multipoint_comps", "MultiCD", n_points=3)))
    return C


# ------------------------------------------------------------------------------- run
def nominal_env(case, out):
    r = out["runner"]
    rng = np.random.default_rng(4242)
    vals = case.nominal(r, rng) if case.nominal else partials.default_nominal(r, rng)
    vals = {n: np.array(vals.get(n, r.defaults[n]), dtype=float).reshape(r.shapes[n]) for n in r.in_names}
    if r.implicit:
        for n in r.out_names:
            vals[n] = 0.25 + rng.random(r.shapes[n])
    return partials.env_from_inputs(r, vals)


def witness_env(case, out, ob):
    """A concrete point for replay: nominal point, with the solver's values for the variables that
    occur in the path condition / assumptions (so that the path is the one the obligation is about)."""
    env = nominal_env(case, out)
    menv = oblig.model_env(ob)
    conds = list(ob.assume)
    names = set()
    for c in conds:
        for v in variables(bool_syms(c)):
            names.add(v.args[0])
    e2 = dict(env)
    for n in names:
        if n in menv:
            e2[n] = menv[n]

    def holds(e):
        try:
            roots = [s for c in conds for s in bool_syms(c)]
            val = evalf(roots, e)
            return all(evalb(c, val) for c in conds)
        except Exception:
            return False

    cands = [e2]
    full = dict(env)
    full.update({k: v for k, v in menv.items() if k in env})
    cands.append(full)
    for e in cands:
        if holds(e):
            return e
    return None


def replay_point(case, env, meta, tol=1e-6):
    """Real code: analytic partial vs Richardson central difference at env.  When the symbolic
    counterexample depends on the pre-state (stale Jacobian storage), the live Problem is first run and
    linearised at another point, as an optimiser iteration would."""
    r0 = partials.CompRunner(case.factory(dict(case.cfg)), prerun=False)
    vals = partials.inputs_from_env(r0, env)
    history = None
    if meta.get("stale"):
        rng = np.random.default_rng(99)
        hv = case.nominal(r0, rng) if case.nominal else partials.default_nominal(r0, rng)
        history = [{n: np.array(hv.get(n, r0.defaults[n]), dtype=float).reshape(r0.shapes[n]) for n in r0.in_names}]
    r, outs, J = partials.real_eval(case, vals, prob_r=r0, history=history)
    key = (meta["of"], meta["wrt"])
    if key not in J:
        return None, "pair %s not reported by check_partials" % (key,)
    jf = float(np.real(J[key]["J_fwd"][meta["i"], meta["j"]]))
    jd = float(np.real(J[key]["J_fd"][meta["i"], meta["j"]]))
    if not (np.isfinite(jf) and np.isfinite(jd)):
        return None, "non-finite replay values"
    bad = abs(jf - jd) > tol * max(1.0, abs(jf), abs(jd)) + 1e-9
    return bad, "analytic d%s[%d]/d%s[%d] = %.9g, central difference = %.9g" % (
        meta["of"], meta["i"], meta["wrt"], meta["j"], jf, jd)


def family_of(case, ob):
    base = case.name.split("[")[0]
    return "%s partial d(%s)/d(%s) path{%s}%s" % (base, ob.meta["of"], ob.meta["wrt"], ob.meta["path"],
                                                  " stale-storage" if ob.meta.get("stale") else "")


def process(case, out, rep, obs, replay_fn, family_fn, max_replays_per_family=2):
    tried = {}
    for o in obs:
        if o.verdict != "candidate":
            continue
        if o.kind == "ident" and o.lhs is not None:
            from symoas.partials import _has_g_flags
            o.meta["stale"] = bool(_has_g_flags([o.lhs])[o.lhs.nid])
        fam = family_fn(case, o)
        if tried.get(fam, 0) >= max_replays_per_family:
            continue
        tried[fam] = tried.get(fam, 0) + 1
        env = witness_env(case, out, o)
        if env is None:
            rep.not_reproduced.append({"id": o.id, "why": "no admissible witness point found"})
            continue
        try:
            bad, what = replay_fn(case, env, o.meta)
        except Exception as e:
            bad, what = None, "replay crashed: %r" % (e,)
        if bad:
            spec = {"case": case.name, "meta": o.meta, "env": env, "what": what}
            rep.violation(fam, what, spec)
        else:
            rep.not_reproduced.append({"id": o.id, "why": what})


def run(tier, seed, only=None):
    rep = report.Report(PID, tier, seed)
    cases = build_cases(tier)
    if only:
        cases = [c for c in cases if any(s in c.name for s in only)]
    timeout = 20.0 if tier == "quick" else 60.0
    for case in cases:
        t0 = time.time()
        try:
            out = partials.run_case(case, rep, want=("C01",), timeout=timeout)
        except Exception as e:
            import traceback

            traceback.print_exc()
            rep.errors.append("case %s: %r" % (case.name, e))
            continue
        obs = out["c01"]
        rep.add_obs(case.name, obs)
        s = oblig.summarize(obs)
        v = out.get("validation") or {}
        g = dict(out["info"])
        g.update({k: s[k] for k in ("obligations", "discharged", "candidate", "inconclusive", "nontrivial")})
        g["validation"] = {k: (float(x) if isinstance(x, (np.floating, float)) else (bool(x) if isinstance(x, (np.bool_, bool)) else x))
                           for k, x in v.items()}
        rep.groups.append(g)
        if v.get("ok") is False:
            rep.errors.append("encoder validation failed for %s: %s" % (case.name, v.get("worst")))
        if v.get("ok"):
            rep.validation["cases"] += 1
            rep.validation["max_rel_err"] = max(rep.validation["max_rel_err"], float(v["max_rel_err"]))
        process(case, out, rep, obs, replay_point, family_of)
        rep.log("%-45s paths=%d obl=%d nontriv=%d disch=%d cand=%d inconc=%d valid=%s  %.1fs" % (
            case.name, out["info"]["paths"], s["obligations"], s["nontrivial"], s["discharged"], s["candidate"],
            s["inconclusive"], v.get("ok"), time.time() - t0))
    rep.bounds = {"tier": tier, "cases": [c.name for c in cases]}
    rep.assumptions = ["real arithmetic (no IEEE round-off)", "per-path derivative away from switching surfaces",
                       "OpenMDAO setup metadata (rows/cols/val/shape) taken from the real set-up problem"]
    return rep.finish("C01: per-entry solver obligations J_code[i,j] == d out_i / d in_j for every real component case")


def replay_file(path):
    spec = json.load(open(path))
    tier = "thorough"
    cases = {c.name: c for c in build_cases(tier)}
    case = cases[spec["case"]]
    bad, what = replay_point(case, spec["env"], spec["meta"])
    print(what)
    if bad:
        print("VIOLATION property=%s replay=%s" % (PID, path))
        return 1
    return 0
