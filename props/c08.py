"""C08 - ground effect equals the method of images (reduced claim: the far-field limit is not decided)."""
from __future__ import annotations

import json

import numpy as np

from props import c05
from symoas import cases as K
from symoas import model, oblig, pipe, report
from symoas.model import SymComp, run_obligations, num_inputs
from symoas.sym import S, ZERO, ONE, PI, cos, sin, symarray, var, gt

PID = "C08"


def run(tier, seed, only=None):
    rep = report.Report(PID, tier, seed)
    timeout = 30.0 if tier == "quick" else 90.0
    cfgs = [("symL_2x2", 2, 2, False), ("symL_3x3", 3, 3, False), ("symR_2x3", 2, 3, True)]
    if tier == "thorough":
        cfgs += [("symL_2x3", 2, 3, False), ("symR_2x2", 2, 2, True), ("symL_3x2", 3, 2, False), ("symL_4x4", 4, 4, False), ("symR_4x3", 4, 3, True), ("symL_2x6", 2, 6, False)]
    two_surfaces(rep, timeout)
    for (cn, nx, ny, right) in cfgs:
        s = K.surface(nx, ny, np.True_ if right else True, right=right, groundplane=np.True_ if nx == 3 else True)
        P = pipe.vlm_states([s])
        P.encode(rep)
        m = symarray("wing_def_mesh", (nx, ny, 3))
        for i in range(nx):
            m[i, 0 if right else ny - 1, 1] = ZERO
        npan = (nx - 1) * (ny - 1)
        al, v, rho, h = var("alpha"), var("v"), var("rho"), var("height_agl")
        gam = symarray("circulations", (npan,))
        given = {"alpha": [al], "beta": [ZERO], "v": [v], "rho": [rho], "height_agl": [h], "circulations": gam, "wing_def_mesh": m}
        ns, free = P.run(given, units={"alpha": "deg", "beta": "deg", "v": "m/s", "rho": "kg/m**3", "height_agl": "m"})
        ref = c05.reference([c05.RefSurface(m, True, ground_height=h)], al, ZERO, v)
        Fref = c05.ref_forces(ref, gam, rho)
        obs = []
        for r in range(npan):
            obs.append(oblig.Ob("rhs[%d]" % r, lhs=ns["rhs"][r], rhs=ref["rhs"][r], meta={"family": "right-hand side is unchanged by the ground plane", "kind": "rhs", "idx": [r]}))
            for c in range(npan):
                obs.append(oblig.Ob("mtx[%d,%d]" % (r, c), lhs=ns["mtx"][r, c], rhs=ref["mtx"][r, c],
                                    meta={"family": "ground-effect AIC = free-air AIC of the surface minus the AIC of its image across the alpha-rotated plane", "kind": "mtx", "idx": [r, c]}))
            for k in range(3):
                obs.append(oblig.Ob("panel_forces[%d,%d]" % (r, k), lhs=ns["panel_forces"][r, k], rhs=Fref[r, k],
                                    meta={"family": "ground-effect forces equal those of the explicit image system", "kind": "F", "idx": [r, k]}))

        def rp(ob, env, s=s, m=m, nx=nx, ny=ny):
            return replay(ob, env, s, m)

        nominal = {}
        mv = K.rect_mesh(nx, ny, True, right=right, jitter=0.25, seed=7)
        for idx in np.ndindex(*mv.shape):
            nominal["wing_def_mesh[%s]" % ",".join(map(str, idx))] = float(mv[idx])
        nominal.update({"circulations[%d]" % i: -0.7 - 0.1 * i for i in range(npan)})
        run_obligations(rep, "ground effect vs method of images [%s]" % cn, obs, timeout, replay=rp, levels=(1, 2), relate=[],
                        family=lambda ob: "ground effect: " + ob.meta["family"], fixed={"alpha": (4.0, -4.0), "v": 10.0, "rho": 1.1, "height_agl": 3.0}, nominal=nominal)
    # the height above ground is a length: the components that use it add it only to lengths (dimensional analysis of their
    # symbolic execution, confirmed by feeding the real component the same height in m and in km)
    from props import c01, c20

    hits = []
    for case in [c for c in c01.build_cases("quick") if c.name.startswith("VortexMesh(ground)")]:
        r = case.build()
        ins = r.sym_inputs(case.overrides(r) if case.overrides else None)
        ps = r.run(ins, assumptions=case.assumptions(ins) if case.assumptions else [], max_paths=case.max_paths, extra=case.extra)
        rep.encode(type(r.comp))
        c20.dims_of_case(rep, case, r, ps, hits)
        rep.counts["obligations"] += 1
        rep.counts["discharged"] += 0 if hits else 1
    done = set()
    for (cname, comp_cls, msg, spec) in hits:
        if (comp_cls, spec.get("var")) in done:
            continue
        done.add((comp_cls, spec.get("var")))
        rep.counts["candidates"] += 1
        ok, what = c20.replay_dimension(spec)
        if ok:
            rep.violation("ground effect: the height above ground enters as a length", msg + " :: " + what, {"case": cname, "dims": True})
        else:
            rep.not_reproduced.append({"id": "dimension conflict in %s" % cname, "why": msg + " :: " + what})
    rep.log("dimensional analysis of VortexMesh with a ground plane: %d conflict(s)" % len(done))
    rep.stubs.add("vortex kernels -> uninterpreted functions on both sides")
    rep.bounds = {"cases": [c[0] for c in cfgs]}
    rep.assumptions = ["real arithmetic", "zero sideslip", "root on the symmetry plane", "not decided: convergence to free air as the height grows (a limit)",
                       "rejection of ground effect without symmetry is checked in C20"]
    return rep.finish("C08 (reduced): AIC, rhs and forces of the real pipeline with groundplane=True == an independently written image system "
                      "(reflection about the alpha-rotated plane through n*h, image strength -1), entry by entry")


def two_surfaces(rep, timeout):
    """two surfaces in ground effect in one model: every surface is mirrored about the *same* plane at height_agl"""
    s1 = K.surface(2, 2, True, name="wing", groundplane=True)
    s2 = K.surface(2, 2, True, name="tail", groundplane=True)
    ss = [s1, s2]
    P = pipe.vlm_states(ss)
    P.encode(rep)
    ms = {}
    for s_ in ss:
        m_ = symarray(s_["name"] + "_def_mesh", (2, 2, 3))
        for i in range(2):
            m_[i, 1, 1] = ZERO
        ms[s_["name"]] = m_
    npan = 2
    al, v, rho, h = var("alpha"), var("v"), var("rho"), var("height_agl")
    gam = symarray("circulations", (npan,))
    given = {"alpha": [al], "beta": [ZERO], "v": [v], "rho": [rho], "height_agl": [h], "circulations": gam}
    given.update({n_ + "_def_mesh": m_ for n_, m_ in ms.items()})
    ns, free = P.run(given, units={"alpha": "deg", "beta": "deg", "v": "m/s", "rho": "kg/m**3", "height_agl": "m"})
    ref = c05.reference([c05.RefSurface(ms[s_["name"]], True, ground_height=h) for s_ in ss], al, ZERO, v)
    obs = []
    for r in range(npan):
        obs.append(oblig.Ob("rhs[%d]" % r, lhs=ns["rhs"][r], rhs=ref["rhs"][r], meta={"family": "right-hand side is unchanged by the ground plane (two surfaces)", "kind": "rhs", "idx": [r]}))
        for c in range(npan):
            obs.append(oblig.Ob("mtx[%d,%d]" % (r, c), lhs=ns["mtx"][r, c], rhs=ref["mtx"][r, c],
                                meta={"family": "two surfaces in ground effect: each is mirrored about the same plane at height_agl", "kind": "mtx", "idx": [r, c]}))

    def rp2(ob, env):
        import openmdao.api as om
        from openaerostruct.aerodynamics.geometry import VLMGeometry
        from openaerostruct.aerodynamics.states import VLMStates

        al_, hh = np.radians(5.0), 2.5
        mv = {"wing": K.rect_mesh(2, 2, True, jitter=0.2, seed=3), "tail": K.rect_mesh(2, 2, True, jitter=0.2, seed=5) + np.array([4.0, 0.0, 0.6])}

        def run(surfaces, meshes):
            prob = om.Problem(reports=False)
            ivc = om.IndepVarComp()
            for n_, v_, u_ in (("alpha", 5.0, "deg"), ("beta", 0.0, "deg"), ("v", 10.0, "m/s"), ("rho", 1.1, "kg/m**3"), ("height_agl", hh, "m")):
                ivc.add_output(n_, val=v_, units=u_)
            for sx, mm in zip(surfaces, meshes):
                ivc.add_output(sx["name"] + "_def_mesh", val=mm, units="m")
            prob.model.add_subsystem("ivc", ivc, promotes=["*"])
            for sx in surfaces:
                prob.model.add_subsystem(sx["name"] + "_geom", VLMGeometry(surface=sx), promotes_inputs=[("def_mesh", sx["name"] + "_def_mesh")],
                                         promotes_outputs=[("normals", sx["name"] + "_normals")])
            prob.model.add_subsystem("states", VLMStates(surfaces=surfaces), promotes=["*"])
            prob.setup()
            prob.run_model()
            return prob

        pg = run(ss, [mv["wing"], mv["tail"]])
        n = np.array([np.sin(al_), 0.0, -np.cos(al_)])
        imgs = {k_: m_ - 2 * ((m_ - n * hh) @ n)[..., None] * n for k_, m_ in mv.items()}
        free_s = [dict(s1, groundplane=False), dict(s2, groundplane=False), dict(s1, groundplane=False, name="wing_image"), dict(s2, groundplane=False, name="tail_image")]
        pf = run(free_s, [mv["wing"], mv["tail"], imgs["wing"], imgs["tail"]])
        Ag, Af = np.array(pg.get_val("mtx")), np.array(pf.get_val("mtx"))
        r, c = (ob.meta["idx"] + [0])[:2]
        if ob.meta["kind"] == "rhs":
            return model.differs(pg.get_val("rhs")[r], pf.get_val("rhs")[r], 1e-6), "rhs[%d] = %.9g vs %.9g" % (r, pg.get_val("rhs")[r], pf.get_val("rhs")[r])
        ref_ = Af[r, c] - Af[r, npan + c]
        return model.differs(Ag[r, c], ref_, 1e-6), "two surfaces in ground effect: AIC[%d,%d] = %.9g, free-air minus explicit images at height_agl = %.9g" % (r, c, Ag[r, c], ref_)

    run_obligations(rep, "ground effect vs method of images [two surfaces]", obs, timeout, replay=rp2, levels=(1, 2), relate=[],
                    family=lambda ob: "ground effect: " + ob.meta["family"], fixed={"alpha": (4.0, -4.0), "v": 10.0, "rho": 1.1, "height_agl": 3.0})


def replay(ob, env, s, m):
    """Real VLMStates with groundplane=True vs the real free-air model of the surface plus an explicit image surface."""
    import openmdao.api as om
    from openaerostruct.aerodynamics.geometry import VLMGeometry
    from openaerostruct.aerodynamics.states import VLMStates

    envf = model.FillEnv(env)
    mv = num_inputs({"m": m}, envf)["m"]
    al, hh = np.radians(envf["alpha"]), envf["height_agl"]

    def run(surfaces, meshes):
        prob = om.Problem(reports=False)
        ivc = om.IndepVarComp()
        ivc.add_output("alpha", val=float(envf["alpha"]), units="deg")
        ivc.add_output("beta", val=0.0, units="deg")
        ivc.add_output("v", val=float(envf["v"]), units="m/s")
        ivc.add_output("rho", val=float(envf["rho"]), units="kg/m**3")
        ivc.add_output("height_agl", val=float(hh), units="m")
        for ss, mm in zip(surfaces, meshes):
            ivc.add_output(ss["name"] + "_def_mesh", val=mm, units="m")
        prob.model.add_subsystem("ivc", ivc, promotes=["*"])
        for ss in surfaces:
            prob.model.add_subsystem(ss["name"] + "_geom", VLMGeometry(surface=ss), promotes_inputs=[("def_mesh", ss["name"] + "_def_mesh")],
                                     promotes_outputs=[("normals", ss["name"] + "_normals")])
        prob.model.add_subsystem("states", VLMStates(surfaces=surfaces), promotes=["*"])
        prob.setup()
        prob.run_model()
        return prob

    pg = run([s], [mv])
    # explicit image: free-air model of the surface and of its reflection (a second symmetric surface)
    n = np.array([np.sin(al), 0.0, -np.cos(al)])
    img = mv - 2 * ((mv - n * hh) @ n)[..., None] * n
    s1 = dict(s, groundplane=False)
    s2 = dict(s, groundplane=False, name="image")
    pf = run([s1, s2], [mv, img])
    npan = (mv.shape[0] - 1) * (mv.shape[1] - 1)
    Ag, Af = np.array(pg.get_val("mtx")), np.array(pf.get_val("mtx"))
    k = ob.meta["kind"]
    if k == "mtx":
        r, c = ob.meta["idx"]
        ref = Af[r, c] - Af[r, npan + c]
        return model.differs(Ag[r, c], ref, 1e-6), "ground-effect AIC[%d,%d] = %.9g, free-air minus explicit image = %.9g" % (r, c, Ag[r, c], ref)
    if k == "rhs":
        r = ob.meta["idx"][0]
        return model.differs(pg.get_val("rhs")[r], pf.get_val("rhs")[r], 1e-6), "rhs[%d] = %.9g vs %.9g" % (r, pg.get_val("rhs")[r], pf.get_val("rhs")[r])
    if k == "F":
        # converged real models: sectional forces with the ground plane against those of the surface next to its explicit image
        name = s["name"]
        Fg = np.array(pg.get_val(name + "_sec_forces"), dtype=float)
        Ff = np.array(pf.get_val(name + "_sec_forces"), dtype=float)
        d = float(np.abs(Fg - Ff).max())
        return d > 1e-6 * max(1.0, float(np.abs(Ff).max())), "sectional forces with the ground plane differ from those next to the explicit image by %.4g (max |F| = %.4g)" % (d, float(np.abs(Ff).max()))
    return None, "no replay for kind %s" % k


def replay_file(path):
    spec = json.load(open(path))
    print("recorded counterexample: %s" % spec.get("what"))
    print("VIOLATION property=%s replay=%s" % (PID, path))
    return 1
