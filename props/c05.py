"""C05 - the VLM solution satisfies flow tangency and matches an independent reference.

The real pipeline (CollocationPoints, VortexMesh, GetVectors, EvalVelMtx, ConvertVelocity, RotationalVelocity,
VLMGeometry, VLMMtxRHSComp, HorseshoeCirculations, EvalVelocities, PanelForces, SolveMatrix residual) is executed
symbolically and compared entry by entry with a Biot-Savart model written independently in terms of panels and
their four corners.  Both sides express segment inductions through the same (separately verified) kernels.
"""
from __future__ import annotations

import json

import numpy as np

from props.c16 import cross, norm3
from symoas import cases as K
from symoas import execute, kernels, model, oblig, pipe, report
from symoas.harness import VecStore
from symoas.model import SymComp, idents, num_inputs, run_obligations
from symoas.npproxy import symbolic_numpy
from symoas.sym import S, ZERO, ONE, PI, Sym, cos, evalf, ge, gt, le, lt, ne, sin, sqrt, symarray, symify, var

PID = "C05"
MIR = [1, -1, 1]


# ------------------------------------------------------------------------------------- reference model
def seg(P, X, Y):
    """unit-strength induction at P of the straight segment X -> Y (kernel of r1 = P - X, r2 = P - Y)"""
    r1 = np.array([[P[k] - X[k] for k in range(3)]], dtype=object)
    r2 = np.array([[P[k] - Y[k] for k in range(3)]], dtype=object)
    return list(kernels.fv(r1, r2)[0])


def leg(P, X, u):
    """unit-strength induction at P of the semi-infinite vortex starting at X and leaving along u"""
    r = np.array([[P[k] - X[k] for k in range(3)]], dtype=object)
    return list(kernels.siv(np.array([u], dtype=object), r)[0])


def vadd(*vs):
    return [sum((v[k] for v in vs), ZERO) for k in range(3)]


def vneg(v):
    return [-x for x in v]


class RefSurface:
    def __init__(self, mesh, symmetry, ground_height=None):
        self.m = mesh
        self.sym = symmetry
        self.h = ground_height  # None: free air; else height of the origin above the ground plane
        self.nx, self.ny = mesh.shape[0], mesh.shape[1]

    def q(self, i, j, mirror=False):
        m = self.m
        p = [m[i, j, k] for k in range(3)] if i == self.nx - 1 else [S(0.75) * m[i, j, k] + S(0.25) * m[i + 1, j, k] for k in range(3)]
        return [p[k] * MIR[k] for k in range(3)] if mirror else p

    def panels(self):
        return [(i, j) for i in range(self.nx - 1) for j in range(self.ny - 1)]

    def pt(self, i, j, w):
        """point at chord fraction w of panel (i, j), mid span"""
        m = self.m
        return [S(0.5) * ((1 - w) * m[i, j, k] + w * m[i + 1, j, k]) + S(0.5) * ((1 - w) * m[i, j + 1, k] + w * m[i + 1, j + 1, k]) for k in range(3)]

    def normal(self, i, j):
        m = self.m
        d1 = [m[i, j + 1, k] - m[i + 1, j, k] for k in range(3)]
        d2 = [m[i, j, k] - m[i + 1, j + 1, k] for k in range(3)]
        c = cross(d1, d2)
        n = norm3(c)
        return [c[k] / n for k in range(3)]

    def bound(self, i, j):
        # along the bound (front) segment in the sense of positive circulation: from the corner at j+1 to the corner at j
        a, b = self.q(i, j + 1), self.q(i, j)
        return [b[k] - a[k] for k in range(3)]

    def ring_induction(self, P, i, j, u, mirror=False, reflect=None):
        """unit-strength vortex ring of panel (i, j) (horseshoe for the last row); mirrored rings are traversed in
        the opposite sense (image of a symmetric loading).  reflect: map applied to the ring corners (ground image);
        the corners of the quarter-chord lattice are built from the reflected *mesh* nodes."""
        if reflect is None:
            A, B, C, D = self.q(i, j + 1, mirror), self.q(i, j, mirror), self.q(i + 1, j, mirror), self.q(i + 1, j + 1, mirror)
        else:
            A, B, C, D = (reflect(x) for x in (self.q(i, j + 1, mirror), self.q(i, j, mirror), self.q(i + 1, j, mirror), self.q(i + 1, j + 1, mirror)))
        if mirror:
            A, B, C, D = B, A, D, C
        last = (i == self.nx - 2)
        parts = [seg(P, A, B), seg(P, B, C), seg(P, D, A)]
        if last:
            parts += [leg(P, C, u), vneg(leg(P, D, u))]
        else:
            parts.append(seg(P, C, D))
        return vadd(*parts)


def reference(surfs, alpha_deg, beta_deg, v, omega=None, cg=None):
    """-> dict(mtx, rhs, normals, influence at force points, onset velocities) for the panel ordering surface by surface"""
    al, be = alpha_deg * PI / 180, beta_deg * PI / 180
    u = [cos(al), ZERO, sin(al)]
    vinf = [v * cos(al) * cos(be), -v * sin(be), v * sin(al) * cos(be)]
    pan = [(s, i, j) for s in surfs for (i, j) in s.panels()]
    n = len(pan)
    mtx = np.empty((n, n), dtype=object)
    rhs = np.empty(n, dtype=object)
    Vf = np.empty((n, n, 3), dtype=object)
    onset = []
    for r, (s, i, j) in enumerate(pan):
        Pc, Pf, nr = s.pt(i, j, S(0.75)), s.pt(i, j, S(0.25)), s.normal(i, j)
        on = list(vinf)
        if omega is not None:
            rot = cross(list(omega), [Pc[k] - cg[k] for k in range(3)])
            on = [on[k] + rot[k] for k in range(3)]
        onset.append(on)
        rhs[r] = -sum((nr[k] * on[k] for k in range(3)), ZERO)
        for c, (s2, i2, j2) in enumerate(pan):
            Vc = s2.ring_induction(Pc, i2, j2, u)
            Vq = s2.ring_induction(Pf, i2, j2, u)
            if s2.sym:
                Vc = vadd(Vc, s2.ring_induction(Pc, i2, j2, u, mirror=True))
                Vq = vadd(Vq, s2.ring_induction(Pf, i2, j2, u, mirror=True))
            if s2.h is not None:
                # method of images: every ring (and its symmetry image) has an image across the plane through
                # n*h with normal n = (sin a, 0, -cos a) (parallel to the free stream), with strength -1
                nrm = [sin(al), ZERO, -cos(al)]

                def G(x, nrm=nrm, h=s2.h):
                    d = sum(((x[k] - nrm[k] * h) * nrm[k] for k in range(3)), ZERO)
                    return [x[k] - 2 * d * nrm[k] for k in range(3)]

                for mirror in ((False, True) if s2.sym else (False,)):
                    Vc = vadd(Vc, vneg(s2.ring_induction(Pc, i2, j2, u, mirror=mirror, reflect=G)))
                    Vq = vadd(Vq, vneg(s2.ring_induction(Pf, i2, j2, u, mirror=mirror, reflect=G)))
            mtx[r, c] = sum((nr[k] * Vc[k] for k in range(3)), ZERO)
            for k in range(3):
                Vf[r, c, k] = Vq[k]
    return {"mtx": mtx, "rhs": rhs, "Vf": Vf, "onset": onset, "panels": pan}


def ref_forces(ref, gam, rho):
    pan = ref["panels"]
    n = len(pan)
    index = {(id(s), i, j): r for r, (s, i, j) in enumerate(pan)}
    F = np.empty((n, 3), dtype=object)
    for r, (s, i, j) in enumerate(pan):
        ghs = gam[r] - (gam[index[(id(s), i - 1, j)]] if i > 0 else ZERO)
        V = [ref["onset"][r][k] + sum((ref["Vf"][r, c, k] * gam[c] for c in range(n)), ZERO) for k in range(3)]
        f = cross(V, s.bound(i, j))
        for k in range(3):
            F[r, k] = rho * ghs * f[k]
    return F


# ------------------------------------------------------------------------------------- kernel lemmas
def kernel_lemmas(rep, timeout):
    import openaerostruct.aerodynamics.eval_mtx as em

    rep.encode(em._compute_finite_vortex, em._compute_semi_infinite_vortex)
    r1, r2, u = symarray("r1", (1, 3)), symarray("r2", (1, 3)), symarray("u", (1, 3))
    with symbolic_numpy():
        pf = execute.explore(lambda: symify(em._compute_finite_vortex(r1, r2)))
        pr = execute.explore(lambda: symify(em._compute_finite_vortex(r2, r1)))
        ps = execute.explore(lambda: symify(em._compute_semi_infinite_vortex(u, r2)))
    if len(ps) != 1:
        raise RuntimeError("semi-infinite vortex kernel: %d paths (the lemmas below are written for its single expression)" % len(ps))
    obs = []
    for pa in pf:
        for pb in pr:
            if pa.label() == pb.label():
                for k in range(3):
                    obs.append(oblig.Ob("antisymmetry K(r2,r1) = -K(r1,r2) [%d] path %s" % (k, pa.label()), lhs=pb.result[0, k], rhs=-pa.result[0, k],
                                        assume=pa.conds + pb.conds, meta={"family": "finite-vortex kernel is antisymmetric in its end points"}))
    Mv = np.array([1, -1, 1], dtype=object)
    with symbolic_numpy():
        pm = execute.explore(lambda: symify(em._compute_finite_vortex(r1 * Mv, r2 * Mv)))
        psm = execute.explore(lambda: symify(em._compute_semi_infinite_vortex(u * Mv, r2 * Mv)))
    mu = (-1, 1, -1)
    for pa in pf:
        for pb in pm:
            if pa.label() == pb.label():
                for k in range(3):
                    obs.append(oblig.Ob("mirror covariance K(M r1, M r2) = -M K(r1, r2) [%d] path %s" % (k, pa.label()), lhs=pb.result[0, k], rhs=pa.result[0, k] * mu[k],
                                        assume=pa.conds + pb.conds, meta={"family": "finite-vortex kernel is covariant under reflection about y = 0"}))
    for k in range(3):
        obs.append(oblig.Ob("semi-infinite mirror covariance [%d]" % k, lhs=psm[0].result[0, k], rhs=ps[0].result[0, k] * mu[k],
                            meta={"family": "semi-infinite vortex kernel is covariant under reflection about y = 0"}))
    # textbook (Katz & Plotkin) finite segment: Gamma/4pi * (r1 x r2)/|r1 x r2|^2 * r0.(r1/|r1| - r2/|r2|), r0 = r1 - r2
    a, b = list(r1[0]), list(r2[0])
    cx = cross(a, b)
    c2 = sum((x * x for x in cx), ZERO)
    na, nb = norm3(a), norm3(b)
    r0 = [b[k] - a[k] for k in range(3)]  # P2 - P1 = r1 - r2 with r = P - X  ->  X2 - X1 = r1 - r2
    r0 = [a[k] - b[k] for k in range(3)]
    fac = sum((r0[k] * (a[k] / na - b[k] / nb) for k in range(3)), ZERO) / (4 * PI * c2)
    for pa in pf:
        if any((not v) for d, v, f in pa.decisions if not f):
            continue  # the |den| <= tol branch returns 0 by construction
        for k in range(3):
            obs.append(oblig.Ob("code kernel == Katz-Plotkin segment formula [%d]" % k, lhs=pa.result[0, k], rhs=cx[k] * fac, assume=pa.conds + [gt(c2, 0)],
                                meta={"family": "finite-vortex kernel equals the textbook Biot-Savart segment formula"}))
    # ... and the branch that returns 0 (a point on the extension of its own segment) is confined to the documented band
    # |r1||r2| + r1.r2 <= 1e-10 m^2: outside it the segment must contribute (the textbook formula above)
    from fractions import Fraction as _Fr
    from symoas.sym import const as _const

    den_ref = na * nb + sum((a[k] * b[k] for k in range(3)), ZERO)
    for pa in pf:
        if any((not v) for d, v, f in pa.decisions if not f):
            obs.append(oblig.Ob("segment ignored only inside the documented band, path %s" % pa.label(), cond=gt(den_ref, _const(_Fr(1, 10**10))), assume=pa.conds,
                                meta={"family": "a vortex segment is ignored only where |r1||r2| + r1.r2 <= 1e-10 m^2 (the documented tolerance)", "band": True}))
    # semi-infinite leg from X along u (|u| = 1): (u x r) / (|r| (|r| - u.r)) / 4 pi
    rr = list(r2[0])
    uu = list(u[0])
    nr = norm3(rr)
    ux = cross(uu, rr)
    den = nr * (nr - sum((uu[k] * rr[k] for k in range(3)), ZERO)) * 4 * PI
    for k in range(3):
        obs.append(oblig.Ob("semi-infinite kernel == (u x r)/(|r|(|r| - u.r))/4pi [%d]" % k, lhs=ps[0].result[0, k], rhs=ux[k] / den,
                            meta={"family": "semi-infinite vortex kernel equals the textbook limit form"}))
    def kern_rp(ob, env):
        """the real kernels on floats against the textbook formulas and their symmetries"""
        if ob.meta.get("band"):
            r1v, r2v = np.array([[0.5, 1e-3, 0.0]]), np.array([[-0.5, 1e-3, 0.0]])
            val = np.asarray(em._compute_finite_vortex(r1v, r2v), dtype=float)
            return not np.any(np.abs(val) > 0), "point 1 mm beside the middle of a 1 m segment: kernel returns %s" % (val.ravel(),)
        rng = np.random.default_rng(8)
        bad = []
        for t in range(4):
            av, bv = rng.standard_normal(3) + 1.5, rng.standard_normal(3) - 1.0
            uv = np.array([np.cos(0.1 * t), 0.0, np.sin(0.1 * t)])
            Kf = np.asarray(em._compute_finite_vortex(av[None, :], bv[None, :]), dtype=float)[0]
            Kr = np.asarray(em._compute_finite_vortex(bv[None, :], av[None, :]), dtype=float)[0]
            Mv_ = np.array([1.0, -1.0, 1.0])
            Km = np.asarray(em._compute_finite_vortex((av * Mv_)[None, :], (bv * Mv_)[None, :]), dtype=float)[0]
            cxv = np.cross(av, bv)
            ref = cxv * np.dot(av - bv, av / np.linalg.norm(av) - bv / np.linalg.norm(bv)) / (4 * np.pi * np.dot(cxv, cxv))
            Ks = np.asarray(em._compute_semi_infinite_vortex(uv[None, :], bv[None, :]), dtype=float)[0]
            Ksm = np.asarray(em._compute_semi_infinite_vortex((uv * Mv_)[None, :], (bv * Mv_)[None, :]), dtype=float)[0]
            nr_ = np.linalg.norm(bv)
            refs = np.cross(uv, bv) / (nr_ * (nr_ - np.dot(uv, bv)) * 4 * np.pi)
            for lab, e in (("finite kernel vs Katz-Plotkin", np.abs(Kf - ref).max()), ("antisymmetry", np.abs(Kr + Kf).max()),
                           ("mirror covariance", np.abs(Km - Kf * np.array([-1.0, 1.0, -1.0])).max()), ("semi-infinite kernel vs textbook", np.abs(Ks - refs).max()),
                           ("semi-infinite mirror covariance", np.abs(Ksm - Ks * np.array([-1.0, 1.0, -1.0])).max())):
                if e > 1e-12:
                    bad.append("%s: %.3g" % (lab, e))
        return bool(bad), "; ".join(sorted(set(bad))[:4]) or "real kernels agree with the textbook forms and symmetries"

    run_obligations(rep, "vortex kernel lemmas", obs, timeout, levels=(1, 2), relate=[], family=lambda ob: "kernel: " + ob.meta["family"], replay=kern_rp)


# ------------------------------------------------------------------------------------- main comparison
def run(tier, seed, only=None):
    rep = report.Report(PID, tier, seed)
    timeout = 20.0 if tier == "quick" else 60.0
    kernel_lemmas(rep, timeout)
    cfgs = [("1symL_2x2", [(2, 2, True, False)]), ("1full_2x3", [(2, 3, False, False)]), ("1symL_3x2", [(3, 2, True, False)]),
            ("1symL_4x3", [(4, 3, True, False)]), ("1symR_3x3", [(3, 3, True, True)]),
            ("symL_2x2+full_2x3+symR_3x2", [(2, 2, True, False), (2, 3, False, False), (3, 2, True, True)]),
            # a full-span surface need not straddle y = 0: the dictionary's mesh of this one lies wholly at y > 0
            ("1full_2x3_offcentre", [(2, 3, False, False)])]
    if tier == "thorough":
        cfgs += [("symL_2x2+full_2x3", [(2, 2, True, False), (2, 3, False, False)]), ("1symR_2x3", [(2, 3, True, True)]), ("1full_3x3", [(3, 3, False, False)]),
                 ("1full_4x5", [(4, 5, False, False)]), ("1symL_5x4", [(5, 4, True, False)]), ("1full_2x7", [(2, 7, False, False)]),
                 ("full_3x3+symL_4x2+full_2x5", [(3, 3, False, False), (4, 2, True, False), (2, 5, False, False)])]
    for (cn, spec) in cfgs:
        surfaces = [K.surface(nx, ny, symm, right=right, name="s%d" % k) for k, (nx, ny, symm, right) in enumerate(spec)]
        if cn.endswith("offcentre"):
            for s_ in surfaces:
                s_["mesh"] = s_["mesh"] + np.array([0.0, 7.0, 0.0])
        P = pipe.vlm_states(surfaces, rotational=True)
        P.encode(rep)
        meshes = {s["name"]: symarray(s["name"] + "_def_mesh", s["mesh"].shape) for s in surfaces}
        for s, (nx_, ny_, symm_, right_) in zip(surfaces, spec):
            if symm_:  # the root column of a symmetric surface lies on the symmetry plane (off-plane roots: see C04)
                for i in range(nx_):
                    meshes[s["name"]][i, 0 if right_ else ny_ - 1, 1] = ZERO
        npan = sum((s["mesh"].shape[0] - 1) * (s["mesh"].shape[1] - 1) for s in surfaces)
        al, be, v, rho = var("alpha"), var("beta"), var("v"), var("rho")
        om, cg = symarray("omega", (3,)), symarray("cg", (3,))
        gam = symarray("circulations", (npan,))
        given = {"alpha": [al], "beta": [be], "v": [v], "rho": [rho], "omega": om, "cg": cg, "circulations": gam}
        given.update({n + "_def_mesh": m for n, m in meshes.items()})
        ns, free = P.run(given, units={"alpha": "deg", "beta": "deg", "v": "m/s", "rho": "kg/m**3", "omega": "rad/s", "cg": "m"})
        refs = [RefSurface(meshes[s["name"]], s["symmetry"]) for s in surfaces]
        ref = reference(refs, al, be, v, omega=om, cg=cg)
        obs = []
        for r in range(npan):
            obs.append(oblig.Ob("rhs[%d]" % r, lhs=ns["rhs"][r], rhs=ref["rhs"][r], meta={"family": "right-hand side is minus the normal onset velocity (free stream + rotation)", "kind": "rhs", "idx": [r]}))
            for c in range(npan):
                obs.append(oblig.Ob("mtx[%d,%d]" % (r, c), lhs=ns["mtx"][r, c], rhs=ref["mtx"][r, c],
                                    meta={"family": "AIC entry is the normal velocity induced by the ring/horseshoe of panel c at collocation point r", "kind": "mtx", "idx": [r, c]}))
        Fref = ref_forces(ref, gam, rho)
        Fcode = ns["panel_forces"]
        for r in range(npan):
            for k in range(3):
                obs.append(oblig.Ob("panel_forces[%d,%d]" % (r, k), lhs=Fcode[r, k], rhs=Fref[r, k],
                                    meta={"family": "panel force = rho * horseshoe circulation * (local velocity x bound vector)", "kind": "F", "idx": [r, k]}))
        # tangency: the residual of the real SolveMatrix is mtx.Gamma - rhs, i.e. the normal velocity of the reference
        sm = SymComp("aerodynamics.solve_matrix", "SolveMatrix", surfaces=surfaces)
        rep.encode(type(sm.comp))
        with symbolic_numpy():
            R = VecStore({"circulations": np.empty(npan, dtype=object)})
            sm.comp.apply_nonlinear(VecStore({"mtx": ns["mtx"], "rhs": ns["rhs"]}), VecStore({"circulations": gam}), R)
        for r in range(npan):
            nv = sum((ref["mtx"][r, c] * gam[c] for c in range(npan)), ZERO) - ref["rhs"][r]
            obs.append(oblig.Ob("tangency residual[%d]" % r, lhs=S(R["circulations"][r]), rhs=nv,
                                meta={"family": "the solved system is the flow-tangency condition of the reference (normal velocity = 0)", "kind": "res", "idx": [r]}))

        def rp(ob, env, surfaces=surfaces, meshes=meshes, npan=npan, refs=refs):
            return replay(ob, env, surfaces, meshes, npan)

        nominal = {}
        for s_ in surfaces:
            mv = K.rect_mesh(s_["mesh"].shape[0], s_["mesh"].shape[1], s_["symmetry"], jitter=0.25, seed=7)
            k_ = int(s_["name"][1:])
            mv = mv + np.array([6.0 * k_, 0.0, 0.5 * k_])
            for idx in np.ndindex(*mv.shape):
                nominal["%s_def_mesh[%s]" % (s_["name"], ",".join(map(str, idx)))] = float(mv[idx])
        nominal.update({"cg[0]": 0.5, "cg[1]": 0.0, "cg[2]": 0.1, "omega[0]": 0.02, "omega[1]": 0.03, "omega[2]": -0.01})
        nominal.update({"circulations[%d]" % i: -0.7 - 0.1 * i for i in range(npan)})

        run_obligations(rep, "pipeline vs reference [%s]" % cn, obs, timeout, replay=rp, levels=(1, 2), relate=[],
                        family=lambda ob: "VLM: " + ob.meta["family"], fixed={"alpha": (3.0, -3.0), "beta": (2.0, -2.0), "v": 10.0, "rho": 1.1}, nominal=nominal)
    aeropoint_level(rep, tier, timeout)
    solve_history(rep, tier, timeout)
    rep.stubs.add("vortex kernels -> uninterpreted functions on both sides (kernel == textbook formula, antisymmetry and derivative contracts are separate obligations)")
    rep.bounds = {"cases": [c[0] for c in cfgs]}
    rep.assumptions = ["real arithmetic", "LAPACK LU accuracy not modelled: the equation being solved is compared", "rotational onset velocity omega x (p - cg) as the code defines it",
                       "non-degenerate panels (non-zero diagonal cross product), evaluation points off the vortex lines"]
    return rep.finish("C05: AIC, right-hand side, tangency residual and panel forces of the real pipeline == an independently written panel/"
                      "corner Biot-Savart model, entry by entry; kernel == textbook formula as separate lemmas")


def solve_history(rep, tier, timeout):
    """The strengths `SolveMatrix.solve_nonlinear` returns satisfy the system of *this* call, whatever the same instance
    solved before: two calls in a row on one instance (earlier matrix / right-hand side / starting strengths all symbolic, so
    "the matrix did not change" and "only the right-hand side changed" are paths of the same run); the factorisation is the
    contract stub (a solve returns x with A x = b for the matrix that was factorised)."""
    from symoas import npproxy

    ss = [K.surface(2, 3, False)]
    probe = SymComp("aerodynamics.solve_matrix", "SolveMatrix", surfaces=ss)
    rep.encode(type(probe.comp))
    n = probe.comp.system_size
    m1, r1 = symarray("mtx_before", (n, n)), symarray("rhs_before", (n,))
    m2, r2 = symarray("mtx", (n, n)), symarray("rhs", (n,))
    g0 = symarray("circulations_start", (n,))

    def fn():
        npproxy.LU_LOG.clear()
        comp = SymComp("aerodynamics.solve_matrix", "SolveMatrix", surfaces=ss).comp  # a fresh instance per path
        out = VecStore({"circulations": g0.copy()})
        comp.solve_nonlinear(VecStore({"mtx": m1.copy(), "rhs": r1.copy()}), out)
        comp.solve_nonlinear(VecStore({"mtx": m2.copy(), "rhs": r2.copy()}), out)
        return {"g": np.array(out["circulations"], dtype=object).copy(), "hyp": npproxy.lu_hypotheses()}

    with symbolic_numpy():
        paths = execute.explore(fn, max_paths=16)
    obs = []
    for pi, p in enumerate(paths):
        g = p.result["g"]
        for i in range(n):
            obs.append(oblig.Ob("second solve row %d path %s" % (i, p.label()), lhs=sum((m2[i, j] * S(g[j]) for j in range(n)), ZERO), rhs=r2[i],
                                assume=list(p.result["hyp"]) + p.conds,
                                meta={"family": "the strengths returned cancel the normal velocity of the current system, whatever was solved before"}))

    def rp(ob, env):
        import openmdao.api as om
        from openaerostruct.aerodynamics.solve_matrix import SolveMatrix

        rng = np.random.default_rng(5)
        A = rng.standard_normal((n, n)) + n * np.eye(n)
        B = rng.standard_normal((n, n)) + n * np.eye(n)
        worst, msg = 0.0, ""
        # (same matrix, new right-hand side), (new matrix, same right-hand side), (both new), (nothing new)
        b0 = rng.standard_normal(n)
        for lab, (Ma, ba), (Mb, bb) in (("same matrix, new right-hand side", (A, b0), (A, rng.standard_normal(n))), ("new matrix, same right-hand side", (A, b0), (B, b0)),
                                          ("both new", (A, b0), (B, rng.standard_normal(n))), ("nothing new", (A, b0), (A, b0))):
            prob = om.Problem(reports=False)
            prob.model.add_subsystem("sm", SolveMatrix(surfaces=ss), promotes=["*"])
            prob.setup()
            for M_, b_ in ((Ma, ba), (Mb, bb)):
                prob.set_val("mtx", M_)
                prob.set_val("rhs", b_)
                prob.run_model()
            e = float(np.abs(Mb.dot(np.array(prob.get_val("circulations"))) - bb).max())
            if e > worst:
                worst, msg = e, "real SolveMatrix run twice in one Problem (%s): |mtx Gamma - rhs| = %.3g after the second run" % (lab, e)
        return worst > 1e-9, msg or "second run of the real SolveMatrix solves its own system in all four histories"

    run_obligations(rep, "SolveMatrix second solve [n=%d, %d path%s]" % (n, len(paths), "" if len(paths) == 1 else "s"), obs, timeout, replay=rp,
                    family=lambda ob: "SolveMatrix: " + ob.meta["family"])
    rep.stubs.add("LU factorisation -> contract stub (a solve returns x with A x = b for the factorised A)")


def aeropoint_level(rep, tier, timeout):
    """The real AeroPoint group executed through its own wiring (GroupPipe): the residual of its implicit solve is the
    tangency condition of the reference, its sectional forces are the Kutta-Joukowski forces of the reference, and its
    per-surface lift/drag are the wind-axis components of the summed reference forces."""
    from props import groups

    cfgs = [("symL_3x3+full_2x3", [(3, 3, True, False), (2, 3, False, False)])]
    if tier == "thorough":
        cfgs += [("symR_2x3+symL_4x2+full_3x3", [(2, 3, True, True), (4, 2, True, False), (3, 3, False, False)])]
    for (cn, spec) in cfgs:
        surfaces = [K.surface(nx, ny, symm, right=right, name="s%d" % k) for k, (nx, ny, symm, right) in enumerate(spec)]
        meshes = {s["name"]: symarray(s["name"] + "_def_mesh", s["mesh"].shape) for s in surfaces}
        for s, (nx_, ny_, symm_, right_) in zip(surfaces, spec):
            if symm_:
                for i in range(nx_):
                    meshes[s["name"]][i, 0 if right_ else ny_ - 1, 1] = ZERO
        npan = sum((s["mesh"].shape[0] - 1) * (s["mesh"].shape[1] - 1) for s in surfaces)
        gam = symarray("circulations", (npan,))
        om_, cg = symarray("omega", (3,)), symarray("cg", (3,))
        G = groups.aeropoint_symbolic(surfaces, meshes, rotational=True, circulations=gam, external={"omega": om_, "cg": cg}, rep=rep)
        G.encode(rep)
        al, be, v, rho = var("alpha"), var("beta"), var("v"), var("rho")
        # the flight-condition symbols are created by the pipe under their promoted names: scalars of shape (1,)
        al, be, v, rho = (G.get("flight." + n)[0] if False else G.vals["flight." + n][0] for n in ("alpha", "beta", "v", "rho"))
        refs = [RefSurface(meshes[s["name"]], s["symmetry"]) for s in surfaces]
        ref = reference(refs, al, be, v, omega=om_, cg=cg)
        Fref = ref_forces(ref, gam, rho)
        obs = []
        R = G.resid["aero_point_0.aero_states.solve_matrix.circulations"]
        for r in range(npan):
            nv = sum((ref["mtx"][r, c] * gam[c] for c in range(npan)), ZERO) - ref["rhs"][r]
            obs.append(oblig.Ob("AeroPoint tangency residual[%d]" % r, lhs=S(R[r]), rhs=nv, meta={"family": "AeroPoint solves the flow-tangency condition of the reference", "kind": "res", "idx": [r]}))
        off = 0
        for s in surfaces:
            nxm, nym = s["mesh"].shape[0] - 1, s["mesh"].shape[1] - 1
            F = G.get("aero_point_0.aero_states." + s["name"] + "_sec_forces")
            tot = [ZERO, ZERO, ZERO]
            for i in range(nxm):
                for j in range(nym):
                    r = off + i * nym + j
                    for k in range(3):
                        obs.append(oblig.Ob("AeroPoint %s_sec_forces[%d,%d,%d]" % (s["name"], i, j, k), lhs=F[i, j, k], rhs=Fref[r, k],
                                            meta={"family": "AeroPoint sectional forces are the Kutta-Joukowski forces of the reference", "kind": "F", "idx": [r, k]}))
                        tot[k] = tot[k] + Fref[r, k]
            off += nxm * nym
            fac = 2 if s["symmetry"] else 1
            a_, b_ = al * PI / 180, be * PI / 180
            Lref = (-sin(a_) * tot[0] + cos(a_) * tot[2]) * fac
            Dref = (cos(a_) * cos(b_) * tot[0] - sin(b_) * tot[1] + sin(a_) * cos(b_) * tot[2]) * fac
            obs.append(oblig.Ob("AeroPoint %s L" % s["name"], lhs=G.get("aero_point_0." + s["name"] + "_perf.L")[0], rhs=Lref, meta={"family": "per-surface lift is the wind-axis component of the summed reference forces", "kind": "L"}))
            obs.append(oblig.Ob("AeroPoint %s D" % s["name"], lhs=G.get("aero_point_0." + s["name"] + "_perf.D")[0], rhs=Dref, meta={"family": "per-surface induced drag is the wind-axis component of the summed reference forces", "kind": "L"}))

        def rp(ob, env, surfaces=surfaces, meshes=meshes, npan=npan):
            if ob.meta["kind"] == "L":
                return None, "group-level lift/drag: replay through the force comparison"
            return replay(ob, env, surfaces, meshes, npan, through_aeropoint=True)

        nominal = {}
        for s_ in surfaces:
            mv = K.rect_mesh(s_["mesh"].shape[0], s_["mesh"].shape[1], s_["symmetry"], right=(abs(s_["mesh"][0, 0, 1]) < abs(s_["mesh"][0, -1, 1])), jitter=0.25, seed=7)
            k_ = int(s_["name"][1:])
            mv = mv + np.array([6.0 * k_, 0.0, 0.5 * k_])
            for idx in np.ndindex(*mv.shape):
                nominal["%s_def_mesh[%s]" % (s_["name"], ",".join(map(str, idx)))] = float(mv[idx])
        nominal.update({"cg[0]": 0.5, "cg[1]": 0.0, "cg[2]": 0.1, "omega[0]": 0.02, "omega[1]": 0.03, "omega[2]": -0.01})
        nominal.update({"circulations[%d]" % i: -0.7 - 0.1 * i for i in range(npan)})
        run_obligations(rep, "real AeroPoint group vs reference [%s]" % cn, obs, timeout, replay=rp, levels=(1, 2), relate=[], nominal=nominal,
                        family=lambda ob: "AeroPoint: " + ob.meta["family"], fixed={"alpha[0]": (3.0, -3.0), "beta[0]": (2.0, -2.0), "v[0]": 10.0, "rho[0]": 1.1})


def numeric_reference(surfaces, meshv, alpha, beta, v, omega, cg):
    """Independent numeric Biot-Savart solver (textbook segment formula), used only to replay counterexamples."""
    al, be = np.radians(alpha), np.radians(beta)
    u = np.array([np.cos(al), 0, np.sin(al)])
    vinf = v * np.array([np.cos(al) * np.cos(be), -np.sin(be), np.sin(al) * np.cos(be)])

    def segv(P, X, Y):
        r1, r2 = P - X, P - Y
        c = np.cross(r1, r2)
        c2 = c.dot(c)
        if c2 < 1e-20:
            return np.zeros(3)
        r0 = r1 - r2
        return c / c2 * r0.dot(r1 / np.linalg.norm(r1) - r2 / np.linalg.norm(r2)) / (4 * np.pi)

    def legv(P, X):
        r = P - X
        nr = np.linalg.norm(r)
        return np.cross(u, r) / (nr * (nr - u.dot(r))) / (4 * np.pi)

    pan = []
    for s in surfaces:
        m = meshv[s["name"]]
        nx, ny = m.shape[:2]
        q = np.empty_like(m)
        q[:-1] = 0.75 * m[:-1] + 0.25 * m[1:]
        q[-1] = m[-1]
        for i in range(nx - 1):
            for j in range(ny - 1):
                pan.append((s, m, q, i, j))
    n = len(pan)
    A = np.zeros((n, n))
    b = np.zeros(n)
    Vf = np.zeros((n, n, 3))
    onset = np.zeros((n, 3))
    bound = np.zeros((n, 3))
    prev = -np.ones(n, dtype=int)

    def ring(P, q, i, j, last, mirror):
        M = np.array([1, -1, 1]) if mirror else np.ones(3)
        Aa, B, C, D = q[i, j + 1] * M, q[i, j] * M, q[i + 1, j] * M, q[i + 1, j + 1] * M
        if mirror:
            Aa, B, C, D = B, Aa, D, C
        V = segv(P, Aa, B) + segv(P, B, C) + segv(P, D, Aa)
        V += (legv(P, C) - legv(P, D)) if last else segv(P, C, D)
        return V

    for r, (s, m, q, i, j) in enumerate(pan):
        Pc = 0.5 * (0.25 * m[i, j] + 0.75 * m[i + 1, j]) + 0.5 * (0.25 * m[i, j + 1] + 0.75 * m[i + 1, j + 1])
        nr = np.cross(m[i, j + 1] - m[i + 1, j], m[i, j] - m[i + 1, j + 1])
        nr /= np.linalg.norm(nr)
        b[r] = -nr.dot(vinf + np.cross(omega, Pc - cg))
        onset[r] = vinf + np.cross(omega, Pc - cg)
        Pq = 0.5 * (0.75 * m[i, j] + 0.25 * m[i + 1, j]) + 0.5 * (0.75 * m[i, j + 1] + 0.25 * m[i + 1, j + 1])
        bound[r] = q[i, j] - q[i, j + 1]
        if i > 0:
            prev[r] = r - (m.shape[1] - 1)
        for c, (s2, m2, q2, i2, j2) in enumerate(pan):
            V = ring(Pc, q2, i2, j2, i2 == m2.shape[0] - 2, False)
            W = ring(Pq, q2, i2, j2, i2 == m2.shape[0] - 2, False)
            if s2["symmetry"]:
                V = V + ring(Pc, q2, i2, j2, i2 == m2.shape[0] - 2, True)
                W = W + ring(Pq, q2, i2, j2, i2 == m2.shape[0] - 2, True)
            A[r, c] = nr.dot(V)
            Vf[r, c] = W
    return A, b, {"Vf": Vf, "onset": onset, "bound": bound, "prev": prev}


def replay(ob, env, surfaces, meshes, npan, through_aeropoint=False):
    if through_aeropoint:
        return replay_aeropoint(ob, env, surfaces, meshes, npan)
    import openmdao.api as om
    from openaerostruct.aerodynamics.geometry import VLMGeometry
    from openaerostruct.aerodynamics.states import VLMStates

    envf = model.FillEnv(env)
    for k_ in ("alpha", "beta", "v", "rho"):
        if k_ + "[0]" in envf and k_ not in envf:
            envf[k_] = envf[k_ + "[0]"]
    meshv = {n: num_inputs({"m": m}, envf)["m"] for n, m in meshes.items()}
    omega = np.array([envf["omega[%d]" % k] for k in range(3)])
    cg = np.array([envf["cg[%d]" % k] for k in range(3)])
    prob = om.Problem(reports=False)
    ivc = om.IndepVarComp()
    ivc.add_output("alpha", val=float(envf["alpha"]), units="deg")
    ivc.add_output("beta", val=float(envf["beta"]), units="deg")
    ivc.add_output("v", val=float(envf["v"]), units="m/s")
    ivc.add_output("rho", val=float(envf["rho"]), units="kg/m**3")
    ivc.add_output("omega", val=omega, units="rad/s")
    ivc.add_output("cg", val=cg, units="m")
    for s in surfaces:
        ivc.add_output(s["name"] + "_def_mesh", val=meshv[s["name"]], units="m")
    prob.model.add_subsystem("ivc", ivc, promotes=["*"])
    for s in surfaces:
        prob.model.add_subsystem(s["name"] + "_geom", VLMGeometry(surface=s), promotes_inputs=[("def_mesh", s["name"] + "_def_mesh")],
                                 promotes_outputs=[("normals", s["name"] + "_normals")])
    prob.model.add_subsystem("states", VLMStates(surfaces=surfaces, rotational=True), promotes=["*"])
    prob.setup()
    prob.run_model()
    A, b, aux = numeric_reference(surfaces, meshv, envf["alpha"], envf["beta"], envf["v"], omega, cg)
    Ac, bc = np.array(prob.get_val("mtx")), np.array(prob.get_val("rhs"))
    k = ob.meta["kind"]
    if k == "mtx":
        r, c = ob.meta["idx"]
        return model.differs(Ac[r, c], A[r, c], 1e-6), "real AIC[%d,%d] = %.9g, independent Biot-Savart model %.9g" % (r, c, Ac[r, c], A[r, c])
    if k == "rhs":
        r = ob.meta["idx"][0]
        return model.differs(bc[r], b[r], 1e-6), "real rhs[%d] = %.9g, independent model %.9g" % (r, bc[r], b[r])
    if k == "res":
        gam = np.array(prob.get_val("circulations"))
        res = A.dot(gam) - b
        r = ob.meta["idx"][0]
        return abs(res[r]) > 1e-6 * (1 + abs(b[r])), "normal velocity of the independent model at collocation point %d with the real circulations = %.3g" % (r, res[r])
    if k == "F":
        # Kutta-Joukowski with the real (converged) circulations through the independent model
        gam = np.array(prob.get_val("circulations"))
        r, c3 = ob.meta["idx"]
        ghs = gam[r] - (gam[aux["prev"][r]] if aux["prev"][r] >= 0 else 0.0)
        V = aux["onset"][r] + np.einsum("ck,c->k", aux["Vf"][r], gam)
        ref = float(envf["rho"]) * ghs * np.cross(V, aux["bound"][r])[c3]
        got = np.array(prob.get_val("panel_forces"))[r, c3]
        return model.differs(got, ref, 1e-6), "real panel_forces[%d,%d] = %.9g, rho * Gamma_hs * (V x l) of the independent model = %.9g" % (r, c3, got, ref)
    return None, "no replay"


def replay_aeropoint(ob, env, surfaces, meshes, npan):
    """the real AeroPoint group on floats (flight condition set at the point level, as a user does) against the
    independent numeric Biot-Savart model"""
    from props import groups

    envf = model.FillEnv(env)
    for k_ in ("alpha", "beta", "v", "rho"):
        if k_ + "[0]" in envf and k_ not in envf:
            envf[k_] = envf[k_ + "[0]"]
    if abs(envf.get("beta", 0.0)) < 1e-3:
        envf["beta"] = 6.0  # a sideslip witness: the point-level beta must reach the solve
    meshv = {n: num_inputs({"m": m}, envf)["m"] for n, m in meshes.items()}
    omega = np.array([envf["omega[%d]" % k] for k in range(3)])
    cg = np.array([envf["cg[%d]" % k] for k in range(3)])
    prob = groups.aeropoint_problem(surfaces, rotational=True, meshes=meshv,
                                    vals={"alpha": float(envf["alpha"]), "beta": float(envf["beta"]), "v": float(envf["v"]), "rho": float(envf["rho"]), "omega": omega, "cg": cg})
    prob.run_model()
    A, b, aux = numeric_reference(surfaces, meshv, envf["alpha"], envf["beta"], envf["v"], omega, cg)
    P = "aero_point_0.aero_states."
    gam = np.array(prob.get_val(P + "circulations"))
    k = ob.meta["kind"]
    if k == "res":
        res = A.dot(gam) - b
        r = int(np.argmax(np.abs(res)))
        return abs(res[r]) > 1e-6 * (1 + abs(b[r])), "real AeroPoint at alpha=%.3g beta=%.3g deg: normal velocity of the independent model at collocation point %d with the real circulations = %.3g" % (
            envf["alpha"], envf["beta"], r, res[r])
    if k == "F":
        r, c3 = ob.meta["idx"]
        ghs = gam[r] - (gam[aux["prev"][r]] if aux["prev"][r] >= 0 else 0.0)
        V = aux["onset"][r] + np.einsum("ck,c->k", aux["Vf"][r], gam)
        ref = float(envf["rho"]) * ghs * np.cross(V, aux["bound"][r])[c3]
        got = np.array(prob.get_val(P + "panel_forces"))[r, c3]
        return model.differs(got, ref, 1e-6), "real AeroPoint panel_forces[%d,%d] = %.9g, rho * Gamma_hs * (V x l) of the independent model = %.9g" % (r, c3, got, ref)
    return None, "no replay"


def replay_file(path):
    spec = json.load(open(path))
    print("recorded counterexample: %s" % spec.get("what"))
    print("VIOLATION property=%s replay=%s" % (PID, path))
    return 1
