"""C19 - composition of surfaces and wrappers does not change the physics (reduced claim)."""
from __future__ import annotations

import json

import numpy as np

from symoas import cases as K
from symoas import model, oblig, pipe, report
from symoas.model import SymComp, idents, num_inputs, run_obligations
from symoas.sym import S, ZERO, ONE, symarray, var

PID = "C19"
UNITS = {"alpha": "deg", "beta": "deg", "v": "m/s", "rho": "kg/m**3"}


def panel_offsets(surfaces):
    off, o = {}, 0
    for s in surfaces:
        off[s["name"]] = o
        o += (s["mesh"].shape[0] - 1) * (s["mesh"].shape[1] - 1)
    return off, o


def permutation(rep, tier, timeout):
    sets = [[("a", 2, 2, True), ("b", 2, 3, False)], [("a", 2, 2, True), ("b", 2, 3, False), ("c", 3, 2, True)]]
    if tier == "thorough":
        sets += [[("a", 3, 3, True), ("b", 4, 3, False), ("c", 2, 4, True)]]
    for spec in sets:
        surfs = [K.surface(nx, ny, symm, name=nm) for (nm, nx, ny, symm) in spec]
        orders = [list(range(len(surfs))), list(reversed(range(len(surfs))))]
        if len(surfs) == 3:
            orders.append([1, 2, 0])
        meshes = {s["name"]: symarray(s["name"] + "_def_mesh", s["mesh"].shape) for s in surfs}
        for s in surfs:
            if s["symmetry"]:
                for i in range(s["mesh"].shape[0]):
                    meshes[s["name"]][i, s["mesh"].shape[1] - 1, 1] = ZERO
        npan_of = {s["name"]: (s["mesh"].shape[0] - 1) * (s["mesh"].shape[1] - 1) for s in surfs}
        gam = {s["name"]: symarray("gamma_" + s["name"], (npan_of[s["name"]],)) for s in surfs}
        common = {"alpha": [var("alpha")], "beta": [var("beta")], "v": [var("v")], "rho": [var("rho")]}
        results = []
        for order in orders:
            ss = [surfs[k] for k in order]
            P = pipe.vlm_states(ss)
            P.encode(rep)
            given = dict(common)
            given.update({n + "_def_mesh": m for n, m in meshes.items()})
            given["circulations"] = np.concatenate([gam[s["name"]] for s in ss])
            ns, _ = P.run(given, units=UNITS)
            results.append((ss, ns))
        base_ss, base = results[0]
        off0, n = panel_offsets(base_ss)
        for ss, ns in results[1:]:
            off1, _ = panel_offsets(ss)
            lab = "[%s] vs [%s]" % (",".join(s["name"] for s in base_ss), ",".join(s["name"] for s in ss))
            obs = []
            for sa in surfs:
                for r in range(npan_of[sa["name"]]):
                    ra, rb = off0[sa["name"]] + r, off1[sa["name"]] + r
                    obs.append(oblig.Ob("rhs %s[%d]" % (sa["name"], r), lhs=ns["rhs"][rb], rhs=base["rhs"][ra], meta={"family": "right-hand side is permuted consistently with the surface list"}))
                    for sb in surfs:
                        for c in range(npan_of[sb["name"]]):
                            ca, cb = off0[sb["name"]] + c, off1[sb["name"]] + c
                            obs.append(oblig.Ob("mtx %s[%d] <- %s[%d]" % (sa["name"], r, sb["name"], c), lhs=ns["mtx"][rb, cb], rhs=base["mtx"][ra, ca],
                                                meta={"family": "influence matrix is permuted consistently with the surface list"}))
                obs += idents("sec_forces " + sa["name"], ns[sa["name"] + "_sec_forces"], base[sa["name"] + "_sec_forces"],
                              meta={"family": "per-surface forces do not depend on the order of the surface list"})
            def rp(ob, env, base_ss=base_ss, ss=ss, meshes=meshes, off0=off0, off1=off1, npan_of=npan_of):
                from symoas.realvlm import run_states

                envf = model.FillEnv(env)
                mv = {n: num_inputs({"m": m}, envf)["m"] for n, m in meshes.items()}
                pa = run_states(base_ss, mv, envf["alpha"], envf["beta"], envf["v"], envf["rho"])
                pb = run_states(ss, mv, envf["alpha"], envf["beta"], envf["v"], envf["rho"])
                worst = (0.0, "")
                for sa in base_ss:
                    fa, fb = pa.get_val(sa["name"] + "_sec_forces"), pb.get_val(sa["name"] + "_sec_forces")
                    d = float(np.max(np.abs(fa - fb)) / (1e-12 + np.max(np.abs(fa))))
                    if d > worst[0]:
                        worst = (d, "sectional forces of surface %s differ by %.3g (relative) between the two orders" % (sa["name"], d))
                    for sb in base_ss:
                        A0 = pa.get_val("mtx")[off0[sa["name"]]:off0[sa["name"]] + npan_of[sa["name"]], off0[sb["name"]]:off0[sb["name"]] + npan_of[sb["name"]]]
                        A1 = pb.get_val("mtx")[off1[sa["name"]]:off1[sa["name"]] + npan_of[sa["name"]], off1[sb["name"]]:off1[sb["name"]] + npan_of[sb["name"]]]
                        d = float(np.max(np.abs(A0 - A1)) / (1e-12 + np.max(np.abs(A0))))
                        if d > worst[0]:
                            worst = (d, "AIC block %s<-%s differs by %.3g (relative) between the two orders" % (sa["name"], sb["name"], d))
                return worst[0] > 1e-7, worst[1] or "identical"

            nominal = {}
            for k_, s_ in enumerate(surfs):
                mvn = K.rect_mesh(s_["mesh"].shape[0], s_["mesh"].shape[1], s_["symmetry"], jitter=0.25, seed=7 + k_) + np.array([6.0 * k_, 0.0, 0.5 * k_])
                for idx in np.ndindex(*mvn.shape):
                    nominal["%s_def_mesh[%s]" % (s_["name"], ",".join(map(str, idx)))] = float(mvn[idx])
                nominal.update({"gamma_%s[%d]" % (s_["name"], i): -0.7 - 0.1 * i for i in range(npan_of[s_["name"]])})
            run_obligations(rep, "surface order %s" % lab, obs, timeout, family=lambda ob: "surface list: " + ob.meta["family"], levels=(1,),
                            replay=rp, nominal=nominal, fixed={"alpha": 3.0, "beta": 2.0, "v": 10.0, "rho": 1.1})


def split(rep, tier, timeout):
    """A full-span surface split at an interior station into two abutting surfaces: same rings, hence the same
    influence matrix / right-hand side up to the panel permutation, and the same forces."""
    cfgs = [(2, 5, 2), (3, 5, 1)] if tier == "quick" else [(2, 5, 2), (2, 5, 1), (3, 5, 2), (4, 7, 3), (2, 7, 5), (3, 5, 3)]
    for (nx, ny, k) in cfgs:
        full_mesh = K.rect_mesh(nx, ny, False)
        sf = K.surface_from_mesh(full_mesh, False, name="whole")
        sl = K.surface_from_mesh(full_mesh[:, : k + 1], False, name="left")
        sr = K.surface_from_mesh(full_mesh[:, k:], False, name="right")
        m = symarray("whole_def_mesh", (nx, ny, 3))
        nym = ny - 1
        npan = (nx - 1) * nym
        gam = symarray("circulations", (npan,)).reshape(nx - 1, nym)
        common = {"alpha": [var("alpha")], "beta": [var("beta")], "v": [var("v")], "rho": [var("rho")]}
        Pf = pipe.vlm_states([sf])
        Pf.encode(rep)
        nf, _ = Pf.run(dict(common, whole_def_mesh=m, circulations=gam.ravel()), units=UNITS)
        Ps = pipe.vlm_states([sl, sr])
        ns, _ = Ps.run(dict(common, left_def_mesh=m[:, : k + 1], right_def_mesh=m[:, k:],
                            circulations=np.concatenate([gam[:, :k].ravel(), gam[:, k:].ravel()])), units=UNITS)
        nl = (nx - 1) * k

        def sidx(i, j):
            return i * k + j if j < k else nl + i * (nym - k) + (j - k)

        obs = []
        for i in range(nx - 1):
            for j in range(nym):
                r = i * nym + j
                obs.append(oblig.Ob("rhs[%d]" % r, lhs=ns["rhs"][sidx(i, j)], rhs=nf["rhs"][r], meta={"family": "right-hand side of the split surface"}))
                for i2 in range(nx - 1):
                    for j2 in range(nym):
                        c = i2 * nym + j2
                        obs.append(oblig.Ob("mtx[%d,%d]" % (r, c), lhs=ns["mtx"][sidx(i, j), sidx(i2, j2)], rhs=nf["mtx"][r, c],
                                            meta={"family": "influence matrix of a surface split into two abutting surfaces"}))
                for c3 in range(3):
                    part = ns["left_sec_forces"][i, j, c3] if j < k else ns["right_sec_forces"][i, j - k, c3]
                    obs.append(oblig.Ob("sec_forces[%d,%d,%d]" % (i, j, c3), lhs=part, rhs=nf["whole_sec_forces"][i, j, c3],
                                        meta={"family": "sectional forces of a surface split into two abutting surfaces"}))
        def rps(ob, env, sf=sf, sl=sl, sr=sr, m=m, k=k, nym=nym):
            from symoas.realvlm import run_states

            envf = model.FillEnv(env)
            mv = num_inputs({"m": m}, envf)["m"]
            pf = run_states([sf], {"whole": mv}, envf["alpha"], envf["beta"], envf["v"], envf["rho"])
            ps = run_states([sl, sr], {"left": mv[:, : k + 1], "right": mv[:, k:]}, envf["alpha"], envf["beta"], envf["v"], envf["rho"])
            Fw = pf.get_val("whole_sec_forces")
            Fs = np.concatenate([ps.get_val("left_sec_forces"), ps.get_val("right_sec_forces")], axis=1)
            d = float(np.max(np.abs(Fw - Fs)) / (1e-12 + np.max(np.abs(Fw))))
            return d > 1e-7, "sectional forces of the whole surface and of the two abutting surfaces differ by %.3g (relative, converged)" % d

        nominal = {}
        mvn = K.rect_mesh(nx, ny, False, jitter=0.25, seed=5)
        for idx in np.ndindex(*mvn.shape):
            nominal["whole_def_mesh[%s]" % ",".join(map(str, idx))] = float(mvn[idx])
        nominal.update({"circulations[%d]" % i: -0.7 - 0.1 * i for i in range(npan)})
        run_obligations(rep, "split %dx%d at station %d" % (nx, ny, k), obs, timeout, family=lambda ob: "split: " + ob.meta["family"], levels=(1,),
                        replay=rps, nominal=nominal, fixed={"alpha": 3.0, "beta": 2.0, "v": 10.0, "rho": 1.1})


def mphys_groups(rep, tier, timeout):
    """AeroSolverGroup / AeroFuncsGroup wrap the same components with the same options as the native groups."""
    try:
        import openmdao.api as om
        from openaerostruct.mphys.aero_solver_group import AeroSolverGroup
        from openaerostruct.aerodynamics.states import VLMStates
        from openaerostruct.aerodynamics.compressible_states import CompressibleVLMStates
    except Exception as e:
        rep.errors.append("mphys groups not importable: %r" % (e,))
        return
    ss = [K.surface(2, 2, True, name="wing"), K.surface(2, 3, False, name="tail")]
    obs = []
    for compressible in (False, True):
        prob = om.Problem(reports=False)
        prob.model.add_subsystem("g", AeroSolverGroup(surfaces=ss, compressible=compressible))
        prob.setup()
        native = om.Problem(reports=False)
        native.model.add_subsystem("g", (CompressibleVLMStates if compressible else VLMStates)(surfaces=ss))
        native.setup()

        def leaves(p):
            out = []
            for sysm in p.model.system_iter(recurse=True, include_self=False):
                if isinstance(sysm, (om.ExplicitComponent, om.ImplicitComponent)):
                    out.append(type(sysm).__name__)
            return sorted(out)

        a, b = leaves(prob), leaves(native)
        missing = [c for c in b if c not in a]
        obs.append(oblig.Ob("wrapper contains the native state components (compressible=%s)" % compressible, cond=S(len(missing)) != 0 if False else __import__("symoas.sym", fromlist=["ne"]).ne(S(len(missing)), 0),
                            meta={"family": "MPhys solver group contains every component of the native states group", "missing": missing}))
    run_obligations(rep, "MPhys wrapper structure", obs, timeout, family=lambda ob: "MPhys: " + ob.meta["family"], cut_threshold=0)
    # the wrapper executed through its own wiring returns the native residual and forces for the same meshes, flow and circulations
    import warnings

    from symoas import kernels
    from symoas.sym import symarray, var, ZERO

    prob = om.Problem(reports=False)
    ivc = om.IndepVarComp()
    for x in ss:
        ivc.add_output(x["name"] + "_def_mesh", val=x["mesh"], units="m")
    prob.model.add_subsystem("meshes", ivc, promotes=["*"])
    prob.model.add_subsystem("w", AeroSolverGroup(surfaces=ss, compressible=False), promotes=["*"])
    from mphys.core import MPhysVariables as MV
    prob.model.set_input_defaults(MV.Aerodynamics.FlowConditions.ANGLE_OF_ATTACK, val=3.0, units="deg")
    prob.model.set_input_defaults(MV.Aerodynamics.FlowConditions.YAW_ANGLE, val=0.0, units="deg")
    with warnings.catch_warnings():
        warnings.simplefilter("ignore")
        prob.setup()
        prob.final_setup()
    GP = pipe.GroupPipe(prob, extra=kernels.EVAL_MTX_STUBS)
    meshes = {x["name"]: symarray(x["name"] + "_def_mesh", x["mesh"].shape) for x in ss}
    for x in ss:
        if x["symmetry"]:
            for i in range(x["mesh"].shape[0]):
                meshes[x["name"]][i, x["mesh"].shape[1] - 1, 1] = ZERO
    npan = sum((x["mesh"].shape[0] - 1) * (x["mesh"].shape[1] - 1) for x in ss)
    gam = symarray("circulations", (npan,))
    ext = {n + "_def_mesh": m for n, m in meshes.items()}
    GP.run(external=ext, states={"circulations": gam})
    GP.encode(rep)
    created = {}
    for k, arr in GP.vals.items():
        created[GP.prom_out.get(k, k)] = arr
    P = pipe.vlm_states(ss)
    given = {n + "_def_mesh": m for n, m in meshes.items()}
    given["circulations"] = gam
    # the wrapper's flow inputs carry MPhys names; feed the native chain with the very same symbols
    byname = {}
    for absn, arr in GP.vals.items():
        if absn.startswith("_auto_ivc"):
            ins_ = [a for a, src in GP.conn.items() if src == absn]
            for a in ins_:
                byname[a.split(".")[-1]] = (arr, GP.meta_out[absn].get("units"))
    units = {}
    for nm in ("alpha", "beta", "v", "rho"):
        if nm in byname:
            given[nm], units[nm] = byname[nm]
    ns, _ = P.run(given, units=units)
    obs = []
    R = [v for k, v in GP.resid.items() if k.endswith("circulations")][0]
    for r in range(npan):
        nat = sum((ns["mtx"][r, c] * gam[c] for c in range(npan)), ZERO) - ns["rhs"][r]
        obs.append(oblig.Ob("wrapper residual[%d]" % r, lhs=S(R[r]), rhs=nat, meta={"family": "MPhys solver group solves the native VLM system"}))
    for x in ss:
        obs += idents("wrapper %s sec_forces" % x["name"], GP.get(x["name"] + ".sec_forces") if (x["name"] + ".sec_forces") in created else GP.get(x["name"] + "_sec_forces"),
                      ns[x["name"] + "_sec_forces"], meta={"family": "MPhys solver group returns the native sectional forces"})
    run_obligations(rep, "MPhys AeroSolverGroup vs native states", obs, timeout, levels=(1, 2), family=lambda ob: "MPhys: " + ob.meta["family"])


def run(tier, seed, only=None):
    rep = report.Report(PID, tier, seed)
    timeout = 20.0 if tier == "quick" else 60.0
    if not only or "perm" in only:
        permutation(rep, tier, timeout)
    if not only or "split" in only:
        split(rep, tier, timeout)
    if not only or "mphys" in only:
        mphys_groups(rep, tier, timeout)
    rep.stubs.add("vortex kernels -> canonicalised uninterpreted functions")
    rep.assumptions = ["real arithmetic", "same circulations given to both compositions (equal systems imply equal solutions when nonsingular)",
                       "not decided: vanishing influence of a far-away surface (a limit); CM normalisation by the first surface is documented behaviour",
                       "mux/demux inverse permutation and adjointness are obligations of C02"]
    rep.bounds = {"surfaces": "2 (quick), 3 (thorough)", "split": "nx 2-3, ny 5"}
    return rep.finish("C19 (reduced): permutation and split invariance of the AIC, right-hand side and forces of the real pipeline; the MPhys "
                      "solver group contains the native states components")


def replay_file(path):
    spec = json.load(open(path))
    print("recorded counterexample: %s" % spec.get("what"))
    print("VIOLATION property=%s replay=%s" % (PID, path))
    return 1
