"""C19 - composition of surfaces and wrappers does not change the physics (reduced claim)."""
from __future__ import annotations

import json

import numpy as np

from symoas import cases as K
from symoas import model, oblig, pipe, report
from symoas.model import SymComp, idents, num_inputs, run_obligations
from symoas.sym import S, ZERO, ONE, ne, symarray, var

PID = "C19"
UNITS = {"alpha": "deg", "beta": "deg", "v": "m/s", "rho": "kg/m**3"}


def panel_offsets(surfaces):
    off, o = {}, 0
    for s in surfaces:
        off[s["name"]] = o
        o += (s["mesh"].shape[0] - 1) * (s["mesh"].shape[1] - 1)
    return off, o


def permutation(rep, tier, timeout):
    sets = [[("a", 2, 2, True), ("b", 2, 3, False)], [("a", 2, 2, True), ("b", 2, 3, False), ("c", 3, 2, True)]]
    if tier == "thorough":
        sets += [[("a", 3, 3, True), ("b", 4, 3, False), ("c", 2, 4, True)]]
    for spec in sets:
        surfs = [K.surface(nx, ny, symm, name=nm) for (nm, nx, ny, symm) in spec]
        orders = [list(range(len(surfs))), list(reversed(range(len(surfs))))]
        if len(surfs) == 3:
            orders.append([1, 2, 0])
        meshes = {s["name"]: symarray(s["name"] + "_def_mesh", s["mesh"].shape) for s in surfs}
        for s in surfs:
            if s["symmetry"]:
                for i in range(s["mesh"].shape[0]):
                    meshes[s["name"]][i, s["mesh"].shape[1] - 1, 1] = ZERO
        npan_of = {s["name"]: (s["mesh"].shape[0] - 1) * (s["mesh"].shape[1] - 1) for s in surfs}
        gam = {s["name"]: symarray("gamma_" + s["name"], (npan_of[s["name"]],)) for s in surfs}
        common = {"alpha": [var("alpha")], "beta": [var("beta")], "v": [var("v")], "rho": [var("rho")]}
        results = []
        for order in orders:
            ss = [surfs[k] for k in order]
            P = pipe.vlm_states(ss)
            P.encode(rep)
            given = dict(common)
            given.update({n + "_def_mesh": m for n, m in meshes.items()})
            given["circulations"] = np.concatenate([gam[s["name"]] for s in ss])
            ns, _ = P.run(given, units=UNITS)
            results.append((ss, ns))
        base_ss, base = results[0]
        off0, n = panel_offsets(base_ss)
        for ss, ns in results[1:]:
            off1, _ = panel_offsets(ss)
            lab = "[%s] vs [%s]" % (",".join(s["name"] for s in base_ss), ",".join(s["name"] for s in ss))
            obs = []
            for sa in surfs:
                for r in range(npan_of[sa["name"]]):
                    ra, rb = off0[sa["name"]] + r, off1[sa["name"]] + r
                    obs.append(oblig.Ob("rhs %s[%d]" % (sa["name"], r), lhs=ns["rhs"][rb], rhs=base["rhs"][ra], meta={"family": "right-hand side is permuted consistently with the surface list"}))
                    for sb in surfs:
                        for c in range(npan_of[sb["name"]]):
                            ca, cb = off0[sb["name"]] + c, off1[sb["name"]] + c
                            obs.append(oblig.Ob("mtx %s[%d] <- %s[%d]" % (sa["name"], r, sb["name"], c), lhs=ns["mtx"][rb, cb], rhs=base["mtx"][ra, ca],
                                                meta={"family": "influence matrix is permuted consistently with the surface list"}))
                obs += idents("sec_forces " + sa["name"], ns[sa["name"] + "_sec_forces"], base[sa["name"] + "_sec_forces"],
                              meta={"family": "per-surface forces do not depend on the order of the surface list"})
            def rp(ob, env, base_ss=base_ss, ss=ss, meshes=meshes, off0=off0, off1=off1, npan_of=npan_of):
                from symoas.realvlm import run_states

                envf = model.FillEnv(env)
                mv = {n: num_inputs({"m": m}, envf)["m"] for n, m in meshes.items()}
                pa = run_states(base_ss, mv, envf["alpha"], envf["beta"], envf["v"], envf["rho"])
                pb = run_states(ss, mv, envf["alpha"], envf["beta"], envf["v"], envf["rho"])
                worst = (0.0, "")
                for sa in base_ss:
                    fa, fb = pa.get_val(sa["name"] + "_sec_forces"), pb.get_val(sa["name"] + "_sec_forces")
                    d = float(np.max(np.abs(fa - fb)) / (1e-12 + np.max(np.abs(fa))))
                    if d > worst[0]:
                        worst = (d, "sectional forces of surface %s differ by %.3g (relative) between the two orders" % (sa["name"], d))
                    for sb in base_ss:
                        A0 = pa.get_val("mtx")[off0[sa["name"]]:off0[sa["name"]] + npan_of[sa["name"]], off0[sb["name"]]:off0[sb["name"]] + npan_of[sb["name"]]]
                        A1 = pb.get_val("mtx")[off1[sa["name"]]:off1[sa["name"]] + npan_of[sa["name"]], off1[sb["name"]]:off1[sb["name"]] + npan_of[sb["name"]]]
                        d = float(np.max(np.abs(A0 - A1)) / (1e-12 + np.max(np.abs(A0))))
                        if d > worst[0]:
                            worst = (d, "AIC block %s<-%s differs by %.3g (relative) between the two orders" % (sa["name"], sb["name"], d))
                return worst[0] > 1e-7, worst[1] or "identical"

            nominal = {}
            for k_, s_ in enumerate(surfs):
                mvn = K.rect_mesh(s_["mesh"].shape[0], s_["mesh"].shape[1], s_["symmetry"], jitter=0.25, seed=7 + k_) + np.array([6.0 * k_, 0.0, 0.5 * k_])
                for idx in np.ndindex(*mvn.shape):
                    nominal["%s_def_mesh[%s]" % (s_["name"], ",".join(map(str, idx)))] = float(mvn[idx])
                nominal.update({"gamma_%s[%d]" % (s_["name"], i): -0.7 - 0.1 * i for i in range(npan_of[s_["name"]])})
            run_obligations(rep, "surface order %s" % lab, obs, timeout, family=lambda ob: "surface list: " + ob.meta["family"], levels=(1,),
                            replay=rp, nominal=nominal, fixed={"alpha": (3.0, -3.0), "beta": (2.0, -2.0), "v": 10.0, "rho": 1.1})


def split(rep, tier, timeout):
    """A full-span surface split at an interior station into two abutting surfaces: same rings, hence the same
    influence matrix / right-hand side up to the panel permutation, and the same forces."""
    cfgs = [(2, 5, 2), (3, 5, 1)] if tier == "quick" else [(2, 5, 2), (2, 5, 1), (3, 5, 2), (4, 7, 3), (2, 7, 5), (3, 5, 3)]
    for (nx, ny, k) in cfgs:
        full_mesh = K.rect_mesh(nx, ny, False)
        sf = K.surface_from_mesh(full_mesh, False, name="whole")
        sl = K.surface_from_mesh(full_mesh[:, : k + 1], False, name="left")
        sr = K.surface_from_mesh(full_mesh[:, k:], False, name="right")
        m = symarray("whole_def_mesh", (nx, ny, 3))
        nym = ny - 1
        npan = (nx - 1) * nym
        gam = symarray("circulations", (npan,)).reshape(nx - 1, nym)
        common = {"alpha": [var("alpha")], "beta": [var("beta")], "v": [var("v")], "rho": [var("rho")]}
        Pf = pipe.vlm_states([sf])
        Pf.encode(rep)
        nf, _ = Pf.run(dict(common, whole_def_mesh=m, circulations=gam.ravel()), units=UNITS)
        Ps = pipe.vlm_states([sl, sr])
        ns, _ = Ps.run(dict(common, left_def_mesh=m[:, : k + 1], right_def_mesh=m[:, k:],
                            circulations=np.concatenate([gam[:, :k].ravel(), gam[:, k:].ravel()])), units=UNITS)
        nl = (nx - 1) * k

        def sidx(i, j):
            return i * k + j if j < k else nl + i * (nym - k) + (j - k)

        obs = []
        for i in range(nx - 1):
            for j in range(nym):
                r = i * nym + j
                obs.append(oblig.Ob("rhs[%d]" % r, lhs=ns["rhs"][sidx(i, j)], rhs=nf["rhs"][r], meta={"family": "right-hand side of the split surface"}))
                for i2 in range(nx - 1):
                    for j2 in range(nym):
                        c = i2 * nym + j2
                        obs.append(oblig.Ob("mtx[%d,%d]" % (r, c), lhs=ns["mtx"][sidx(i, j), sidx(i2, j2)], rhs=nf["mtx"][r, c],
                                            meta={"family": "influence matrix of a surface split into two abutting surfaces"}))
                for c3 in range(3):
                    part = ns["left_sec_forces"][i, j, c3] if j < k else ns["right_sec_forces"][i, j - k, c3]
                    obs.append(oblig.Ob("sec_forces[%d,%d,%d]" % (i, j, c3), lhs=part, rhs=nf["whole_sec_forces"][i, j, c3],
                                        meta={"family": "sectional forces of a surface split into two abutting surfaces"}))
        def rps(ob, env, sf=sf, sl=sl, sr=sr, m=m, k=k, nym=nym):
            from symoas.realvlm import run_states

            envf = model.FillEnv(env)
            mv = num_inputs({"m": m}, envf)["m"]
            pf = run_states([sf], {"whole": mv}, envf["alpha"], envf["beta"], envf["v"], envf["rho"])
            ps = run_states([sl, sr], {"left": mv[:, : k + 1], "right": mv[:, k:]}, envf["alpha"], envf["beta"], envf["v"], envf["rho"])
            Fw = pf.get_val("whole_sec_forces")
            Fs = np.concatenate([ps.get_val("left_sec_forces"), ps.get_val("right_sec_forces")], axis=1)
            d = float(np.max(np.abs(Fw - Fs)) / (1e-12 + np.max(np.abs(Fw))))
            return d > 1e-7, "sectional forces of the whole surface and of the two abutting surfaces differ by %.3g (relative, converged)" % d

        nominal = {}
        mvn = K.rect_mesh(nx, ny, False, jitter=0.25, seed=5)
        for idx in np.ndindex(*mvn.shape):
            nominal["whole_def_mesh[%s]" % ",".join(map(str, idx))] = float(mvn[idx])
        nominal.update({"circulations[%d]" % i: -0.7 - 0.1 * i for i in range(npan)})
        run_obligations(rep, "split %dx%d at station %d" % (nx, ny, k), obs, timeout, family=lambda ob: "split: " + ob.meta["family"], levels=(1,),
                        replay=rps, nominal=nominal, fixed={"alpha": (3.0, -3.0), "beta": (2.0, -2.0), "v": 10.0, "rho": 1.1})


def mphys_groups(rep, tier, timeout):
    """AeroSolverGroup / AeroFuncsGroup wrap the same components with the same options as the native groups."""
    try:
        import openmdao.api as om
        from openaerostruct.mphys.aero_solver_group import AeroSolverGroup
        from openaerostruct.aerodynamics.states import VLMStates
        from openaerostruct.aerodynamics.compressible_states import CompressibleVLMStates
    except Exception as e:
        rep.errors.append("mphys groups not importable: %r" % (e,))
        return
    ss = [K.surface(2, 2, True, name="wing"), K.surface(2, 3, False, name="tail"), K.surface(3, 2, True, name="fin")]
    obs = []
    for compressible in (False, True):
        prob = om.Problem(reports=False)
        prob.model.add_subsystem("g", AeroSolverGroup(surfaces=ss, compressible=compressible))
        prob.setup()
        native = om.Problem(reports=False)
        native.model.add_subsystem("g", (CompressibleVLMStates if compressible else VLMStates)(surfaces=ss))
        native.setup()

        def leaves(p):
            out = []
            for sysm in p.model.system_iter(recurse=True, include_self=False):
                if isinstance(sysm, (om.ExplicitComponent, om.ImplicitComponent)):
                    out.append(type(sysm).__name__)
            return sorted(out)

        a, b = leaves(prob), leaves(native)
        missing = [c for c in b if c not in a]
        obs.append(oblig.Ob("wrapper contains the native state components (compressible=%s)" % compressible, cond=S(len(missing)) != 0 if False else __import__("symoas.sym", fromlist=["ne"]).ne(S(len(missing)), 0),
                            meta={"family": "MPhys solver group contains every component of the native states group", "missing": missing}))
    run_obligations(rep, "MPhys wrapper structure", obs, timeout, family=lambda ob: "MPhys: " + ob.meta["family"], cut_threshold=0)
    # the wrapper executed through its own wiring returns the native residual and forces for the same meshes, flow and circulations
    import warnings

    from symoas import kernels
    from symoas.sym import symarray, var, ZERO

    prob = om.Problem(reports=False)
    ivc = om.IndepVarComp()
    for x in ss:
        ivc.add_output(x["name"] + "_def_mesh", val=x["mesh"], units="m")
    prob.model.add_subsystem("meshes", ivc, promotes=["*"])
    prob.model.add_subsystem("w", AeroSolverGroup(surfaces=ss, compressible=False), promotes=["*"])
    from mphys.core import MPhysVariables as MV
    prob.model.set_input_defaults(MV.Aerodynamics.FlowConditions.ANGLE_OF_ATTACK, val=3.0, units="deg")
    prob.model.set_input_defaults(MV.Aerodynamics.FlowConditions.YAW_ANGLE, val=0.0, units="deg")
    with warnings.catch_warnings():
        warnings.simplefilter("ignore")
        prob.setup()
        prob.final_setup()
    GP = pipe.GroupPipe(prob, extra=kernels.EVAL_MTX_STUBS)
    meshes = {x["name"]: symarray(x["name"] + "_def_mesh", x["mesh"].shape) for x in ss}
    for x in ss:
        if x["symmetry"]:
            for i in range(x["mesh"].shape[0]):
                meshes[x["name"]][i, x["mesh"].shape[1] - 1, 1] = ZERO
    npan = sum((x["mesh"].shape[0] - 1) * (x["mesh"].shape[1] - 1) for x in ss)
    gam = symarray("circulations", (npan,))
    ext = {n + "_def_mesh": m for n, m in meshes.items()}
    GP.run(external=ext, states={"circulations": gam})
    GP.encode(rep)
    created = {}
    for k, arr in GP.vals.items():
        created[GP.prom_out.get(k, k)] = arr
    P = pipe.vlm_states(ss)
    given = {n + "_def_mesh": m for n, m in meshes.items()}
    given["circulations"] = gam
    # the wrapper's flow inputs carry MPhys names; feed the native chain with the very same symbols
    byname = {}
    for absn, arr in GP.vals.items():
        if absn.startswith("_auto_ivc"):
            ins_ = [a for a, src in GP.conn.items() if src == absn]
            for a in ins_:
                byname[a.split(".")[-1]] = (arr, GP.meta_out[absn].get("units"))
    units = {}
    for nm in ("alpha", "beta", "v", "rho"):
        if nm in byname:
            given[nm], units[nm] = byname[nm]
    ns, _ = P.run(given, units=units)
    obs = []
    R = [v for k, v in GP.resid.items() if k.endswith("circulations")][0]
    for r in range(npan):
        nat = sum((ns["mtx"][r, c] * gam[c] for c in range(npan)), ZERO) - ns["rhs"][r]
        obs.append(oblig.Ob("wrapper residual[%d]" % r, lhs=S(R[r]), rhs=nat, meta={"family": "MPhys solver group solves the native VLM system"}))
    for x in ss:
        try:
            got = GP.get(x["name"] + ".sec_forces") if (x["name"] + ".sec_forces") in created else GP.get(x["name"] + "_sec_forces")
        except KeyError:
            # the wrapper does not hand the sectional forces of this surface out at all: confirm on the real set-up group
            rep.counts["obligations"] += 1
            rep.counts["nontrivial"] += 1
            rep.counts["candidates"] += 1
            outs = {prob.model._resolver.abs2prom(a, "output") for a in prob.model._var_allprocs_abs2meta["output"]}
            want = [x["name"] + ".sec_forces", x["name"] + "_sec_forces"]
            if not any(w in outs for w in want):
                rep.violation("MPhys: the solver group hands out the sectional forces of every surface",
                              "surface %s: none of %s is an output of the MPhys solver group (outputs: %s)" % (x["name"], want, sorted(o for o in outs if "sec_forces" in o)),
                              {"group": "MPhys AeroSolverGroup vs native states", "surface": x["name"], "structural": True})
            else:
                rep.not_reproduced.append({"id": "wrapper %s sec_forces" % x["name"], "why": "symbolic pipe did not find the output, the real group has it"})
            continue
        obs += idents("wrapper %s sec_forces" % x["name"], got,
                      ns[x["name"] + "_sec_forces"], meta={"family": "MPhys solver group returns the native sectional forces"})
    run_obligations(rep, "MPhys AeroSolverGroup vs native states", obs, timeout, levels=(1, 2), family=lambda ob: "MPhys: " + ob.meta["family"],
                    replay=lambda ob, env: replay_mphys(ss))


def multi_spline_indices(rep, tier, timeout):
    """Sections joined by construction: the real connect_multi_spline hands every section a run of consecutive entries of
    the unified control vector, neighbouring runs share exactly their edge entry, and the runs cover the vector that the
    real build_multi_spline sizes - ground obligations on the index arrays the real functions produce for control-point
    counts of 2 to 5 per section (a count of 1 ends a run without overlap, as documented)."""
    import itertools

    import openaerostruct.geometry.multi_unified_bspline_utils as mu

    rep.encode(mu.build_multi_spline, mu.connect_multi_spline)

    class _Rec:
        def __init__(self):
            self.calls = []
            self.model = self

        def connect(self, src, tgt, src_indices=None):
            self.calls.append((src, tgt, np.asarray(src_indices)))

    def indices(counts):
        rec = _Rec()
        secs = [{"name": "sec%d" % i} for i in range(len(counts))]
        cps = [np.ones(c) for c in counts]
        mu.connect_multi_spline(rec, secs, cps, "chord_cp", "chord_bspline", "geo")
        ivc = mu.build_multi_spline("chord_cp", len(counts), cps)
        # the size build_multi_spline gave the unified vector (an IndepVarComp that is not set up yet keeps its outputs in a list)
        size = None
        for md_ in getattr(ivc, "_static_var_rel2meta", {}).values():
            size = int(md_["size"])
        return [c[2] for c in rec.calls], size

    lists = [c for n in (2, 3) for c in itertools.product((2, 3, 4), repeat=n)] + ([(5, 2, 3), (3, 5, 4)] if tier != "quick" else [])
    obs = []
    for counts in lists:
        idx, size = indices(counts)
        tag = "counts %s" % (list(counts),)
        meta = {"counts": list(counts)}
        for i, a in enumerate(idx):
            obs.append(oblig.Ob("%s: section %d gets %d consecutive entries" % (tag, i, counts[i]), cond=ne(S(int(len(a) == counts[i] and bool(np.all(np.diff(a) == 1)))), 1),
                                meta=dict(meta, family="every section reads a run of consecutive entries of the unified control vector")))
            if i + 1 < len(idx):
                obs.append(oblig.Ob("%s: sections %d and %d share their edge entry" % (tag, i, i + 1), lhs=S(int(idx[i + 1][0])), rhs=S(int(a[-1])),
                                    meta=dict(meta, family="neighbouring sections share exactly the control point on their common edge")))
        obs.append(oblig.Ob("%s: first entry" % tag, lhs=S(int(idx[0][0])), rhs=ZERO, meta=dict(meta, family="the runs cover the unified control vector")))
        if size is not None:
            obs.append(oblig.Ob("%s: last entry is the last of the unified vector" % tag, lhs=S(int(idx[-1][-1])), rhs=S(size - 1), meta=dict(meta, family="the runs cover the unified control vector")))

    def rp(ob, env):
        counts = ob.meta["counts"]
        idx, size = indices(counts)
        bad = []
        for i in range(len(idx) - 1):
            if idx[i + 1][0] != idx[i][-1]:
                bad.append("section %d ends at entry %d, section %d starts at %d" % (i, idx[i][-1], i + 1, idx[i + 1][0]))
        if size is not None and idx[-1][-1] != size - 1:
            bad.append("last section ends at entry %d of a unified vector of %d" % (idx[-1][-1], size))
        return bool(bad), "control points per section %s: %s" % (counts, "; ".join(bad) or "runs overlap by one entry and cover the vector")

    run_obligations(rep, "multi-section control points joined by construction (%d count lists)" % len(lists), obs, timeout, replay=rp, cut_threshold=0,
                    family=lambda ob: "multi-spline: " + ob.meta["family"])


def run(tier, seed, only=None):
    rep = report.Report(PID, tier, seed)
    timeout = 20.0 if tier == "quick" else 60.0
    if not only or "perm" in only:
        permutation(rep, tier, timeout)
    if not only or "split" in only:
        split(rep, tier, timeout)
    if not only or "spline" in only:
        multi_spline_indices(rep, tier, timeout)
    if not only or "mphys" in only:
        mphys_groups(rep, tier, timeout)
        mphys_scenario(rep, tier, timeout)
        index_bookkeeping(rep, tier, timeout)
    if not only or "sections" in only:
        # splitting a wing into sections (real MultiSecGeometry) against the same wing as one surface (shared with C13)
        from props import c13

        c13.multisection_vs_single(rep, tier, timeout)
    rep.stubs.add("vortex kernels -> canonicalised uninterpreted functions")
    rep.assumptions = ["real arithmetic", "same circulations given to both compositions (equal systems imply equal solutions when nonsingular)",
                       "not decided: vanishing influence of a far-away surface (a limit); CM normalisation by the first surface is documented behaviour",
                       "mux/demux inverse permutation and adjointness are obligations of C02"]
    rep.bounds = {"surfaces": "2 (quick), 3 (thorough)", "split": "nx 2-3, ny 5"}
    return rep.finish("C19 (reduced): permutation and split invariance of the AIC, right-hand side and forces of the real pipeline; the MPhys "
                      "solver group contains the native states components")


def replay_file(path):
    spec = json.load(open(path))
    print("recorded counterexample: %s" % spec.get("what"))
    print("VIOLATION property=%s replay=%s" % (PID, path))
    return 1


def _mpi_single_process_stub():
    """OpenMDAO's FakeComm (no mpi4py here) lacks two calls MPhys' DistributedConverter makes; single-process semantics"""
    from openmdao.utils.mpi import FakeComm

    if not hasattr(FakeComm, "Get_rank"):
        FakeComm.Get_rank = lambda self: 0
    if not hasattr(FakeComm, "bcast"):
        FakeComm.bcast = lambda self, x, root=0: x


def mphys_scenario_problem(ss, compressible=False, vals=None):
    """the real MPhys aerodynamic scenario assembled by the real AeroBuilder, as tests/integration_tests/test_simple_rect_mphys_aero.py does"""
    import warnings

    import openmdao.api as om
    from mphys.core import Multipoint, MPhysVariables as MV
    from mphys.scenarios import ScenarioAerodynamic
    from openaerostruct.mphys import AeroBuilder

    _mpi_single_process_stub()
    FV = MV.Aerodynamics.FlowConditions
    vals = vals or {}

    class Top(Multipoint):
        def setup(self):
            dvs = self.add_subsystem("dvs", om.IndepVarComp(), promotes=["*"])
            dvs.add_output(FV.ANGLE_OF_ATTACK, val=vals.get("alpha", 3.0), units="deg")
            dvs.add_output(FV.YAW_ANGLE, val=vals.get("beta", 0.0), units="deg")
            dvs.add_output("rho", val=vals.get("rho", 1.1), units="kg/m**3")
            dvs.add_output(FV.MACH_NUMBER, vals.get("Mach_number", 0.3))
            dvs.add_output("v", vals.get("v", 10.0), units="m/s")
            dvs.add_output(FV.REYNOLDS_NUMBER, vals.get("re", 1e6), units="1/m")
            dvs.add_output("cg", val=vals.get("cg", np.zeros(3)), units="m")
            b = AeroBuilder(ss, {"compressible": compressible, "write_solution": False})
            b.initialize(self.comm)
            self.builder = b
            self.add_subsystem("mesh", b.get_mesh_coordinate_subsystem())
            self.mphys_add_scenario("aero_point_0", ScenarioAerodynamic(aero_builder=b))
            self.connect("mesh.%s" % MV.Aerodynamics.Surface.Mesh.COORDINATES, "aero_point_0.%s" % MV.Aerodynamics.Surface.COORDINATES)
            for dv in (FV.ANGLE_OF_ATTACK, FV.YAW_ANGLE, FV.MACH_NUMBER, FV.REYNOLDS_NUMBER, "rho", "v", "cg"):
                self.connect(dv, "aero_point_0.%s" % dv)

    prob = om.Problem(reports=False)
    prob.model = Top()
    with warnings.catch_warnings():
        warnings.simplefilter("ignore")
        prob.setup()
        prob.final_setup()
    return prob, FV, MV


def mphys_scenario(rep, tier, timeout):
    """The whole MPhys aerodynamic scenario (AeroMesh -> collector -> demuxer -> AeroSolverGroup -> muxer -> distributor ->
    AeroFuncsGroup), built by the real AeroBuilder and executed symbolically through its own connections, against the
    native AeroPoint executed the same way, for the same node coordinates (in the node numbering the builder hands to
    MPhys, get_node_indices), flow and circulations."""
    from props import groups
    from symoas import kernels
    from openaerostruct.mphys.utils import get_node_indices

    ss = [K.surface(2, 2, True, name="wing"), K.surface(2, 3, False, name="tail"), K.surface(3, 2, True, name="fin")]
    try:
        prob, FV, MV = mphys_scenario_problem(ss)
    except Exception as e:
        rep.errors.append("MPhys scenario cannot be set up: %r" % (e,))
        return
    rep.stubs.add("FakeComm.Get_rank -> 0, FakeComm.bcast -> identity (single-process MPI semantics for MPhys' DistributedConverter)")
    node = get_node_indices(ss)  # unchanged public numbering: surface by surface, row-major (nx, ny)
    nn = sum(s["mesh"].shape[0] * s["mesh"].shape[1] for s in ss)
    x = symarray("x_aero", (3 * nn,))
    meshes = {}
    for s in ss:
        nx, ny = s["mesh"].shape[:2]
        m = np.empty((nx, ny, 3), dtype=object)
        for i in range(nx):
            for j in range(ny):
                for c in range(3):
                    m[i, j, c] = x[3 * int(node[s["name"]][i, j]) + c]
        if s["symmetry"]:
            for i in range(nx):
                x[3 * int(node[s["name"]][i, ny - 1]) + 1] = ZERO
                m[i, ny - 1, 1] = ZERO
        meshes[s["name"]] = m
    npan = sum((s["mesh"].shape[0] - 1) * (s["mesh"].shape[1] - 1) for s in ss)
    gam = symarray("circulations", (npan,))
    flow = {"alpha": symarray("alpha", (1,)), "beta": symarray("beta", (1,)), "v": symarray("v", (1,)), "rho": symarray("rho", (1,)),
            "Mach_number": symarray("Mach_number", (1,)), "re": symarray("re", (1,)), "cg": symarray("cg", (3,))}
    toc = {s["name"]: symarray(s["name"] + "_t_over_c", (s["mesh"].shape[1] - 1,)) for s in ss}
    GP = pipe.GroupPipe(prob, extra=kernels.EVAL_MTX_STUBS)
    ext = {FV.ANGLE_OF_ATTACK: flow["alpha"], FV.YAW_ANGLE: flow["beta"], FV.MACH_NUMBER: flow["Mach_number"], FV.REYNOLDS_NUMBER: flow["re"],
           "rho": flow["rho"], "v": flow["v"], "cg": flow["cg"], "mesh.%s" % MV.Aerodynamics.Surface.Mesh.COORDINATES: x}
    for s in ss:
        ext["aero_point_0.aero_post.%s.t_over_c" % s["name"]] = toc[s["name"]]
        ext["aero_point_0.%s.t_over_c" % s["name"]] = toc[s["name"]]
    circ_abs = [a for a in GP.meta_out if a.endswith("solve_matrix.circulations")]
    GP.run(external=ext, states={circ_abs[0]: gam})
    GP.encode(rep)
    # the concrete coordinates AeroMesh publishes are the surface meshes in that same node numbering
    xp = np.asarray(prob.get_val("mesh.%s" % MV.Aerodynamics.Surface.Mesh.COORDINATES), dtype=float)
    obs = []
    for s in ss:
        nx, ny = s["mesh"].shape[:2]
        for i in range(nx):
            for j in range(ny):
                for c in range(3):
                    obs.append(oblig.Ob("AeroMesh %s[%d,%d,%d]" % (s["name"], i, j, c), lhs=S(float(xp[3 * int(node[s["name"]][i, j]) + c])), rhs=S(float(s["mesh"][i, j, c])),
                                        meta={"family": "AeroMesh publishes the surface meshes in the builder's node numbering", "kind": "mesh"}))
    # native AeroPoint through its own wiring
    G = groups.aeropoint_symbolic(ss, meshes, circulations=gam,
                                  external=dict({k: flow[k] for k in ("alpha", "beta", "v", "rho", "Mach_number", "re", "cg")},
                                                **{s["name"] + "_t_over_c": toc[s["name"]] for s in ss}))
    R = [v for k, v in GP.resid.items() if k.endswith("circulations")][0]
    Rn = G.resid["aero_point_0.aero_states.solve_matrix.circulations"]
    for r in range(npan):
        obs.append(oblig.Ob("scenario residual[%d]" % r, lhs=S(R[r]), rhs=S(Rn[r]), meta={"family": "MPhys scenario solves the native VLM system", "kind": "res"}))
    fa = [v for k, v in GP.vals.items() if k.endswith("distributor.%s" % MV.Aerodynamics.Surface.LOADS)][0]
    for s in ss:
        n = s["name"]
        nx, ny = s["mesh"].shape[:2]
        nat = G.get("aero_point_0.aero_states.%s_mesh_point_forces" % n)
        for i in range(nx):
            for j in range(ny):
                for c in range(3):
                    obs.append(oblig.Ob("f_aero node %s[%d,%d,%d]" % (n, i, j, c), lhs=S(fa[3 * int(node[n][i, j]) + c]), rhs=S(nat[i, j, c]),
                                        meta={"family": "MPhys nodal loads are the native mesh-point forces at the builder's node numbers", "kind": "f", "surf": n, "idx": [i, j, c]}))
        obs += idents("scenario %s sec_forces" % n, [v for k, v in GP.vals.items() if k.endswith("states.solver.%s_sec_forces" % n) or k.endswith("solver.panel_forces_surf.%s_sec_forces" % n)][0],
                      G.get("aero_point_0.aero_states.%s_sec_forces" % n), meta={"family": "MPhys scenario returns the native sectional forces", "kind": "sec", "surf": n})
        for q in ("CL", "CD"):
            obs += idents("scenario %s %s" % (n, q), GP.get("aero_point_0.aero_post.%s.%s.%s" % (n, q, q)) if False else [v for k, v in GP.vals.items() if k.endswith("aero_post.%s.%s.%s" % (n, q, q))][0],
                          G.get("aero_point_0.%s_perf.%s" % (n, q)), meta={"family": "MPhys scenario returns the native per-surface coefficients", "kind": "coef", "q": "%s.%s" % (n, q)})
    for q in ("CL", "CD", "CM"):
        a = [v for k, v in GP.vals.items() if k.endswith("aero_post.total_perf.%s" % ({"CL": "CL_CD.CL", "CD": "CL_CD.CD", "CM": "moment.CM"}[q]))][0]
        b = G.get("aero_point_0.total_perf.%s" % ({"CL": "CL_CD.CL", "CD": "CL_CD.CD", "CM": "moment.CM"}[q]))
        obs += idents("scenario total %s" % q, a, b, meta={"family": "MPhys scenario returns the native aircraft coefficients", "kind": "tot", "q": q})

    def rp(ob, env):
        return replay_mphys(ss)

    run_obligations(rep, "MPhys scenario (real AeroBuilder) vs native AeroPoint, 3 surfaces", obs, timeout, levels=(1, 2), replay=rp,
                    family=lambda ob: "MPhys: " + ob.meta["family"])


def replay_mphys(ss, compressible=False):
    """both real models on floats: the MPhys scenario and the native AeroPoint for the same meshes and flow"""
    from props import groups

    vals = {"alpha": 4.0, "beta": 0.0, "v": 60.0, "rho": 1.0, "Mach_number": 0.3, "re": 1e6}
    from openaerostruct.mphys.utils import get_node_indices

    # the symbolic surfaces may sit on top of each other; the float models need distinct lifting surfaces
    import copy

    ss = [copy.deepcopy(s_) for s_ in ss]
    for k_, s_ in enumerate(ss):
        s_["mesh"] = s_["mesh"] + np.array([4.0 * k_, 0.0, 0.7 * k_])

    prob, FV, MV = mphys_scenario_problem(ss, compressible=compressible, vals=vals)
    nat = groups.aeropoint_problem(ss, compressible=compressible, vals=vals)
    nat.run_model()
    bad = []
    node = get_node_indices(ss)
    xp = np.asarray(prob.get_val("mesh.%s" % MV.Aerodynamics.Surface.Mesh.COORDINATES), dtype=float).reshape(-1, 3)
    for s in ss:
        d = np.abs(xp[node[s["name"]].ravel()] - s["mesh"].reshape(-1, 3)).max()
        if d > 1e-12:
            bad.append("AeroMesh coordinates of %s differ from its mesh at the builder's node numbers (max %.3g)" % (s["name"], d))
    try:
        prob.run_model()
    except Exception as e:
        return True, "; ".join(bad + ["the MPhys scenario fails (%s) where the native AeroPoint runs" % (str(e)[-90:],)])
    if not np.all(np.isfinite(np.asarray(nat.get_val("aero_point_0.CL"), dtype=float))):
        return None, "the native reference model does not give finite coefficients at the replay point"
    for s in ss:
        n = s["name"]
        for q in ("CL", "CD"):
            a = float(prob.get_val("aero_point_0.%s.%s" % (n, q))[0])
            b = float(nat.get_val("aero_point_0.%s_perf.%s" % (n, q))[0])
            if not np.isfinite(a) or model.differs(a, b, 1e-8):
                bad.append("%s %s: MPhys %.9g, native %.9g" % (n, q, a, b))
    for q in ("CL", "CD", "CM"):
        a = np.asarray(prob.get_val("aero_point_0.%s" % q), dtype=float).ravel()
        b = np.asarray(nat.get_val("aero_point_0.%s" % q), dtype=float).ravel()
        if not np.all(np.isfinite(a)) or np.abs(a - b).max() > 1e-8 * max(1.0, np.abs(b).max()):
            bad.append("total %s: MPhys %s, native %s" % (q, a, b))
    return bool(bad), "; ".join(bad[:4]) or "MPhys scenario and native AeroPoint agree on all coefficients"


class _Range:
    """np.arange(n) + k with symbolic n, k: the half-open index range [start, start + length)"""

    def __init__(self, start, length):
        self.start, self.length = S(start), S(length)

    def __add__(self, k):
        return _Range(self.start + S(k), self.length)

    __radd__ = __add__

    def reshape(self, *shape):
        self.shape = shape
        return self


def index_bookkeeping(rep, tier, timeout):
    """get_src_indices / get_node_indices / get_number_of_nodes executed with *symbolic* mesh sizes: for every number of
    chordwise and spanwise nodes per surface the index ranges are contiguous, start at 0, have the surface's own size and
    the coordinate ranges are three times the node ranges (so the maps are a partition = inverse permutations and agree
    with the node numbering handed to MPhys)."""
    import openaerostruct.mphys.utils as mu

    rep.encode(mu.get_src_indices, mu.get_node_indices, mu.get_number_of_nodes)
    nsurf = 3 if tier == "quick" else 5

    class NP:
        def __getattr__(self, n):
            return getattr(np, n)

        @staticmethod
        def arange(n):
            return _Range(ZERO, n)

    from symoas.sym import ge

    nxs, nys = symarray("nx", (nsurf,)), symarray("ny", (nsurf,))
    assume = [ge(v_, 2) for v_ in list(nxs) + list(nys)]

    class M:
        def __init__(self, nx, ny):
            self.shape = (nx, ny, 3)
            self.size = nx * ny * 3

    surfaces = [{"name": "s%d" % k, "mesh": M(nxs[k], nys[k])} for k in range(nsurf)]
    saved = mu.np
    mu.np = NP()
    try:
        src = mu.get_src_indices(surfaces)
        nod = mu.get_node_indices(surfaces)
    finally:
        mu.np = saved
    obs = []
    cum = ZERO
    for k in range(nsurf):
        n = "s%d" % k
        cnt = nxs[k] * nys[k]
        fam = {"family": "flattened-vector index ranges are contiguous, cumulative and three per node, for all mesh sizes", "k": k}
        obs.append(oblig.Ob("src start %s" % n, lhs=src[n].start, rhs=3 * cum, assume=assume, meta=fam))
        obs.append(oblig.Ob("src length %s" % n, lhs=src[n].length, rhs=3 * cnt, assume=assume, meta=fam))
        obs.append(oblig.Ob("node start %s" % n, lhs=nod[n].start, rhs=cum, assume=assume, meta=fam))
        obs.append(oblig.Ob("node length %s" % n, lhs=nod[n].length, rhs=cnt, assume=assume, meta=fam))
        obs.append(oblig.Ob("src shape %s" % n, cond=__import__("symoas.sym", fromlist=["ne"]).ne(S(int(tuple(src[n].shape) == (nxs[k], nys[k], 3) or all(a is b or a == b for a, b in zip(src[n].shape, (nxs[k], nys[k], 3))))), 1), assume=assume, meta=fam))
        cum = cum + cnt

    def rp(ob, env):
        # concrete meshes of the witness sizes through the real functions
        sizes = [(2 + k, 2 + (k * 2) % 3) for k in range(nsurf)]
        real = [{"name": "s%d" % k, "mesh": np.zeros((a, b, 3))} for k, (a, b) in enumerate(sizes)]
        si, ni = mu.get_src_indices(real), mu.get_node_indices(real)
        allidx = np.concatenate([si[s["name"]].ravel() for s in real])
        tot = sum(a * b * 3 for a, b in sizes)
        bad = []
        if not np.array_equal(np.sort(allidx), np.arange(tot)):
            bad.append("coordinate index ranges of surfaces sized %s are not a partition of 0..%d" % (sizes, tot - 1))
        for s in real:
            if not np.array_equal(si[s["name"]][..., 0], 3 * ni[s["name"]]):
                bad.append("coordinate indices of %s are not three times its node numbers" % s["name"])
        return bool(bad), "; ".join(bad[:3]) or "index maps are a partition for sizes %s" % (sizes,)

    run_obligations(rep, "MPhys index bookkeeping, %d surfaces, symbolic sizes" % nsurf, obs, timeout, replay=rp,
                    family=lambda ob: "MPhys: " + ob.meta["family"], cut_threshold=0)
