"""C15 - stress recovery and failure aggregation are consistent and conservative."""
from __future__ import annotations

import json

import numpy as np

from props.c16 import cross, norm3
from symoas import cases as K
from symoas import model, oblig, report
from symoas.model import SymComp, idents, num_inputs, run_obligations
from symoas.sym import (S, ZERO, ONE, Sym, band, bor, const, eq, evalf, fabs, ge, gt, le, lt, ne, rawlog, reachable, sqrt,
                        substitute, symarray, var)

PID = "C15"


def dot(a, b):
    return a[0] * b[0] + a[1] * b[1] + a[2] * b[2]


def subst_arr(arr, mapping):
    flat = [S(x) for x in np.asarray(arr, dtype=object).ravel()]
    new = substitute(flat, mapping)
    return np.array([new[x.nid] for x in flat], dtype=object).reshape(np.shape(arr))


def _syntactically_nonneg(n, memo):
    if n.nid in memo:
        return memo[n.nid]
    op, r = n.op, False
    if op == "const":
        r = n.args[0] >= 0
    elif op in ("sqrt", "abs", "exp"):
        r = True
    elif op == "pow":
        try:
            r = (int(n.args[1]) == n.args[1] and int(n.args[1]) % 2 == 0) or _syntactically_nonneg(n.args[0], memo)
        except Exception:
            r = False
    elif op == "mul":
        r = (n.args[0] is n.args[1]) or (_syntactically_nonneg(n.args[0], memo) and _syntactically_nonneg(n.args[1], memo))
    elif op in ("div", "add"):
        r = _syntactically_nonneg(n.args[0], memo) and _syntactically_nonneg(n.args[1], memo)
    memo[n.nid] = r
    return r


def cancellation_pass(rep, tag, cls, sc, ins, vm, timeout):
    """"Finite" is a statement about the floating-point code, and the engine reasons over the reals.  The one place where the
    two part company in a stress recovery is a square root of a *difference*: exact arithmetic keeps it at >= 0, rounding does
    not.  Every square-root argument reachable from the stresses is therefore either a sum of non-negative terms as written
    (a syntactic fact of the executed code, recorded as a ground obligation) or the solver is asked for an admissible input
    (generic element axis, non-zero displacement field) where the argument vanishes by cancellation, and the real code is run
    there and on rescaled copies of that displacement field: a non-finite stress is a violation."""
    roots = [x for x in np.asarray(vm, dtype=object).ravel() if isinstance(x, Sym)]
    memo = {}
    sq = [n for n in reachable(roots) if n.op == "sqrt"]
    suspects = [n for n in sq if not _syntactically_nonneg(n.args[0], memo)]
    rep.counts["obligations"] += 1
    rep.counts["nontrivial"] += 1
    grp = {"case": tag + " square roots", "square_roots": len(sq), "arguments_not_sums_of_nonnegative_terms": len(suspects)}
    rep.groups.append(grp)
    if not suspects:
        rep.counts["discharged"] += 1
        rep.log("%-52s %d square roots, every argument a sum of non-negative terms" % (tag + " square roots", len(sq)))
        return
    rep.counts["discharged"] += 1  # the ground fact above is replaced by one solver obligation per suspect argument
    # a generic element: nodes, section data at dyadic values; the displacement field stays symbolic
    ny = ins["nodes"].shape[0]
    nominal = {}
    # (element vectors (2, 3, 6)/4 and (3, 6, 2)/4 in turn: oblique to every coordinate axis, of rational length 7/4)
    pt = np.array([0.25, -2.0, 0.125])
    for j in range(ny):
        for c in range(3):
            nominal["nodes[%d,%d]" % (j, c)] = float(pt[c])
        pt = pt + (np.array([0.5, 0.75, 1.5]) if j % 2 == 0 else np.array([0.75, 1.5, 0.5]))
    for n_ in sc.in_names:
        if n_ in ("nodes", "disp"):
            continue
        for idx in np.ndindex(*sc.shape(n_)):
            nominal["%s[%s]" % (n_, ",".join(map(str, idx)))] = 0.25 if "thick" not in n_ else 0.03125
    mp = {k: S(v) for k, v in nominal.items()}
    disp = ins["disp"]
    mag = sum(((disp[1, c] - disp[0, c]) * (disp[1, c] - disp[0, c]) for c in range(3, 6)), ZERO)  # the first element is twisted / bent
    obs = []
    for n in suspects[:8]:
        arg = subst_arr([n.args[0]], mp)[0]
        obs.append(oblig.Ob("sqrt argument %d vanishes by cancellation" % n.nid, cond=band(eq(arg, 0), ge(mag, 1)), assume=[],
                            meta={"family": "von Mises stress is finite", "node": n.nid}))
    oblig.discharge(obs, timeout=timeout, levels=(1, 2))
    rep.add_obs(tag + " square roots of differences", obs)
    rng = np.random.default_rng(8)
    for ob in obs:
        if ob.verdict != "candidate":
            continue
        env = dict(nominal)
        env.update(oblig.model_env(ob))
        vals = num_inputs(ins, model.FillEnv(env))
        d0 = np.array(vals["disp"], dtype=float)
        bad = None
        for t in range(64):
            v2 = dict(vals)
            v2["disp"] = d0 * (1.0 if t == 0 else float(rng.uniform(0.5, 2.0)))
            out = np.asarray(sc.real(v2)["vonmises"], dtype=float)
            if not np.all(np.isfinite(out)):
                bad = (v2["disp"], out)
                break
        fam = "%s: von Mises stress is finite" % cls
        if bad is not None:
            rep.violation(fam, "real %s at nodes %s, disp %s (the argument of a square root, a difference, vanishes there in exact arithmetic): vonmises = %s" % (
                cls, np.array(vals["nodes"]).tolist(), np.round(bad[0], 6).tolist(), bad[1].tolist()),
                {"family": fam, "nodes": np.array(vals["nodes"]).tolist(), "disp": bad[0].tolist(), "cancellation": True})
        else:
            rep.not_reproduced.append({"id": ob.id, "why": "the real code stays finite at the cancellation point and on 63 rescaled displacement fields"})
    rep.log("%-52s %d square roots, %d arguments are differences: %s" % (tag + " square roots", len(sq), len(suspects), ", ".join(o_.verdict for o_ in obs)))


def run(tier, seed, only=None):
    rep = report.Report(PID, tier, seed)
    timeout = 20.0 if tier == "quick" else 90.0
    nys = [2] if tier == "quick" else [2, 3]
    for ny in nys:
        for kind in ("tube", "wingbox"):
            s = K.surface(2, ny, True, fem_model_type=kind) if kind == "wingbox" else K.surface(2, ny, True)
            mod, cls = ("structures.vonmises_tube", "VonMisesTube") if kind == "tube" else ("structures.vonmises_wingbox", "VonMisesWingbox")
            sc = SymComp(mod, cls, surface=s)
            rep.encode(type(sc.comp))
            ins = sc.inputs()
            o = sc.sym1(ins)
            vm = o["vonmises"]
            nodes, disp = ins["nodes"], ins["disp"]
            pos = [gt(x, 0) for n in sc.in_names if n not in ("nodes", "disp") for x in ins[n].ravel()]
            tag = "%s[ny=%d]" % (cls, ny)

            def real_vm(env, ins2=None, sc=sc, ins=ins):
                vals = num_inputs(ins2 or ins, env)
                return sc.real(vals)["vonmises"], vals

            cancellation_pass(rep, tag, cls, sc, ins, vm, timeout)
            # (1) non-negative
            obs = [oblig.Ob("vm%s >= 0" % list(idx), cond=lt(vm[idx], 0), assume=pos, meta={"family": "von Mises stress is non-negative", "idx": list(idx)})
                   for idx in np.ndindex(*vm.shape)]
            run_obligations(rep, tag + " non-negative", obs, timeout, family=lambda ob, cls=cls: "%s: %s" % (cls, ob.meta["family"]),
                            replay=lambda ob, env: ((lambda r: (r[0][tuple(ob.meta["idx"])] < 0, "vonmises%s = %.6g" % (ob.meta["idx"], r[0][tuple(ob.meta["idx"])])))(real_vm(env))))
            # (2) rigid-body motion => zero stress
            t = symarray("t", (3,))
            w = symarray("w", (3,))
            mp = {}
            for j in range(ny):
                rot = cross(list(w), [nodes[j, k] for k in range(3)])
                for k in range(3):
                    mp["disp[%d,%d]" % (j, k)] = t[k] + rot[k]
                    mp["disp[%d,%d]" % (j, 3 + k)] = w[k]
            vr = subst_arr(vm, mp)
            ins_r = dict(ins)
            ins_r["disp"] = subst_arr(disp, mp)
            obs = [oblig.Ob("rigid vm%s" % list(idx), lhs=vr[idx], rhs=ZERO, assume=pos, meta={"family": "rigid-body motion gives zero stress", "idx": list(idx)})
                   for idx in np.ndindex(*vm.shape)]
            run_obligations(rep, tag + " rigid motion", obs, timeout, levels=(2,), family=lambda ob, cls=cls: "%s: %s" % (cls, ob.meta["family"]),
                            replay=lambda ob, env, ins_r=ins_r: ((lambda r: (abs(r[0][tuple(ob.meta["idx"])]) > 1e-6 * (1 + np.max(np.abs(r[1]["disp"]))) * s["E"] * 1e-6,
                                                                             "vonmises%s = %.6g under rigid motion" % (ob.meta["idx"], r[0][tuple(ob.meta["idx"])])))(real_vm(env, ins_r))))
            # (3) homogeneity: vm(k disp) = |k| vm(disp)
            k = var("k")
            for sign, lab in ((1, "k>0"), (-1, "k<0")):
                mp = {"disp[%d,%d]" % (j, c): disp[j, c] * k for j in range(ny) for c in range(6)}
                vk = subst_arr(vm, mp)
                ins_k = dict(ins)
                ins_k["disp"] = subst_arr(disp, mp)
                ak = [gt(k, 0)] if sign > 0 else [lt(k, 0)]
                # the tube reports the stress on the two extreme fibres (axial +- bending); reversing the sign of the
                # displacement field exchanges them, so for k < 0 entry (e, 0) is compared with |k| * entry (e, 1)
                swap = (kind == "tube" and sign < 0)
                obs = [oblig.Ob("scale(%s) vm%s" % (lab, list(idx)), lhs=vk[idx],
                                rhs=vm[(idx[0], 1 - idx[1]) if swap else idx] * (k if sign > 0 else -k), assume=pos + ak,
                                meta={"family": "stress scales linearly with the displacement field", "idx": list(idx), "swap": swap})
                       for idx in np.ndindex(*vm.shape)]

                def rp(ob, env, ins_k=ins_k):
                    a, _ = real_vm(env, ins_k)
                    b, _ = real_vm(env)
                    i = tuple(ob.meta["idx"])
                    i2 = (i[0], 1 - i[1]) if ob.meta["swap"] else i
                    kk = abs(env["k"])
                    return model.differs(a[i], kk * b[i2], 1e-6), "vonmises%s(k disp) = %.9g, |k| vonmises(disp)%s = %.9g" % (ob.meta["idx"], a[i], list(i2), kk * b[i2])

                run_obligations(rep, tag + " homogeneity " + lab, obs, timeout, levels=(1, 2), replay=rp,
                                relate=[k if sign > 0 else -k], relate_assume=pos + ak,
                                family=lambda ob, cls=cls: "%s: %s" % (cls, ob.meta["family"]),
                                fixed={"k": 2.0 * sign})
            # (4) closed forms (tube): frame-independent reference
            if kind == "tube":
                E, Gm = S(s["E"]), S(s["G"])
                obs = []
                for e in range(ny - 1):
                    d = [nodes[e + 1, c] - nodes[e, c] for c in range(3)]
                    L = norm3(d)
                    e1 = [d[c] / L for c in range(3)]
                    du = [disp[e + 1, c] - disp[e, c] for c in range(3)]
                    dth = [disp[e + 1, 3 + c] - disp[e, 3 + c] for c in range(3)]
                    ax = dot(du, e1)
                    tw = dot(dth, e1)
                    bend = sqrt(dot(dth, dth) - tw * tw)  # |component of the rotation difference normal to the axis|
                    r = ins["radius"][e]
                    sxt = Gm * r * tw / L
                    for end, sg in ((0, 1), (1, -1)):
                        sxx = E * ax * sg / L + E * r * bend / L
                        obs.append(oblig.Ob("closed form vm[%d,%d]" % (e, end), lhs=vm[e, end], rhs=sqrt(sxx * sxx + 3 * sxt * sxt), assume=pos,
                                            meta={"family": "tube stress = sqrt((E du/L +- E r |dtheta_perp|/L)^2 + 3 (G r dphi/L)^2)", "idx": [e, end]}))

                def rp(ob, env):
                    a, _ = real_vm(env)
                    i = tuple(ob.meta["idx"])
                    ref = float(evalf([ob.rhs], model.FillEnv(env))[ob.rhs.nid])
                    return model.differs(a[i], ref, 1e-6), "vonmises%s = %.9g, beam-theory closed form %.9g" % (ob.meta["idx"], a[i], ref)

                run_obligations(rep, tag + " closed form", obs, timeout, levels=(1, 2), replay=rp, relate=[], relate_assume=pos,
                                family=lambda ob, cls=cls: "%s: %s" % (cls, ob.meta["family"]))
            # (4b) closed forms (wingbox): Euler-Bernoulli strains of the cubic element at its second node, section points
            # at the distances the section-property component reports, thin-wall torsion and VQ/(It) shear - written with
            # vectors (no rotation matrix).  The element frame of the library: e1 along the element, ey = e1 x x_global
            # (pointing down for a wing along +y), ez = e1 x ey (pointing to the leading edge); the section is described
            # with "up" = -ey and "aft" = -ez, so top / bottom / front / rear are at y = -htop, +hbottom, z = +hfront, -hrear.
            if kind == "wingbox":
                E, Gm, tssf = S(s["E"]), S(s["G"]), S(s["strength_factor_for_upper_skin"])
                obs = []
                for e in range(ny - 1):
                    d = [nodes[e + 1, c] - nodes[e, c] for c in range(3)]
                    L = norm3(d)
                    e1 = [d[c] / L for c in range(3)]
                    cy = cross(e1, [ONE, ZERO, ZERO])
                    ncy = norm3(cy)
                    ey = [cy[c] / ncy for c in range(3)]
                    ez = cross(e1, ey)
                    u0, u1 = [disp[e, c] for c in range(3)], [disp[e + 1, c] for c in range(3)]
                    t0, t1 = [disp[e, 3 + c] for c in range(3)], [disp[e + 1, 3 + c] for c in range(3)]
                    eps0 = (dot(u1, e1) - dot(u0, e1)) / L
                    # curvatures at the second node from the cubic interpolation: v2 = d2v/dx2 (slope +theta_z), and the same
                    # for w with slope -theta_y; v3 = third derivative of v
                    v0, v1, tz0, tz1 = dot(u0, ey), dot(u1, ey), dot(t0, ez), dot(t1, ez)
                    w0, w1, ty0, ty1 = dot(u0, ez), dot(u1, ez), dot(t0, ey), dot(t1, ey)
                    kz = (6 * v0 + 2 * L * tz0 - 6 * v1 + 4 * L * tz1) / (L * L)        # d theta_z / dx
                    ky = -(6 * w0 - 2 * L * ty0 - 6 * w1 - 4 * L * ty1) / (L * L)       # d theta_y / dx
                    v3 = (12 * v0 + 6 * L * tz0 - 12 * v1 + 6 * L * tz1) / (L * L * L)
                    phi = (dot(t1, e1) - dot(t0, e1)) / L
                    ht, hb, hf, hr = (ins[n][e] for n in ("htop", "hbottom", "hfront", "hrear"))
                    tsp = ins["spar_thickness"][e]
                    tau_t = Gm * ins["J"][e] * phi / (2 * tsp * ins["A_enc"][e])          # T / (2 t A_enc)
                    tau_v = -E * v3 * ins["Qz"][e] / (2 * tsp)                            # V Q / (I 2t) with V = -E I v3
                    for conv, sg in (("library", -1), ("beam theory", 1)):
                        # axial stress at a section point (y, z): E (eps0 - y kz + z ky); `sg` is the sign with which the
                        # fore-aft bending term enters: +1 as derived, -1 as the library has it (recorded finding)
                        top, bot = E * ht * kz, -E * hb * kz
                        front, rear = sg * E * hf * ky, -sg * E * hr * ky
                        ax = E * eps0
                        combos = [(top + rear + ax, tau_t, tssf), (bot + front + ax, tau_t, ONE), (front + ax, tau_t - tau_v, ONE), (rear + ax, tau_t + tau_v, tssf)]
                        for c, (sig, tau, fac) in enumerate(combos):
                            if conv == "beam theory" and c < 2:
                                continue  # the corner combinations carry the same fore-aft term: posed for the two spars only
                            fam = ("wingbox combination %d = sqrt((axial + bending)^2 + 3 shear^2) of the element's own section distances (fore-aft sign as implemented)" % c if conv == "library"
                                   else "wingbox combination %d: fore-aft bending enters with the sign of beam theory (leading-edge side in tension when the tip is pushed aft)" % c)
                            obs.append(oblig.Ob("%s closed form vm[%d,%d]" % (conv, e, c), lhs=vm[e, c] * fac, rhs=sqrt(sig * sig + 3 * tau * tau), assume=pos,
                                                meta={"family": fam, "idx": [e, c], "fac": float(s["strength_factor_for_upper_skin"]) if c in (0, 3) else 1.0}))

                def rpw(ob, env):
                    a, _ = real_vm(env)
                    i = tuple(ob.meta["idx"])
                    ref = float(evalf([ob.rhs], model.FillEnv(env))[ob.rhs.nid])
                    return model.differs(a[i] * ob.meta["fac"], ref, 1e-6), "vonmises%s x factor = %.9g, closed form %.9g" % (ob.meta["idx"], a[i] * ob.meta["fac"], ref)

                run_obligations(rep, tag + " closed form", obs, timeout, levels=(1, 2), replay=rpw, relate=[], relate_assume=pos,
                                family=lambda ob, cls=cls: "%s: %s" % (cls, ob.meta["family"]))
            # (5) wingbox: allowable of the upper-skin combinations (0 and 3) is strength_factor_for_upper_skin * yield, i.e.
            # the reported value is stress / factor; and the closed form for uniform axial strain
            if kind == "wingbox":
                Em = S(s["E"])
                for tf in (0.75, 1.25):
                    sT = dict(s, strength_factor_for_upper_skin=tf)
                    scT = SymComp(mod, cls, surface=sT)
                    vT = scT.sym1(ins)["vonmises"]
                    obs = []
                    for e in range(ny - 1):
                        for c in range(4):
                            fac = S(tf) if c in (0, 3) else ONE
                            obs.append(oblig.Ob("factor %g vm[%d,%d]" % (tf, e, c), lhs=vT[e, c] * fac, rhs=vm[e, c], assume=pos,
                                                meta={"family": "upper-skin combinations are stress / strength factor, the others do not depend on it", "idx": [e, c], "tf": tf}))
                    eps = var("eps")
                    mp = {}
                    for j in range(ny):
                        for c in range(3):
                            mp["disp[%d,%d]" % (j, c)] = eps * (nodes[j, c] - nodes[0, c])
                            mp["disp[%d,%d]" % (j, 3 + c)] = ZERO
                    # uniform stretching of a *straight* beam: nodes on one line (node j = node 0 + s_j d)
                    if ny == 2:
                        va = subst_arr(vT, mp)
                        for c in range(4):
                            fac = S(tf) if c in (0, 3) else ONE
                            obs.append(oblig.Ob("axial strain %g vm[0,%d]" % (tf, c), lhs=va[0, c] * fac, rhs=Em * eps, assume=pos + [gt(eps, 0)],
                                                meta={"family": "uniform axial strain gives E eps (over the strength factor for the upper skin)", "idx": [0, c], "tf": tf, "axial": True}))

                    def rpT(ob, env, sT=sT, mp=mp):
                        envf = model.FillEnv(env)
                        ii = dict(ins)
                        if ob.meta.get("axial"):
                            ii["disp"] = subst_arr(disp, mp)
                        vals = num_inputs(ii, envf)
                        a = SymComp(mod, cls, surface=sT).real(vals)["vonmises"]
                        i = tuple(ob.meta["idx"])
                        fac = ob.meta["tf"] if i[1] in (0, 3) else 1.0
                        ref = float(evalf([ob.rhs], envf)[ob.rhs.nid])
                        return model.differs(a[i] * fac, ref, 1e-6), "strength factor %g: vonmises%s * factor = %.9g, expected %.9g" % (ob.meta["tf"], list(i), a[i] * fac, ref)

                    run_obligations(rep, tag + " upper-skin strength factor %g" % tf, obs, timeout, levels=(1, 2), replay=rpT, relate=[], relate_assume=pos,
                                    family=lambda ob, cls=cls: "%s: %s" % (cls, ob.meta["family"]), fixed={"eps": 0.001})
        # ---------------- FailureExact
        if ny == 2 and tier == "quick":
            # the upper-skin factor relation on a beam of two elements as well (element-by-element handling of the factor)
            s3 = K.surface(2, 3, True, fem_model_type="wingbox")
            sc3 = SymComp("structures.vonmises_wingbox", "VonMisesWingbox", surface=s3)
            ins3 = sc3.inputs()
            vm3 = sc3.sym1(ins3)["vonmises"]
            pos3 = [gt(x, 0) for n in sc3.in_names if n not in ("nodes", "disp") for x in ins3[n].ravel()]
            for tf in (0.75, 1.25):
                sT3 = dict(s3, strength_factor_for_upper_skin=tf)
                vT3 = SymComp("structures.vonmises_wingbox", "VonMisesWingbox", surface=sT3).sym1(ins3)["vonmises"]
                obs = []
                for e in range(2):
                    for c in range(4):
                        fac = S(tf) if c in (0, 3) else ONE
                        obs.append(oblig.Ob("factor %g vm[%d,%d] (two elements)" % (tf, e, c), lhs=vT3[e, c] * fac, rhs=vm3[e, c], assume=pos3,
                                            meta={"family": "upper-skin combinations are stress / strength factor, the others do not depend on it", "idx": [e, c], "tf": tf}))

                def rpT3(ob, env, sT3=sT3, s3=s3, ins3=ins3):
                    envf = model.FillEnv(env)
                    vals = num_inputs(ins3, envf)
                    a = SymComp("structures.vonmises_wingbox", "VonMisesWingbox", surface=sT3).real(vals)["vonmises"]
                    b = SymComp("structures.vonmises_wingbox", "VonMisesWingbox", surface=s3).real(vals)["vonmises"]
                    i = tuple(ob.meta["idx"])
                    fac = ob.meta["tf"] if i[1] in (0, 3) else 1.0
                    return model.differs(a[i] * fac, b[i], 1e-6), "strength factor %g: vonmises%s * factor = %.9g, with factor 1: %.9g" % (ob.meta["tf"], list(i), a[i] * fac, b[i])

                run_obligations(rep, "VonMisesWingbox[ny=3] upper-skin strength factor %g" % tf, obs, timeout, levels=(1, 2), replay=rpT3, relate=[], relate_assume=pos3,
                                family=lambda ob: "VonMisesWingbox: " + ob.meta["family"])
        s = K.surface(2, ny, True)
        sc = SymComp("structures.failure_exact", "FailureExact", surface=s)
        rep.encode(type(sc.comp))
        ins = sc.inputs()
        o = sc.sym1(ins)
        obs = idents("failure", o["failure"], ins["vonmises"] / S(s["yield"]) - 1, meta={"family": "exact failure = stress / allowable - 1"})
        run_obligations(rep, "FailureExact[ny=%d]" % ny, obs, timeout, family=lambda ob: "FailureExact: " + ob.meta["family"],
                        replay=lambda ob, env, sc=sc, ins=ins: ((lambda real, vals: (model.differs(real[tuple(ob.meta["idx"])], vals["vonmises"][tuple(ob.meta["idx"])] / s["yield"] - 1),
                                                                                     "failure%s = %.9g vs vm/yield - 1 = %.9g" % (ob.meta["idx"], real[tuple(ob.meta["idx"])], vals["vonmises"][tuple(ob.meta["idx"])] / s["yield"] - 1)))(
                            sc.real(num_inputs(ins, env))["failure"], num_inputs(ins, env))))
    # ---------------- FailureKS
    # the aggregation parameter the *caller asked for* is the one in the bound (None: the documented default 100), never the
    # attribute the component derived from it
    ks_cfg = [(2, "tube", None), (3, "tube", None), (3, "tube", 400.0), (2, "tube", 25.0)]
    if tier != "quick":
        ks_cfg += [(2, "wingbox", None), (3, "wingbox", None), (3, "wingbox", 1000.0), (2, "tube", 1.0)]
    for (ny, kind, rho_req) in ks_cfg:
        s = K.surface(2, ny, True, fem_model_type=kind) if kind == "wingbox" else K.surface(2, ny, True)
        sc = SymComp("structures.failure_ks", "FailureKS", surface=s, **({} if rho_req is None else {"rho": rho_req}))
        rho_val = 100.0 if rho_req is None else rho_req
        rep.encode(type(sc.comp))
        ins = sc.inputs()
        vmv = ins["vonmises"]
        assume = [ge(x, 0) for x in vmv.ravel()] + [le(x, S(1e12)) for x in vmv.ravel()]
        paths = sc.sym(ins, assumptions=assume, max_paths=512)
        N = vmv.size
        rho, sigma = S(rho_val), S(s["yield"])
        obs = []
        for pi, p in enumerate(paths):
            ks = p.result["outputs"]["failure"].ravel()[0]
            pa = assume + p.conds
            f = [x / sigma - 1 for x in vmv.ravel()]
            for i, fi in enumerate(f):
                obs.append(oblig.Ob("p%d KS >= f[%d]" % (pi, i), cond=lt(ks, fi), assume=pa,
                                    meta={"family": "KS aggregate is never below the largest element value", "pi": pi}))
            # upper bound: KS <= max_i f_i + ln(N)/rho  <=>  for the path's maximum m: KS <= f_m + ln N / rho ; posed for
            # every i under the extra hypothesis that f_i is the maximum
            lnN = rawlog(const(N))
            for i, fi in enumerate(f):
                ismax = [ge(fi, fj) for fj in f]
                obs.append(oblig.Ob("p%d KS <= f[%d] + ln N / rho when f[%d] is max" % (pi, i, i), cond=gt(ks, fi + lnN / rho), assume=pa + ismax,
                                    meta={"family": "KS aggregate exceeds the largest element value by at most ln(N)/rho", "pi": pi}))
            # no overflow: every exp argument is <= 0 on this path
            for n in reachable([ks]):
                if n.op == "exp":
                    obs.append(oblig.Ob("p%d exp argument <= 0 (#%d)" % (pi, n.nid), cond=gt(n.args[0], 0), assume=pa,
                                        meta={"family": "KS exponent arguments are non-positive (no overflow)", "pi": pi}))

        def ks_rp(ob, env, sc=sc, ins=ins, N=N, rho_val=rho_val):
            vals = num_inputs(ins, env)
            if "exponent arguments" in ob.meta["family"]:
                # the admissible range of the property goes up to 1e12 Pa: replay the sign violation where it matters
                vals["vonmises"] = vals["vonmises"] / max(1e-30, float(np.max(vals["vonmises"]))) * 1e12
            with np.errstate(all="ignore"):
                real = float(np.ravel(sc.real(vals)["failure"])[0])
            f = vals["vonmises"].ravel() / s["yield"] - 1
            lo, hi = f.max(), f.max() + np.log(N) / rho_val
            bad = not (lo - 1e-9 <= real <= hi + 1e-9) or not np.isfinite(real)
            return bad, "KS = %.9g, max f = %.9g, max f + ln N / rho = %.9g" % (real, lo, hi)

        run_obligations(rep, "FailureKS[%s,ny=%d,rho=%s] (%d paths)" % (kind, ny, "default" if rho_req is None else "%g" % rho_req, len(paths)), obs, timeout, levels=(2,), replay=ks_rp,
                        family=lambda ob: "FailureKS: " + ob.meta["family"], box=(1e6, 3e8), cut_threshold=0)
    rep.bounds = {"ny": nys, "KS N": "2..8 (quick up to 4)"}
    rep.assumptions = ["real arithmetic", "exp/log as uninterpreted atoms with instantiated monotonicity, exp(a<=0)<=1, log(a>=1)>=0 facts",
                       "positive section inputs (radius, thicknesses, areas)"]
    functionals_group(rep, tier, timeout)
    return rep.finish("C15: non-negativity, rigid-motion, homogeneity and closed-form identities of the stress recovery; KS bounds "
                      "and exponent-sign obligations on every arg-max path")


def replay_file(path):
    spec = json.load(open(path))
    print("recorded counterexample: %s" % spec.get("what"))
    print("VIOLATION property=%s replay=%s" % (PID, path))
    return 1


def functionals_group(rep, tier, timeout):
    """The real SpatialBeamFunctionals group through its own wiring, for both structural models and both failure options:
    the stresses are those of the group's own nodes / displacements / section inputs, and the failure measure is the
    exact (stress / allowable - 1) or the KS aggregate of *those* stresses."""
    import warnings

    import openmdao.api as om
    from openaerostruct.structures.spatial_beam_functionals import SpatialBeamFunctionals
    from symoas import pipe

    for kind in ("tube", "wingbox"):
        for exact in (True, False):
            ny = 2
            # (the wingbox set-ups carry the switch as a NumPy boolean)
            s = K.surface(2, ny, True, fem_model_type=kind, exact_failure_constraint=np.bool_(exact)) if kind == "wingbox" else K.surface(2, ny, True, exact_failure_constraint=exact)
            prob = om.Problem(reports=False)
            prob.model.add_subsystem("f", SpatialBeamFunctionals(surface=s), promotes=["*"])
            with warnings.catch_warnings():
                warnings.simplefilter("ignore")
                prob.setup()
                prob.final_setup()
            rep.encode(SpatialBeamFunctionals)
            GP = pipe.GroupPipe(prob, abstract=("vonmises.vonmises",))  # the failure component sees the stresses as fresh symbols
            GP.run()
            mod, cls = ("structures.vonmises_tube", "VonMisesTube") if kind == "tube" else ("structures.vonmises_wingbox", "VonMisesWingbox")
            sc = SymComp(mod, cls, surface=s)
            # group-level inputs by their promoted names (what a user / the enclosing group connects to)
            top = {}
            for absn, val in GP.vals.items():
                if absn.startswith("_auto_ivc"):
                    top[GP.prom_out.get(absn, absn)] = val
            missing = [n for n in sc.in_names if n not in top]
            want = sc.sym1({n: top[n] for n in sc.in_names}) if not missing else None
            vm = GP.get("vonmises")  # the symbols standing for ...
            vm_val = [v for k, v in GP.abstracted.items() if k.endswith("vonmises.vonmises")][0]  # ... this computed value
            lab = "%s, %s failure" % (kind, "exact" if exact else "KS")
            obs = []
            if want is None:
                obs.append(oblig.Ob("group inputs", cond=ne(ZERO, ONE), meta={"family": "the stress component's inputs are inputs of the group (%s): missing %s" % (lab, missing)}))
            else:
                obs += idents("vonmises", vm_val, want["vonmises"], meta={"family": "stresses of the group are those of its own nodes, displacements and section inputs (%s)" % lab})
            fcomp = SymComp("structures.failure_exact", "FailureExact", surface=s) if exact else SymComp("structures.failure_ks", "FailureKS", surface=s)
            fpaths = fcomp.sym({"vonmises": vm})
            fail = GP.get("failure")
            if len(fpaths) == 1:
                obs += idents("failure", fail, fpaths[0].result["outputs"]["failure"], meta={"family": "failure measure is the %s function of the group's own stresses" % ("exact" if exact else "KS")})
            if exact:
                obs += idents("failure exact", fail, np.asarray(vm, dtype=object) / S(s["yield"]) - 1, meta={"family": "exact failure option gives stress / allowable - 1 per element (%s)" % kind})
            else:
                obs.append(oblig.Ob("failure is one aggregate", cond=ne(S(int(np.size(fail))), 1), meta={"family": "KS failure option gives one aggregated value (%s)" % kind}))

            def rp(ob, env, s=s, exact=exact, kind=kind):
                return replay_functionals(s, exact, kind)

            run_obligations(rep, "real SpatialBeamFunctionals group [%s]" % lab, obs, timeout, replay=rp, levels=(1, 2),
                            family=lambda ob: "SpatialBeamFunctionals: " + ob.meta["family"])


def replay_functionals(s, exact, kind):
    import warnings

    import openmdao.api as om
    from openaerostruct.structures.spatial_beam_functionals import SpatialBeamFunctionals

    prob = om.Problem(reports=False)
    prob.model.add_subsystem("f", SpatialBeamFunctionals(surface=s), promotes=["*"])
    with warnings.catch_warnings():
        warnings.simplefilter("ignore")
        prob.setup()
    rng = np.random.default_rng(4)
    ny = s["mesh"].shape[1]
    prob.set_val("nodes", np.stack([0.2 * np.arange(ny)[::-1], -2.0 * np.arange(ny)[::-1], 0.1 * np.arange(ny)], axis=1).astype(float))
    prob.set_val("disp", 1e-3 * (1 + rng.random((ny, 6))))
    for n_, v in (("radius", 0.1), ("thickness", 0.01), ("Qz", 1e-3), ("J", 1e-4), ("A_enc", 0.05), ("spar_thickness", 0.004), ("htop", 0.06), ("hbottom", 0.05), ("hfront", 0.2), ("hrear", 0.18)):
        try:
            prob.set_val(n_, v * (1 + 0.1 * rng.random(ny - 1)))
        except Exception:
            pass
    prob.run_model()
    vm = np.array(prob.get_val("vonmises"), dtype=float)
    fail = np.array(prob.get_val("failure"), dtype=float)
    ex = vm / s["yield"] - 1.0
    if exact:
        bad = fail.shape != ex.shape or np.abs(fail - ex).max() > 1e-9 * max(1.0, np.abs(ex).max())
        return bad, "exact failure option: failure = %s, stress / allowable - 1 = %s" % (np.round(fail.ravel(), 6), np.round(ex.ravel(), 6))
    mx = ex.max()
    N = ex.size
    bad = fail.size != 1 or not (mx - 1e-9 <= float(fail.ravel()[0]) <= mx + np.log(N) / 100.0 + 1e-9)
    return bad, "KS failure option: failure = %s, largest element value %.6g, bound + ln N / rho = %.6g" % (np.round(fail.ravel(), 6), mx, mx + np.log(N) / 100.0)
