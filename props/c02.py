"""C02 - coupled totals correct and identical in forward and reverse mode (reduced claim).

What is OpenAeroStruct's own responsibility and is decided here: the implicit components report dR/du equal to the
matrix they solve with, their solve_linear satisfies the forward / transposed system for that matrix (FEM reuses the
untransposed LU in reverse mode: valid because K is symmetric, which is proved), and the matrix-free MPhys products
are exact and mutually adjoint.  C01 (every analytic partial) is a premise.  OpenMDAO's chain rule and linear solvers
are trusted.
"""
from __future__ import annotations

import json

import numpy as np

from props import c10
from symoas import cases as K
from symoas import model, npproxy, oblig, report
from symoas.harness import JacStore, VecStore
from symoas.model import SymComp, idents, num_inputs, run_obligations
from symoas.npproxy import symbolic_numpy
from symoas.sym import S, ZERO, ONE, eq, ne, symarray, symify, var

PID = "C02"


def dense_from(runner, key, storage):
    return runner.dense_jac(key, storage)[0]


def implicit_solves(rep, tier, timeout):
    # ------------------------------------------------------------------ FEM
    for (cn, ny, symm) in ([("symL_ny2", 2, True), ("full_ny3", 3, False)] + ([("symL_ny3", 3, True)] if tier == "thorough" else [])):
        s = K.surface(2, ny, symm)
        ch = c10.Chain(s)
        ch.encode(rep)
        nodes = symarray("nodes", (ny, 3))
        A, Iy, Iz, J = (symarray(n, (ny - 1,)) for n in ("A", "Iy", "Iz", "J"))
        Kc, kt, kdata = ch.sym_K(nodes, A, Iy, Iz, J)
        n = 6 * ny + 6
        fem = ch.fem
        r = fem.runner
        u = symarray("disp_aug", (n,))
        f = symarray("forces", (n,))
        # linearize reports dR/du = the assembled K (same data, same rows/cols)
        with symbolic_numpy():
            jac = {k: np.array(np.broadcast_to(m["val"], (len(m["rows"]),)) if m["rows"] is not None else m["val"], dtype=object).copy()
                   for k, m in r.jinfo.items()}
            I = VecStore({"local_stiff_transformed": kt, "forces": f})
            O = VecStore({"disp_aug": u})
            R = VecStore({"disp_aug": np.empty(n, dtype=object)})
            fem.comp.apply_nonlinear(I, O, R)
            fem.comp.linearize(I, O, JacStore(r.jinfo, jac))
            Juu = dense_from(r, ("disp_aug", "disp_aug"), jac[("disp_aug", "disp_aug")])
        obs = []
        for i in range(n):
            for j in range(n):
                obs.append(oblig.Ob("dR/du[%d,%d] == K" % (i, j), lhs=S(Juu[i, j]), rhs=Kc[i, j], meta={"family": "FEM.linearize reports dR/du equal to the assembled stiffness matrix"}))
        run_obligations(rep, "FEM linearize == K [%s]" % cn, obs, timeout, family=lambda ob: "FEM: " + ob.meta["family"],
                        replay=lambda ob, env, s=s, ch=ch: replay_fem_residual(s, ch))
        # solve_linear: forward J du = dr, reverse J^T dr = du, with the LU contract stub; K symmetric is a *proved* hypothesis
        symK = [eq(Kc[i, j], Kc[j, i]) for i in range(n) for j in range(i + 1, n) if Kc[i, j] is not Kc[j, i]]
        for vec_size in (1,):
            for mode in ("fwd", "rev"):
                Ksym = symarray("K", (n, n))  # the contract is about an arbitrary matrix with the proved property
                for i in range(n):
                    for j in range(i):
                        Ksym[i, j] = Ksym[j, i]
                obs = []
                variants = [("symmetric K", Ksym)]
                if mode == "rev":  # reachability twin: with a non-symmetric matrix the reverse-mode contract must fail
                    variants.append(("twin: non-symmetric K must be refuted", symarray("Kn", (n, n))))
                for label, Km in variants:
                    npproxy.LU_LOG.clear()
                    with symbolic_numpy():
                        fem.comp._lup = npproxy._LU(Km)
                        d_out = VecStore({"disp_aug": symarray("d_out", (n,))})
                        d_res = VecStore({"disp_aug": symarray("d_res", (n,))})
                        pre_out, pre_res = d_out["disp_aug"].copy(), d_res["disp_aug"].copy()
                        fem.comp.solve_linear(d_out, d_res, mode)
                        fem.comp._lup = []
                    hyp = npproxy.lu_hypotheses()
                    twin = label.startswith("twin")
                    for i in range(n):
                        if mode == "fwd":  # K d_out = d_res (given)
                            lhs = sum((Km[i, j] * S(d_out["disp_aug"][j]) for j in range(n)), ZERO)
                            rhs = pre_res[i]
                        else:  # K^T d_res = d_out (given)
                            lhs = sum((Km[j, i] * S(d_res["disp_aug"][j]) for j in range(n)), ZERO)
                            rhs = pre_out[i]
                        obs.append(oblig.Ob("%s %s row %d" % (mode, label, i), lhs=lhs, rhs=rhs, assume=hyp,
                                            meta={"family": "FEM.solve_linear solves the %s system for the matrix linearize reports" % ("forward" if mode == "fwd" else "transposed"),
                                                  "twin": twin}))
                run_twin_aware(rep, "FEM solve_linear %s [%s]" % (mode, cn), obs, timeout, replay=lambda ob, env, s=s, ch=ch, mode=mode: replay_fem_solve(s, ch, mode))
        # FEM(vec_size > 1) cannot be set up at all (OpenMDAO rejects its declared sparsity: "Expected 36x36 but declared
        # at least 174x174"), so the vec_size loop of solve_linear is unreachable and is not explored.
        # symmetric K is a premise of the reverse mode: re-stated here (proved in C10 too)
        obs = [oblig.Ob("K[%d,%d] == K[%d,%d]" % (i, j, j, i), lhs=Kc[i, j], rhs=Kc[j, i], meta={"family": "stiffness matrix is symmetric (premise of reusing the untransposed LU in reverse mode)"})
               for i in range(n) for j in range(i + 1, n)]
        def rp_sym(ob, env, ch=ch, ny=ny):
            # the real chain on floats: assembled K against its transpose
            rng_ = np.random.default_rng(3)
            nd = np.stack([0.3 * np.arange(ny), -1.0 * np.arange(ny)[::-1], 0.1 * np.arange(ny)], axis=1).astype(float)
            Kn = np.asarray(ch.real_K(nd, *[v_ * (1.0 + rng_.random(ny - 1)) for v_ in (1e-3, 1e-6, 2e-6, 3e-6)]), dtype=float)
            d = float(np.abs(Kn - Kn.T).max())
            return d > 1e-9 * max(1.0, float(np.abs(Kn).max())), "max |K - K^T| = %.3g (max |K| = %.3g)" % (d, float(np.abs(Kn).max()))

        run_obligations(rep, "K symmetric [%s]" % cn, obs, timeout, family=lambda ob: "FEM: " + ob.meta["family"], replay=rp_sym)
    # ------------------------------------------------------------------ SolveMatrix
    for ss in ([[K.surface(2, 3, False)]] + ([[K.surface(2, 2, True), K.surface(2, 3, False, name="tail")]] if tier == "thorough" else [])):
        sm = SymComp("aerodynamics.solve_matrix", "SolveMatrix", surfaces=ss)
        rep.encode(type(sm.comp))
        n = sm.comp.system_size
        r = sm.runner
        mtx, rhs, g = symarray("mtx", (n, n)), symarray("rhs", (n,)), symarray("circulations", (n,))
        with symbolic_numpy():
            jac = {k: np.array(np.broadcast_to(m["val"], (len(m["rows"]),)) if m["rows"] is not None else m["val"], dtype=object).copy()
                   for k, m in r.jinfo.items()}
            sm.comp.linearize(VecStore({"mtx": mtx, "rhs": rhs}), VecStore({"circulations": g}), JacStore(r.jinfo, jac))
            Juu = dense_from(r, ("circulations", "circulations"), jac[("circulations", "circulations")])
            lu = sm.comp.lu
        obs = [oblig.Ob("dR/dGamma[%d,%d] == mtx" % (i, j), lhs=S(Juu[i, j]), rhs=mtx[i, j], meta={"family": "SolveMatrix.linearize reports dR/dGamma = AIC"}) for i in range(n) for j in range(n)]
        obs += [oblig.Ob("factorised matrix[%d,%d] == mtx" % (i, j), lhs=S(lu.a[i, j]), rhs=mtx[i, j], meta={"family": "SolveMatrix factorises the matrix it reports"}) for i in range(n) for j in range(n)]
        def smlin_rp(ob, env, ss=ss):
            import openmdao.api as om
            from openaerostruct.aerodynamics.solve_matrix import SolveMatrix

            prob = om.Problem(reports=False)
            prob.model.add_subsystem("sm", SolveMatrix(surfaces=ss), promotes=["*"])
            prob.setup()
            n_ = prob.model.sm.system_size
            rng = np.random.default_rng(12)
            M_ = rng.standard_normal((n_, n_)) + n_ * np.eye(n_)
            prob.set_val("mtx", M_)
            prob.set_val("rhs", rng.standard_normal(n_))
            prob.run_model()
            J = prob.check_partials(out_stream=None, compact_print=True, method="fd", step=1e-6)["sm"]
            key = [k for k in J if k[0].endswith("circulations") and k[1].endswith("circulations")][0]
            e1 = float(np.abs(np.asarray(J[key]["J_fwd"]) - M_).max())
            e2 = float(np.abs(M_.dot(np.array(prob.get_val("circulations"))) - np.array(prob.get_val("rhs"))).max())
            return max(e1, e2) > 1e-9, "real SolveMatrix: |dR/dGamma reported - mtx| = %.3g, |mtx Gamma - rhs| = %.3g" % (e1, e2)

        run_obligations(rep, "SolveMatrix linearize [n=%d]" % n, obs, timeout, family=lambda ob: "SolveMatrix: " + ob.meta["family"], replay=smlin_rp)
        for mode in ("fwd", "rev"):
            npproxy.LU_LOG.clear()
            with symbolic_numpy():
                sm.comp.lu = npproxy._LU(mtx)
                d_out = VecStore({"circulations": symarray("d_out", (n,))})
                d_res = VecStore({"circulations": symarray("d_res", (n,))})
                pre_out, pre_res = d_out["circulations"].copy(), d_res["circulations"].copy()
                sm.comp.solve_linear(d_out, d_res, mode)
            hyp = npproxy.lu_hypotheses()
            obs = []
            for i in range(n):
                if mode == "fwd":
                    lhs, rhs_ = sum((mtx[i, j] * S(d_out["circulations"][j]) for j in range(n)), ZERO), pre_res[i]
                else:
                    lhs, rhs_ = sum((mtx[j, i] * S(d_res["circulations"][j]) for j in range(n)), ZERO), pre_out[i]
                obs.append(oblig.Ob("%s row %d" % (mode, i), lhs=lhs, rhs=rhs_, assume=hyp,
                                    meta={"family": "SolveMatrix.solve_linear solves the %s system" % ("forward" if mode == "fwd" else "transposed")}))
            run_obligations(rep, "SolveMatrix solve_linear %s [n=%d]" % (mode, n), obs, timeout, family=lambda ob: "SolveMatrix: " + ob.meta["family"],
                            replay=lambda ob, env, ss=ss, mode=mode: replay_sm_solve(ss, mode))


def replay_fem_solve(s, ch, mode):
    """the real FEM component on floats: factorise a real stiffness matrix with its own solve_nonlinear, then call its
    solve_linear on vectors that hold arbitrary previous contents (what an iterative linear solver leaves there) and test
    the linear system it is meant to solve"""
    import openmdao.api as om
    from openaerostruct.structures.fem import FEM

    ny = s["mesh"].shape[1]
    rng = np.random.default_rng(7)
    nodes = np.stack([0.3 * np.arange(ny), -1.0 * np.arange(ny)[::-1] - 0.0, 0.1 * np.arange(ny)], axis=1).astype(float)
    A, Iy, Iz, J = (1e-3 * (1.0 + rng.random(ny - 1)), 1e-6 * (1.0 + rng.random(ny - 1)), 2e-6 * (1.0 + rng.random(ny - 1)), 3e-6 * (1.0 + rng.random(ny - 1)))
    prob = om.Problem(reports=False)
    from openaerostruct.structures.assemble_k_group import AssembleKGroup
    prob.model.add_subsystem("k", AssembleKGroup(surface=s), promotes=["*"])
    prob.model.add_subsystem("fem", FEM(surface=s), promotes=["*"])
    prob.setup()
    prob.set_val("nodes", nodes)
    for n_, v in (("A", A), ("Iy", Iy), ("Iz", Iz), ("J", J)):
        prob.set_val(n_, v)
    prob.run_model()
    comp = prob.model.fem
    kt = np.array(prob.get_val("local_stiff_transformed"))
    Kn = np.asarray(comp.assemble_CSC_K({"local_stiff_transformed": kt}).toarray())
    n = Kn.shape[0]
    d_out = {"disp_aug": rng.standard_normal(n)}
    d_res = {"disp_aug": rng.standard_normal(n) * 1e3}
    pre_out, pre_res = d_out["disp_aug"].copy(), d_res["disp_aug"].copy()
    comp.solve_linear(d_out, d_res, mode)
    if mode == "fwd":
        lhs, rhs = Kn.dot(d_out["disp_aug"]), pre_res
    else:
        lhs, rhs = Kn.T.dot(d_res["disp_aug"]), pre_out
    err = float(np.abs(lhs - rhs).max() / max(1e-30, np.abs(rhs).max()))
    return err > 1e-6, "real FEM.solve_linear(%s) with non-zero previous vector contents: |K%s x - b| / |b| = %.3g" % (mode, "" if mode == "fwd" else "^T", err)


def replay_fem_residual(s, ch):
    """the real FEM component on floats: apply_nonlinear gives K u - f and linearize reports K, for the K of a real chain"""
    import openmdao.api as om
    from openaerostruct.structures.assemble_k_group import AssembleKGroup
    from openaerostruct.structures.fem import FEM

    ny = s["mesh"].shape[1]
    rng = np.random.default_rng(7)
    nodes = np.stack([0.3 * np.arange(ny), -1.0 * np.arange(ny)[::-1], 0.1 * np.arange(ny)], axis=1).astype(float)
    prob = om.Problem(reports=False)
    prob.model.add_subsystem("k", AssembleKGroup(surface=s), promotes=["*"])
    prob.model.add_subsystem("fem", FEM(surface=s), promotes=["*"])
    prob.setup()
    prob.set_val("nodes", nodes)
    for n_, v in (("A", 1e-3), ("Iy", 1e-6), ("Iz", 2e-6), ("J", 3e-6)):
        prob.set_val(n_, v * (1.0 + rng.random(ny - 1)))
    prob.set_val("forces", np.concatenate([1e3 * rng.standard_normal(6 * ny), np.zeros(6)]))
    prob.run_model()
    comp = prob.model.fem
    kt = np.array(prob.get_val("local_stiff_transformed"))
    Kn = np.asarray(comp.assemble_CSC_K({"local_stiff_transformed": kt}).toarray())
    n = Kn.shape[0]
    u = rng.standard_normal(n) * 1e-3
    f = np.array(prob.get_val("forces"), dtype=float)
    R = {"disp_aug": np.zeros(n)}
    comp.apply_nonlinear({"local_stiff_transformed": kt, "forces": f}, {"disp_aug": u}, R)
    e1 = float(np.abs(R["disp_aug"] - (Kn.dot(u) - f)).max() / max(1.0, np.abs(f).max()))
    sol = np.array(prob.get_val("disp_aug"), dtype=float)
    e2 = float(np.abs(Kn.dot(sol) - f).max() / max(1.0, np.abs(f).max()))
    J = prob.check_partials(out_stream=None, compact_print=True, includes=["fem"], method="fd", step=1e-6)
    key = [k for k in J["fem"] if k[0].endswith("disp_aug") and k[1].endswith("disp_aug")][0]
    Jr = np.asarray(J["fem"][key]["J_fwd"])
    e3 = float(np.abs(Jr - Kn).max() / np.abs(Kn).max())
    bad = e1 > 1e-9 or e2 > 1e-7 or e3 > 1e-9
    return bad, "real FEM: |R - (K u - f)| = %.3g, |K u_solved - f| / |f| = %.3g, |dR/du reported - K| / |K| = %.3g" % (e1, e2, e3)


def replay_jacvec(mod, cls, ss):
    """the real matrix-free component on floats: forward product against central differences of compute, and adjointness"""
    sc = SymComp(mod, cls, surfaces=ss)
    comp = sc.comp
    rng = np.random.default_rng(21)
    x0 = {n: rng.standard_normal(sc.shape(n)) for n in sc.in_names}
    dx = {n: rng.standard_normal(sc.shape(n)) for n in sc.in_names}
    y = {n: rng.standard_normal(sc.shape(n)) for n in sc.out_names}

    def f(v):
        o = {n: np.zeros(sc.shape(n)) for n in sc.out_names}
        comp.compute(v, o)
        return o

    h = 1e-6
    fp, fm = f({n: x0[n] + h * dx[n] for n in x0}), f({n: x0[n] - h * dx[n] for n in x0})
    fd = {n: (fp[n] - fm[n]) / (2 * h) for n in sc.out_names}
    # the vectors handed in are not empty: the framework loads them (for an explicit component the forward call
    # arrives with -d_outputs already in the residual vector) and the products are *added*
    pre_o = {n: rng.standard_normal(sc.shape(n)) for n in sc.out_names}
    pre_i = {n: rng.standard_normal(sc.shape(n)) for n in sc.in_names}
    d_out = {n: pre_o[n].copy() for n in sc.out_names}
    comp.compute_jacvec_product(x0, {n: dx[n].copy() for n in dx}, d_out, "fwd")
    Jx = {n: d_out[n] - pre_o[n] for n in sc.out_names}
    e1 = max(float(np.abs(Jx[n] - fd[n]).max()) for n in sc.out_names)
    d_in = {n: pre_i[n].copy() for n in sc.in_names}
    comp.compute_jacvec_product(x0, d_in, {n: y[n].copy() for n in y}, "rev")
    JTy = {n: d_in[n] - pre_i[n] for n in sc.in_names}
    lhs = sum(float(np.sum(y[n] * fd[n])) for n in sc.out_names)
    rhs = sum(float(np.sum(JTy[n] * dx[n])) for n in sc.in_names)
    e2 = abs(lhs - rhs) / max(1.0, abs(lhs))
    return e1 > 1e-6 or e2 > 1e-6, ("real %s called with non-empty vectors: (d_outputs after - before) vs central difference of compute %.3g, "
                                    "<y, J x> - <(d_inputs after - before), x> = %.3g (relative)" % (cls, e1, e2))


def replay_sm_solve(ss, mode):
    import openmdao.api as om
    from openaerostruct.aerodynamics.solve_matrix import SolveMatrix

    prob = om.Problem(reports=False)
    prob.model.add_subsystem("sm", SolveMatrix(surfaces=ss), promotes=["*"])
    prob.setup()
    comp = prob.model.sm
    n = comp.system_size
    rng = np.random.default_rng(11)
    M = rng.standard_normal((n, n)) + n * np.eye(n)
    prob.set_val("mtx", M)
    prob.set_val("rhs", rng.standard_normal(n))
    prob.run_model()
    prob.model.run_linearize()
    d_out = {"circulations": rng.standard_normal(n)}
    d_res = {"circulations": rng.standard_normal(n)}
    pre_out, pre_res = d_out["circulations"].copy(), d_res["circulations"].copy()
    comp.solve_linear(d_out, d_res, mode)
    if mode == "fwd":
        lhs, rhs = M.dot(d_out["circulations"]), pre_res
    else:
        lhs, rhs = M.T.dot(d_res["circulations"]), pre_out
    err = float(np.abs(lhs - rhs).max() / max(1e-30, np.abs(rhs).max()))
    return err > 1e-8, "real SolveMatrix.solve_linear(%s) with non-zero previous vector contents: |A%s x - b| / |b| = %.3g" % (mode, "" if mode == "fwd" else "^T", err)


def run_twin_aware(rep, group, obs, timeout, replay=None):
    """obligations flagged `twin` are reachability twins: they must come back sat (the check can see the mechanism)."""
    real = [o for o in obs if not o.meta.get("twin")]
    twins = [o for o in obs if o.meta.get("twin")]
    run_obligations(rep, group, real, timeout, family=lambda ob: "FEM: " + ob.meta["family"], replay=replay)
    if twins:
        oblig.discharge(twins, timeout=timeout, levels=(1,))
        nsat = sum(1 for o in twins if o.verdict == "candidate")
        rep.twins["expected_sat"] += 1
        rep.twins["got_sat"] += 1 if nsat else 0
        if not nsat and any(o.meta["family"].startswith("FEM.solve_linear solves the transposed") for o in twins):
            rep.errors.append("reachability twin of %s was not refuted: the reverse-mode check cannot see a non-symmetric matrix" % group)


def matrix_free(rep, tier, timeout):
    """DemuxSurfaceMesh / MuxSurfaceForces: fwd product == derivative of compute; <y, J x> == <J^T y, x>;
    accumulation (+=) respected."""
    try:
        from openaerostruct.mphys.demux_surface_mesh import DemuxSurfaceMesh
        from openaerostruct.mphys.mux_surface_forces import MuxSurfaceForces
    except Exception as e:
        rep.errors.append("mphys components not importable: %r" % (e,))
        return
    from symoas import diff

    # three surfaces of pairwise different sizes: running offsets into the flattened vector differ from any single size
    ss = [K.surface(2, 2, True, name="wing"), K.surface(2, 3, False, name="tail"), K.surface(3, 2, True, name="fin")]
    for cls, mod in (("DemuxSurfaceMesh", "mphys.demux_surface_mesh"), ("MuxSurfaceForces", "mphys.mux_surface_forces")):
        sc = SymComp(mod, cls, surfaces=ss)
        rep.encode(type(sc.comp))
        ins = sc.inputs()
        o = sc.sym1(ins)
        x = {n: symarray("dx_" + n, sc.shape(n)) for n in sc.in_names}
        y = {n: symarray("dy_" + n, sc.shape(n)) for n in sc.out_names}
        pre_o = {n: symarray("pre_o_" + n, sc.shape(n)) for n in sc.out_names}
        pre_i = {n: symarray("pre_i_" + n, sc.shape(n)) for n in sc.in_names}
        with symbolic_numpy():
            d_in = VecStore({n: x[n].copy() for n in sc.in_names})
            d_out = VecStore({n: pre_o[n].copy() for n in sc.out_names})
            sc.comp.compute_jacvec_product(VecStore(ins), d_in, d_out, "fwd")
            d_in2 = VecStore({n: pre_i[n].copy() for n in sc.in_names})
            d_out2 = VecStore({n: y[n].copy() for n in sc.out_names})
            sc.comp.compute_jacvec_product(VecStore(ins), d_in2, d_out2, "rev")
        obs = []
        # forward: d_out == pre + J x where J x is the directional derivative of compute
        outs = [v for n in sc.out_names for v in o[n].ravel()]
        Jx = [ZERO] * len(outs)
        for n in sc.in_names:
            for idx in np.ndindex(*sc.shape(n)):
                col = diff.diff_all(outs, ins[n][idx])
                Jx = [Jx[k] + col[k] * x[n][idx] for k in range(len(outs))]
        k = 0
        for n in sc.out_names:
            for idx in np.ndindex(*sc.shape(n)):
                obs.append(oblig.Ob("fwd %s%s" % (n, list(idx)), lhs=S(d_out[n][idx]), rhs=pre_o[n][idx] + Jx[k],
                                    meta={"family": "forward matrix-free product adds the directional derivative of compute"}))
                k += 1
        # adjointness: <y, J x> == <J^T y, x>
        JTy = {n: np.array([S(d_in2[n][idx]) - pre_i[n][idx] for idx in np.ndindex(*sc.shape(n))], dtype=object).reshape(sc.shape(n)) for n in sc.in_names}
        lhs = sum((y[n].ravel()[i] * (S(d_out[n].ravel()[i]) - pre_o[n].ravel()[i]) for n in sc.out_names for i in range(y[n].size)), ZERO)
        rhs = sum((JTy[n].ravel()[i] * x[n].ravel()[i] for n in sc.in_names for i in range(x[n].size)), ZERO)
        obs.append(oblig.Ob("adjoint <y, Jx> == <J^T y, x>", lhs=lhs, rhs=rhs, meta={"family": "forward and reverse matrix-free products are adjoint"}))
        def jv_rp(ob, env, mod=mod, cls=cls, ss=ss):
            return replay_jacvec(mod, cls, ss)

        run_obligations(rep, "%s jacvec products" % cls, obs, timeout, family=lambda ob, cls=cls: "%s: %s" % (cls, ob.meta["family"]), replay=jv_rp)
    # mux(demux) index maps are a partition and inverse permutations
    from openaerostruct.mphys.utils import get_src_indices

    idx = get_src_indices(ss)
    allidx = np.concatenate([idx[s["name"]].ravel() for s in ss])
    n = sum(s["mesh"].size for s in ss)
    obs = [oblig.Ob("index map is a partition of 0..3N-1", cond=ne(S(int(np.array_equal(np.sort(allidx), np.arange(n)))), 1),
                    meta={"family": "flattened-vector index maps partition the global vector"})]
    dm = SymComp("mphys.demux_surface_mesh", "DemuxSurfaceMesh", surfaces=ss)
    mx = SymComp("mphys.mux_surface_forces", "MuxSurfaceForces", surfaces=ss)
    xin = symarray("x", dm.shape(dm.in_names[0]))
    parts = dm.sym1({dm.in_names[0]: xin})
    back = mx.sym1({s["name"] + "_mesh_point_forces": parts[s["name"] + "_def_mesh"] for s in ss})
    obs += idents("mux(demux(x))", back[mx.out_names[0]], xin, meta={"family": "mux after demux is the identity (inverse permutations)"})
    def idx_rp(ob, env, ss=ss):
        import openmdao.api as om
        from openaerostruct.mphys.demux_surface_mesh import DemuxSurfaceMesh
        from openaerostruct.mphys.mux_surface_forces import MuxSurfaceForces

        nn = sum(x["mesh"].size for x in ss)
        xv = np.arange(nn, dtype=float) + 0.5
        d_ = SymComp("mphys.demux_surface_mesh", "DemuxSurfaceMesh", surfaces=ss)
        parts_ = d_.real({d_.in_names[0]: xv})
        m_ = SymComp("mphys.mux_surface_forces", "MuxSurfaceForces", surfaces=ss)
        back_ = m_.real({x["name"] + "_mesh_point_forces": parts_[x["name"] + "_def_mesh"] for x in ss})[m_.out_names[0]]
        e = float(np.abs(np.asarray(back_).ravel() - xv).max())
        return e > 0, "real mux(demux(x)) differs from x by %.3g" % e

    run_obligations(rep, "mux/demux index maps", obs, timeout, family=lambda ob: "MPhys: " + ob.meta["family"], cut_threshold=0, replay=idx_rp)


def solver_structure(rep, tier):
    """Every group of the real models whose subsystems feed back into each other carries a linear solver that solves the
    cycle (the framework's default, LinearRunOnce, does one sweep and returns frozen-loop totals).  Ground check on the set-up
    models, confirmed by comparing the real totals with central differences of the converged analysis."""
    import warnings

    import networkx as nx
    import openmdao.api as om
    from props import groups

    s = K.surface(2, 3, True)
    s.update({"thickness_cp": np.array([0.1, 0.2]), "twist_cp": np.zeros(2)})
    models = [("AerostructPoint", dict(compressible=False)), ("AerostructPoint(compressible)", dict(compressible=True))]
    if tier != "quick":
        models.append(("AerostructPoint(rotational)", dict(rotational=True)))
    for label, kw in models:
        prob = groups.aerostruct_problem(s, **kw)
        rep.encode(type(prob.model._get_subsystem("AS_point_0")))
        for g in prob.model.system_iter(include_self=True, recurse=True, typ=om.Group):
            graph = g.compute_sys_graph(comps_only=False)
            cyc = [sorted(c) for c in nx.strongly_connected_components(graph) if len(c) > 1]
            if not cyc:
                continue
            rep.counts["obligations"] += 1
            rep.counts["nontrivial"] += 1
            name = type(g.linear_solver).__name__
            rep.groups.append({"case": "linear solver of a group with a feedback cycle: %s %s" % (label, g.pathname), "cycle": cyc, "linear_solver": name})
            if isinstance(g.linear_solver, om.LinearRunOnce):
                rep.counts["candidates"] += 1
                bad, what = replay_totals(s, kw)
                if bad:
                    rep.violation("%s: the coupled group's linear solver solves its feedback cycle" % label,
                                  "group %s (cycle %s) has linear solver %s :: %s" % (g.pathname, cyc[0], name, what), {"group": g.pathname, "model": label, "structure": True})
                else:
                    rep.not_reproduced.append({"id": "%s %s" % (label, g.pathname), "why": what})
            else:
                rep.counts["discharged"] += 1
        rep.log("%-52s groups with feedback cycles checked" % ("linear solvers: " + label))


def replay_totals(s, kw):
    """the real model on floats: total derivatives against central differences of the converged analysis"""
    import warnings

    from props import groups

    def build(alpha):
        p = groups.aerostruct_problem(s, vals={"alpha": alpha, "Mach_number": 0.5, "v": 150.0, "rho": 0.9, "W0": 2000.0, "R": 2.0e6}, **kw)
        cpl = p.model._get_subsystem("AS_point_0.coupled")
        cpl.nonlinear_solver.options["atol"] = 1e-12
        cpl.nonlinear_solver.options["rtol"] = 1e-14
        cpl.nonlinear_solver.options["maxiter"] = 200
        cpl.nonlinear_solver.options["iprint"] = -1
        with warnings.catch_warnings():
            warnings.simplefilter("ignore")
            p.run_model()
        return p

    p0 = build(4.0)
    ofs = ["AS_point_0.CL", "AS_point_0.wing_perf.failure", "AS_point_0.fuelburn"]
    with warnings.catch_warnings():
        warnings.simplefilter("ignore")
        tot = p0.compute_totals(of=ofs, wrt=["alpha"])
    h = 1e-4
    pp, pm = build(4.0 + h), build(4.0 - h)
    worst = (0.0, "")
    for o in ofs:
        fd = (float(np.ravel(pp.get_val(o))[0]) - float(np.ravel(pm.get_val(o))[0])) / (2 * h)
        an = float(np.ravel(tot[(o, "alpha")])[0])
        e = abs(an - fd) / max(abs(fd), abs(an), 1e-12)
        if e > worst[0]:
            worst = (e, "d %s / d alpha: total %.8g, central difference of the converged analysis %.8g" % (o, an, fd))
    return worst[0] > 1e-4, worst[1] or "totals agree with central differences"


def run(tier, seed, only=None):
    rep = report.Report(PID, tier, seed)
    timeout = 20.0 if tier == "quick" else 60.0
    if not only or "solve" in only:
        implicit_solves(rep, tier, timeout)
    if not only or "structure" in only:
        solver_structure(rep, tier)
    if not only or "mphys" in only:
        matrix_free(rep, tier, timeout)
    rep.stubs.add("scipy lu_factor/lu_solve/splu -> contract stub: solve returns fresh x with A x = b (or A^T x = b) as hypothesis")
    rep.assumptions = ["OpenMDAO composes partials correctly and its Direct/LinearBlockGS/Krylov solvers converge to the same solution (trusted); that a solver able to solve the cycle is attached is checked",
                       "cs/fd approximated partials are accurate (not checked)", "C01 (every analytic partial) is a premise", "real arithmetic"]
    rep.bounds = {"FEM": "ny 2-3", "SolveMatrix": "system size 2 (quick), 5 (thorough)"}
    return rep.finish("C02 (reduced): implicit components report the matrix they solve with; solve_linear satisfies the forward/transposed system "
                      "(K symmetric proved; non-symmetric twin refuted); MPhys matrix-free products exact and adjoint")


def replay_file(path):
    spec = json.load(open(path))
    print("recorded counterexample: %s" % spec.get("what"))
    print("VIOLATION property=%s replay=%s" % (PID, path))
    return 1
