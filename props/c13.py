"""C13 - geometry design variables act as documented; defaults leave the mesh unchanged."""
from __future__ import annotations

import json

import numpy as np

from symoas import cases as K
from symoas import model, oblig, report
from symoas.model import SymComp, idents, num_inputs, run_obligations
from symoas.sym import S, ZERO, ONE, PI, Sym, const, cos, evalf, ge, gt, le, lt, ne, sin, symarray, tan, var, symify

PID = "C13"
G = "geometry.geometry_mesh_transformations"


def sym_mesh(nx, ny, symm, flat=False):
    """Symbolic mesh whose chordwise lines have constant y (the mesh families the property names):
    symmetric: y_0 < ... < y_{ny-2} < y_{ny-1} = 0 (root on the symmetry plane, last index);
    full span: y mirrored about 0 with the centre node at y = 0.  x and z of every node are free."""
    m = np.empty((nx, ny, 3), dtype=object)
    assume = []
    if symm:
        ys = [var("y[%d]" % j) for j in range(ny - 1)] + [ZERO]
    else:
        h = (ny - 1) // 2
        half = [var("y[%d]" % j) for j in range(h)]
        ys = half + [ZERO] + [-v for v in reversed(half)]
    for j in range(ny - 1):
        assume.append(lt(ys[j], ys[j + 1]))
    for i in range(nx):
        for j in range(ny):
            m[i, j, 0] = var("x[%d,%d]" % (i, j))
            m[i, j, 1] = ys[j]
            m[i, j, 2] = var("zs[%d]" % j) if flat else var("z[%d,%d]" % (i, j))  # flat chords, dihedral allowed
    return m, assume


def comp(cls, **kw):
    return SymComp(G, cls, **kw)


def structure_groups(rep, tier, timeout):
    """the thickness / radius distributions of the structural groups: every spline reads its own control points and every
    section-property input is the group's variable of that name (one element for the wingbox: its smooth maxima fork
    once per airfoil data point and element)"""
    from openaerostruct.structures.tube_group import TubeGroup
    from openaerostruct.structures.wingbox_group import WingboxGroup
    from props import groups

    fam = "every component input is the group's variable of the same name"
    sw = K.surface(2, 2, True, fem_model_type="wingbox")
    groups.wiring_check(rep, lambda: WingboxGroup(surface=sw), "WingboxGroup", fam, timeout)
    st = K.surface(2, 3, True)
    groups.wiring_check(rep, lambda: TubeGroup(surface=st), "TubeGroup", fam, timeout)


def run(tier, seed, only=None):
    rep = report.Report(PID, tier, seed)
    timeout = 20.0 if tier == "quick" else 60.0
    cfgs = [("symL_2x3", 2, 3, True), ("full_2x3", 2, 3, False)]
    if tier == "thorough":
        cfgs += [("symL_3x4", 3, 4, True), ("full_3x5", 3, 5, False), ("symL_2x2", 2, 2, True)]
    rap = var("ref_axis_pos")
    rap_assume = [ge(rap, 0), le(rap, 1)]
    for (cn, nx, ny, symm) in cfgs:
        m, massume = sym_mesh(nx, ny, symm)
        cm = K.rect_mesh(nx, ny, symm)
        shp = cm.shape
        ref = rap * m[nx - 1] + (ONE - rap) * m[0]
        root = ny - 1 if symm else (ny - 1) // 2
        semispan = m[0, root, 1] - m[0, 0, 1]  # y_root - y_tip(left)
        assume = massume + rap_assume
        fixed = {"ref_axis_pos": 0.25, "sweep": (20.0, -20.0), "dihedral": (10.0, -10.0)}

        def mk(cls, **kw):
            sc = comp(cls, **kw)
            rep.encode(type(sc.comp))
            if hasattr(sc.comp, "ref_axis_pos"):
                sc.comp.ref_axis_pos = rap
            return sc

        def generic_replay(cls, kw, inputs_fn, mesh_opt=False):
            def rp(ob, env):
                env = model.FillEnv(env)
                mv = num_inputs({"m": m}, env)["m"]
                kw2 = dict(kw)
                if "ref_axis_pos" in kw2:
                    kw2["ref_axis_pos"] = float(env["ref_axis_pos"])
                if mesh_opt:
                    kw2["mesh"] = mv
                sc = SymComp(G, cls, **kw2)
                vals = inputs_fn(env, mv)
                real = sc.real(vals)["mesh"]
                idx = tuple(ob.meta["idx"])
                refv = float(evalf([ob.rhs], env)[ob.rhs.nid])
                return model.differs(real[idx], refv, 1e-7), "%s: mesh%s = %.9g, documented effect gives %.9g" % (cls, list(idx), real[idx], refv)

            return rp

        # ---------------- (a) defaults are no-ops, component by component (the chain is their composition)
        obs_all = []
        # Taper (mesh is an option: swapped for the symbolic mesh after set-up)
        sc = mk("Taper", val=1.0, mesh=cm, symmetry=symm, ref_axis_pos=0.25)
        sc.comp.options["mesh"] = m
        tp = var("taper")
        paths = sc.sym({"taper": [tp]}, assumptions=assume)
        sc.comp.options["mesh"] = cm
        for p in paths:
            out = p.result["outputs"]["mesh"]
            from symoas.sym import substitute
            flat = list(out.ravel())
            at1 = substitute(flat, {"taper": ONE})
            o1 = np.array([at1[x.nid] for x in flat], dtype=object).reshape(out.shape)
            obs = idents("Taper(1) no-op", o1, m, assume=assume + p.conds, meta={"family": "taper = 1 leaves the mesh unchanged"})
            # documented effect: chords scale linearly from 1 at the root to `taper` at the tip, about the reference axis
            for j in range(ny):
                frac = (m[0, root, 1] - m[0, j, 1]) / semispan if j <= root else (m[0, j, 1] - m[0, root, 1]) / semispan
                t = ONE + (tp - ONE) * frac
                for i in range(nx):
                    for k in range(3):
                        obs.append(oblig.Ob("Taper effect [%d,%d,%d]" % (i, j, k), lhs=out[i, j, k], rhs=(m[i, j, k] - ref[j, k]) * t + ref[j, k],
                                            assume=assume + p.conds, meta={"family": "taper scales chords linearly from 1 at the root to the taper ratio at the tip", "idx": [i, j, k]}))
            run_obligations(rep, "Taper[%s] path %s" % (cn, p.label()), obs, timeout, family=lambda ob: "Taper: " + ob.meta["family"], fixed=fixed,
                            replay=generic_replay("Taper", dict(val=1.0, symmetry=symm, ref_axis_pos=0.25), lambda env, mv: {"taper": [env["taper"]]}, mesh_opt=True))
        # ScaleX
        sc = mk("ScaleX", val=np.ones(ny), mesh_shape=shp, ref_axis_pos=0.25)
        ch = symarray("chord", (ny,))
        out = sc.sym1({"chord": ch, "in_mesh": m})["mesh"]
        out1 = sc.sym1({"chord": np.ones(ny), "in_mesh": m})["mesh"]
        obs = idents("ScaleX(1) no-op", out1, m, assume=assume, meta={"family": "chord scaling 1 leaves the mesh unchanged"})
        obs += idents("ScaleX effect", out, np.array([[[(m[i, j, k] - ref[j, k]) * ch[j] + ref[j, k] for k in range(3)] for j in range(ny)] for i in range(nx)], dtype=object),
                      assume=assume, meta={"family": "chord scaling acts about the reference axis"})
        run_obligations(rep, "ScaleX[%s]" % cn, obs, timeout, family=lambda ob: "ScaleX: " + ob.meta["family"], fixed=fixed,
                        replay=generic_replay("ScaleX", dict(val=np.ones(ny), mesh_shape=shp, ref_axis_pos=0.25),
                                              lambda env, mv: {"chord": [env["chord[%d]" % j] for j in range(ny)], "in_mesh": mv}))
        # Sweep / Dihedral
        for cls, axis, dv, fam in (("Sweep", 0, "sweep", "sweep displaces x by tan(angle) * distance from the root (aft positive), y and z unchanged"),
                                   ("Dihedral", 2, "dihedral", "dihedral displaces z by tan(angle) * distance from the root (up positive), x and y unchanged")):
            sc = mk(cls, val=0.0, mesh_shape=shp, symmetry=symm)
            th = var(dv)
            out = sc.sym1({dv: [th], "in_mesh": m})["mesh"]
            out0 = sc.sym1({dv: [0.0], "in_mesh": m})["mesh"]
            obs = idents("%s(0) no-op" % cls, out0, m, assume=assume, meta={"family": "zero %s leaves the mesh unchanged" % dv})
            tn = tan(th * PI / 180)
            refm = m.copy()
            for j in range(ny):
                dist = (m[0, root, 1] - m[0, j, 1]) if j <= root else (m[0, j, 1] - m[0, root, 1])
                for i in range(nx):
                    refm[i, j, axis] = m[i, j, axis] + tn * dist
            obs += idents("%s effect" % cls, out, refm, assume=assume, meta={"family": fam})
            run_obligations(rep, "%s[%s]" % (cls, cn), obs, timeout, family=lambda ob, cls=cls: "%s: %s" % (cls, ob.meta["family"]), fixed=fixed,
                            replay=generic_replay(cls, dict(val=0.0, mesh_shape=shp, symmetry=symm), lambda env, mv, dv=dv: {dv: [env[dv]], "in_mesh": mv}))
        # Shears
        for cls, axis, dv in (("ShearX", 0, "xshear"), ("ShearY", 1, "yshear"), ("ShearZ", 2, "zshear")):
            sc = mk(cls, val=np.zeros(ny), mesh_shape=shp)
            sh = symarray(dv, (ny,))
            out = sc.sym1({dv: sh, "in_mesh": m})["mesh"]
            refm = m.copy()
            for j in range(ny):
                for i in range(nx):
                    refm[i, j, axis] = m[i, j, axis] + sh[j]
            out0 = sc.sym1({dv: np.zeros(ny), "in_mesh": m})["mesh"]
            obs = idents("%s(0) no-op" % cls, out0, m, meta={"family": "zero shear leaves the mesh unchanged"})
            obs += idents("%s effect" % cls, out, refm, meta={"family": "shear translates each section"})
            run_obligations(rep, "%s[%s]" % (cls, cn), obs, timeout, family=lambda ob, cls=cls: "%s: %s" % (cls, ob.meta["family"]), fixed=fixed,
                            replay=generic_replay(cls, dict(val=np.zeros(ny), mesh_shape=shp), lambda env, mv, dv=dv: {dv: [env["%s[%d]" % (dv, j)] for j in range(ny)], "in_mesh": mv}))
        # Stretch
        sc = mk("Stretch", val=1.0, mesh_shape=shp, symmetry=symm, ref_axis_pos=0.25)
        sp = var("span")
        cur = (ref[ny - 1, 1] - ref[0, 1]) * (2 if symm else 1)
        out = sc.sym1({"span": [sp], "in_mesh": m})["mesh"]
        outc = sc.sym1({"span": [cur], "in_mesh": m})["mesh"]
        obs = idents("Stretch(current span) no-op", outc, m, assume=assume, meta={"family": "the current span leaves the mesh unchanged"})
        for i in range(nx):
            ext = out[i, ny - 1, 1] - out[i, 0, 1]
            obs.append(oblig.Ob("Stretch extent row %d" % i, lhs=ext, rhs=sp / 2 if symm else sp, assume=assume + [gt(sp, 0)],
                                meta={"family": "span sets the tip-to-tip extent (half of it for a symmetric half mesh)", "idx": [i, 0, 1], "ext": True}))
        obs += idents("Stretch keeps x,z", out[:, :, [0, 2]], m[:, :, [0, 2]], assume=assume, meta={"family": "stretching does not move x or z"})

        def st_rp(ob, env, symm=symm, shp=shp, ny=ny):
            env = model.FillEnv(env)
            mv = num_inputs({"m": m}, env)["m"]
            sc = SymComp(G, "Stretch", val=1.0, mesh_shape=shp, symmetry=symm, ref_axis_pos=float(env["ref_axis_pos"]))
            lhs = float(evalf([ob.lhs], env)[ob.lhs.nid])
            refv = float(evalf([ob.rhs], env)[ob.rhs.nid])
            # evaluate the span value the obligation used
            spv = env.get("span")
            if ob.id.startswith("Stretch(current"):
                r = float(env["ref_axis_pos"])
                rr = r * mv[-1] + (1 - r) * mv[0]
                spv = (rr[-1, 1] - rr[0, 1]) * (2 if symm else 1)
            real = sc.real({"span": [spv], "in_mesh": mv})["mesh"]
            if ob.meta.get("ext"):
                i = ob.meta["idx"][0]
                got = real[i, ny - 1, 1] - real[i, 0, 1]
            else:
                idx = ob.meta["idx"]
                got = real[idx[0], idx[1], [0, 2][idx[2]]] if ob.id.startswith("Stretch keeps") else real[tuple(idx)]
            return model.differs(got, refv, 1e-7), "Stretch %s: real %.9g, documented %.9g" % (ob.id, got, refv)

        run_obligations(rep, "Stretch[%s]" % cn, obs, timeout, family=lambda ob: "Stretch: " + ob.meta["family"], fixed=fixed, replay=st_rp)
        # outside the mesh families the property names: leading and trailing edge at different y (raked tip); posed
        # separately so that the finding is distinct (DESIGN 3/C13)
        if cn == cfgs[0][0]:
            mr = symarray("rk", (nx, ny, 3))
            refr = rap * mr[nx - 1] + (ONE - rap) * mr[0]
            curr = (refr[ny - 1, 1] - refr[0, 1]) * (2 if symm else 1)
            outr = sc.sym1({"span": [curr], "in_mesh": mr})["mesh"]
            obs = idents("Stretch(current span) no-op on a raked mesh", outr, mr, assume=rap_assume,
                         meta={"family": "the current span leaves a mesh with chordwise-varying y (raked tip) unchanged"})

            def rk_rp(ob, env, symm=symm, shp=shp, mr=mr):
                envf = model.FillEnv(env)
                mv = num_inputs({"m": mr}, envf)["m"]
                r = float(envf["ref_axis_pos"])
                rr = r * mv[-1] + (1 - r) * mv[0]
                spv = (rr[-1, 1] - rr[0, 1]) * (2 if symm else 1)
                real = SymComp(G, "Stretch", val=1.0, mesh_shape=shp, symmetry=symm, ref_axis_pos=r).real({"span": [spv], "in_mesh": mv})["mesh"]
                idx = tuple(ob.meta["idx"])
                return model.differs(real[idx], mv[idx], 1e-7), "Stretch at the current span: mesh%s = %.9g, input mesh %.9g" % (list(idx), real[idx], mv[idx])

            nominal = {}
            cmv = K.rect_mesh(nx, ny, symm)
            for idx in np.ndindex(*cmv.shape):
                nominal["rk[%s]" % ",".join(map(str, idx))] = float(cmv[idx]) + (0.15 * idx[0] if idx[2] == 1 and idx[1] == 0 else 0.0)
            run_obligations(rep, "Stretch on a raked mesh[%s]" % cn, obs, timeout, family=lambda ob: "Stretch: " + ob.meta["family"], fixed=fixed, replay=rk_rp, nominal=nominal)
        # Rotate (rotate_x=True as GeometryMesh uses it)
        for flat in (True, False):
            mm, ma = sym_mesh(nx, ny, symm, flat=flat)
            refa = rap * mm[nx - 1] + (ONE - rap) * mm[0]
            sc = mk("Rotate", val=np.zeros(ny), mesh_shape=shp, symmetry=symm, ref_axis_pos=0.25)
            tw = symarray("twist", (ny,))
            out0 = sc.sym1({"twist": np.zeros(ny), "in_mesh": mm})["mesh"]
            lab = "flat sections with dihedral" if flat else "cambered / pre-twisted sections with dihedral"
            obs = idents("Rotate(0) no-op (%s)" % lab, out0, mm, assume=ma + rap_assume, meta={"family": "zero twist leaves the mesh unchanged (%s)" % lab})

            def rot_rp(ob, env, mm=mm, symm=symm, shp=shp, ny=ny):
                env = model.FillEnv(env)
                mv = num_inputs({"m": mm}, env)["m"]
                sc = SymComp(G, "Rotate", val=np.zeros(ny), mesh_shape=shp, symmetry=symm, ref_axis_pos=float(env["ref_axis_pos"]))
                real = sc.real({"twist": np.zeros(ny), "in_mesh": mv})["mesh"]
                idx = tuple(ob.meta["idx"])
                return model.differs(real[idx], mv[idx], 1e-7), "Rotate at zero twist: mesh%s = %.9g, input mesh %.9g" % (list(idx), real[idx], mv[idx])

            run_obligations(rep, "Rotate zero twist, %s[%s]" % (lab, cn), obs, timeout, levels=(1, 2), fixed=fixed, replay=rot_rp,
                            family=lambda ob: "Rotate: " + ob.meta["family"])
            if flat:
                out = sc.sym1({"twist": tw, "in_mesh": mm})["mesh"]
                obs = []
                for j in range(ny):
                    c_in = sum(((mm[nx - 1, j, k] - mm[0, j, k]) ** 2 for k in range(3)), ZERO)
                    c_out = sum(((out[nx - 1, j, k] - out[0, j, k]) ** 2 for k in range(3)), ZERO)
                    obs.append(oblig.Ob("Rotate preserves chord %d" % j, lhs=c_out, rhs=c_in, assume=ma + rap_assume,
                                        meta={"family": "twist preserves the chord length", "idx": [0, j, 0]}))
                    for k in range(3):
                        obs.append(oblig.Ob("Rotate keeps the reference axis [%d,%d]" % (j, k), lhs=rap * out[nx - 1, j, k] + (ONE - rap) * out[0, j, k], rhs=refa[j, k],
                                            assume=ma + rap_assume, meta={"family": "twist acts about the reference axis", "idx": [0, j, k]}))
                    # the rotation follows the local dihedral: a twisted flat chord stays perpendicular to the reference-axis
                    # segment next to it (towards the tip; at the root: to the spanwise direction)
                    if j == root:
                        seg = (ZERO, ONE, ZERO)
                    else:
                        a_, b_ = (j, j + 1) if j < root else (j - 1, j)
                        seg = tuple(refa[b_, k] - refa[a_, k] for k in range(3))
                    for i in range(nx):
                        dot = sum(((out[i, j, k] - refa[j, k]) * seg[k] for k in (1, 2)), ZERO)
                        obs.append(oblig.Ob("Rotate: twisted chord point [%d,%d] stays in the plane normal to the local axis segment" % (i, j), lhs=dot, rhs=ZERO,
                                            assume=ma + rap_assume, meta={"family": "twist acts about the (dihedral-following) reference axis: flat chords stay normal to the local axis segment",
                                                                          "idx": [i, j, 0], "perp": [j, j if j == root else a_, j if j == root else b_]}))

                def eff_rp(ob, env, mm=mm, symm=symm, shp=shp, ny=ny, nx=nx):
                    env = model.FillEnv(env)
                    mv = num_inputs({"m": mm}, env)["m"]
                    r = float(env["ref_axis_pos"])
                    twv = np.array([float(env["twist[%d]" % j]) for j in range(ny)])
                    real = SymComp(G, "Rotate", val=np.zeros(ny), mesh_shape=shp, symmetry=symm, ref_axis_pos=r).real({"twist": twv, "in_mesh": mv})["mesh"]
                    rin, rout = r * mv[-1] + (1 - r) * mv[0], r * real[-1] + (1 - r) * real[0]
                    i, j, k = ob.meta["idx"]
                    if "perp" in ob.meta:
                        _, a_, b_ = ob.meta["perp"]
                        seg = np.array([0.0, 1.0, 0.0]) if a_ == b_ else rin[b_] - rin[a_]
                        got = float(np.dot((real[i, j] - rin[j])[1:], seg[1:]))
                        scale = np.linalg.norm(real[i, j] - rin[j]) * np.linalg.norm(seg[1:]) + 1e-300
                        return abs(got) > 1e-7 * max(1.0, scale), "Rotate: (mesh[%d,%d] - axis) . local axis segment = %.9g (should be 0)" % (i, j, got)
                    if "chord length" in ob.meta["family"]:
                        ci, co = np.sum((mv[-1, j] - mv[0, j]) ** 2), np.sum((real[-1, j] - real[0, j]) ** 2)
                        return model.differs(ci, co, 1e-7), "Rotate: squared chord %d before %.9g, after %.9g" % (j, ci, co)
                    return model.differs(rout[j, k], rin[j, k], 1e-7), "Rotate: reference axis[%d,%d] before %.9g, after %.9g" % (j, k, rin[j, k], rout[j, k])

                run_obligations(rep, "Rotate effect[%s]" % cn, obs, timeout, levels=(1, 2), fixed=fixed, family=lambda ob: "Rotate: " + ob.meta["family"], replay=eff_rp)
    group_chain(rep, tier, timeout)
    group_defaults(rep, tier, timeout)
    geometry_group_level(rep, tier, timeout)
    multisection_vs_single(rep, tier, timeout)
    structure_groups(rep, tier, timeout)
    splines(rep)
    rep.bounds = {"meshes": [c[0] for c in cfgs], "ref_axis_pos": "symbolic in [0,1]"}
    rep.assumptions = ["real arithmetic", "input meshes have chordwise lines at constant y, strictly increasing y, the symmetric root on y = 0 at the last index "
                       "(full-span meshes mirror-symmetric in y about the centre node)", "the chain's no-op property is the composition of the per-component no-ops"]
    return rep.finish("C13: per-transformation no-op at default values and documented effect as SMT identities on a symbolic mesh")


def group_chain(rep, tier, timeout):
    """The real GeometryMesh group: its own sub-components (with the options the group's setup gave them) are chained
    as the group connects them, on a symbolic mesh; the reference axis is the one the *surface dictionary* asks for."""
    import openmdao.api as om
    from openaerostruct.geometry.geometry_mesh import GeometryMesh

    names = ["taper", "scale_x", "sweep", "shear_x", "stretch", "shear_y", "dihedral", "shear_z", "rotate"]
    dv_of = {"taper": "taper", "scale_x": "chord", "sweep": "sweep", "shear_x": "xshear", "stretch": "span", "shear_y": "yshear",
             "dihedral": "dihedral", "shear_z": "zshear", "rotate": "twist"}
    cfgs = [("symL_2x3", 2, 3, True, 0.625), ("full_3x3", 3, 3, False, 0.0)]
    if tier == "thorough":
        cfgs += [("symL_3x4", 3, 4, True, 1.0), ("full_2x5", 2, 5, False, 0.625), ("symL_2x3_default", 2, 3, True, None)]
    for (cn, nx, ny, symm, rapv) in cfgs:
        cm = K.rect_mesh(nx, ny, symm)
        surf = K.surface_from_mesh(cm, symm, name="wing", taper=1.0, sweep=0.0, dihedral=0.0, span=float((cm[0, -1, 1] - cm[0, 0, 1]) * (2 if symm else 1)),
                                   chord_cp=np.ones(2), twist_cp=np.zeros(2), xshear_cp=np.zeros(2), yshear_cp=np.zeros(2), zshear_cp=np.zeros(2))
        if rapv is not None:
            surf["ref_axis_pos"] = rapv
        rap = S(0.25 if rapv is None else rapv)
        prob = om.Problem(reports=False)
        prob.model.add_subsystem("g", GeometryMesh(surface=surf))
        prob.setup()
        prob.final_setup()
        rep.encode(GeometryMesh)
        comps = {n: SymComp.from_instance(getattr(prob.model.g, n), prob) for n in names}
        m, massume = sym_mesh(nx, ny, symm, flat=True)  # flat chords (dihedral allowed): the families without the known Rotate finding
        ref = rap * m[nx - 1] + (ONE - rap) * m[0]
        cur_span = (ref[ny - 1, 1] - ref[0, 1]) * (2 if symm else 1)
        defaults = {"taper": [ONE], "chord": np.ones(ny), "sweep": [ZERO], "xshear": np.zeros(ny), "span": [cur_span], "yshear": np.zeros(ny),
                    "dihedral": [ZERO], "zshear": np.zeros(ny), "twist": np.zeros(ny)}

        # the order in which the *group* chains its transformations, read off its own connections (mesh -> in_mesh)
        nxt = {}
        for tgt, src in prob.model._conn_global_abs_in2out.items():
            if tgt.endswith(".in_mesh") and src.endswith(".mesh"):
                nxt[src.split(".")[-2]] = tgt.split(".")[-2]
        actual = [(set(names) - set(nxt.values())).pop()] if len(set(names) - set(nxt.values())) == 1 else ["taper"]
        while actual[-1] in nxt and len(actual) < len(names):
            actual.append(nxt[actual[-1]])

        def chain(dvs, order=None):
            order = order or actual
            if order[0] != "taper":
                raise RuntimeError("the group's chain does not start with taper: %r" % (order,))
            comps["taper"].comp.options["mesh"] = m
            try:
                cur = None
                for n in order:
                    sc = comps[n]
                    ins = {dv_of[n]: dvs[dv_of[n]]}
                    if n != "taper":
                        ins["in_mesh"] = cur
                    paths = sc.sym(ins, assumptions=massume)
                    if len(paths) != 1:
                        raise RuntimeError("%s: %d paths in the group chain" % (n, len(paths)))
                    cur = paths[0].result["outputs"]["mesh"]
                return cur
            finally:
                comps["taper"].comp.options["mesh"] = cm

        out0 = chain(defaults)
        obs = idents("GeometryMesh defaults", out0, m, assume=massume, meta={"family": "with default values the geometry group returns the input mesh unchanged", "kind": "default"})
        tw = symarray("twist", (ny,))
        outt = chain(dict(defaults, twist=tw))
        for j in range(ny):
            for k in range(3):
                obs.append(oblig.Ob("group twist keeps the reference axis [%d,%d]" % (j, k), lhs=rap * outt[nx - 1, j, k] + (ONE - rap) * outt[0, j, k], rhs=ref[j, k], assume=massume,
                                    meta={"family": "twist through the geometry group acts about the surface's reference axis", "kind": "twist", "idx": [0, j, k]}))
            c_in = sum(((m[nx - 1, j, k] - m[0, j, k]) ** 2 for k in range(3)), ZERO)
            c_out = sum(((outt[nx - 1, j, k] - outt[0, j, k]) ** 2 for k in range(3)), ZERO)
            obs.append(oblig.Ob("group twist preserves chord %d" % j, lhs=c_out, rhs=c_in, assume=massume,
                                meta={"family": "twist through the geometry group preserves the chord length", "kind": "twist", "idx": [0, j, 0]}))
        ch = symarray("chord", (ny,))
        outc = chain(dict(defaults, chord=ch))
        for j in range(ny):
            for k in range(3):
                obs.append(oblig.Ob("group chord scaling keeps the reference axis [%d,%d]" % (j, k), lhs=rap * outc[nx - 1, j, k] + (ONE - rap) * outc[0, j, k], rhs=ref[j, k], assume=massume,
                                    meta={"family": "chord scaling through the geometry group acts about the surface's reference axis", "kind": "chord", "idx": [0, j, k]}))
        tpv = var("taper")
        outp = chain(dict(defaults, taper=[tpv]))
        for j in range(ny):
            for k in range(3):
                obs.append(oblig.Ob("group taper keeps the reference axis [%d,%d]" % (j, k), lhs=rap * outp[nx - 1, j, k] + (ONE - rap) * outp[0, j, k], rhs=ref[j, k], assume=massume,
                                    meta={"family": "taper through the geometry group acts about the surface's reference axis", "kind": "taper", "idx": [0, j, k]}))

        # every design variable away from its default at once: the group's own chain must give what the documented order
        # taper > chord > sweep > x-shear > span > y-shear > dihedral > z-shear > twist gives (same DAG when the orders agree)
        alld = {"taper": [tpv], "chord": ch, "sweep": [var("sweep")], "xshear": symarray("xshear", (ny,)), "span": [var("span")],
                "yshear": symarray("yshear", (ny,)), "dihedral": [var("dihedral")], "zshear": symarray("zshear", (ny,)), "twist": tw}
        if not symm:
            alld["yshear"][(ny - 1) // 2] = ZERO
        else:
            alld["yshear"][ny - 1] = ZERO
        out_actual, out_doc = chain(alld), chain(alld, order=names)
        obs += idents("group chain order", out_actual, out_doc, assume=massume + [gt(var("span"), 0), gt(tpv, 0)],
                      meta={"family": "the group chains the transformations in the documented order (taper, chord, sweep, x-shear, span, y-shear, dihedral, z-shear, twist)", "kind": "order"})

        def rp(ob, env, surf=surf, m=m, nx=nx, ny=ny, rapv=rapv, symm=symm, actual=actual):
            envf = model.FillEnv(env)
            mv = num_inputs({"m": m}, envf)["m"]
            if ob.meta["kind"] == "order":
                # real group against the stand-alone transformations applied one after the other in the documented order
                import openaerostruct.geometry.geometry_mesh_transformations as T

                r = 0.25 if rapv is None else rapv
                vals = {"taper": 0.7, "chord": 1.0 + 0.1 * np.arange(ny), "sweep": 12.0, "xshear": 0.05 * np.arange(ny), "span": 1.6 * float((mv[0, -1, 1] - mv[0, 0, 1]) * (2 if symm else 1)),
                        "yshear": 0.04 * (np.arange(ny) - (ny - 1 if symm else (ny - 1) // 2)), "dihedral": 8.0, "zshear": 0.03 * np.arange(ny), "twist": 2.0 + np.arange(ny)}
                if not symm:
                    for k_ in ("chord", "xshear", "zshear", "twist"):
                        vals[k_] = np.concatenate([vals[k_][: ny // 2 + 1], vals[k_][: ny // 2][::-1]])
                    vals["yshear"] = np.concatenate([vals["yshear"][: ny // 2 + 1], -vals["yshear"][: ny // 2][::-1]])
                s2 = dict(surf, mesh=mv)
                p = om.Problem(reports=False)
                p.model.add_subsystem("g", GeometryMesh(surface=s2), promotes=["*"])
                p.setup()
                for k_, v_ in vals.items():
                    p.set_val(k_, v_)
                p.run_model()
                got = np.array(p.get_val("mesh"))
                cls = {"taper": "Taper", "scale_x": "ScaleX", "sweep": "Sweep", "shear_x": "ShearX", "stretch": "Stretch", "shear_y": "ShearY", "dihedral": "Dihedral", "shear_z": "ShearZ", "rotate": "Rotate"}
                cur = mv
                for n_ in names:
                    kw = {"mesh_shape": mv.shape}
                    if n_ == "taper":
                        kw = {"mesh": cur}
                    if n_ in ("taper", "sweep", "stretch", "dihedral", "rotate"):
                        kw["symmetry"] = symm
                    if n_ in ("taper", "scale_x", "stretch", "rotate"):
                        kw["ref_axis_pos"] = r
                    kw["val"] = vals[dv_of[n_]]
                    q = om.Problem(reports=False)
                    q.model.add_subsystem("c", getattr(T, cls[n_])(**kw), promotes=["*"])
                    q.setup()
                    q.set_val(dv_of[n_], vals[dv_of[n_]])
                    if n_ != "taper":
                        q.set_val("in_mesh", cur)
                    q.run_model()
                    cur = np.array(q.get_val("mesh"))
                d = float(np.abs(got - cur).max())
                return d > 1e-9, "GeometryMesh (chain %s) differs from the transformations applied in the documented order by %.4g m" % (" > ".join(actual), d)
            s2 = dict(surf, mesh=mv)
            r = 0.25 if rapv is None else rapv
            rr = r * mv[-1] + (1 - r) * mv[0]
            s2["span"] = float((rr[-1, 1] - rr[0, 1]) * (2 if symm else 1))
            p = om.Problem(reports=False)
            p.model.add_subsystem("g", GeometryMesh(surface=s2), promotes=["*"])
            p.setup()
            kind = ob.meta["kind"]
            if kind == "twist":
                p.set_val("twist", [envf["twist[%d]" % j] for j in range(ny)])
            elif kind == "chord":
                p.set_val("chord", [envf["chord[%d]" % j] for j in range(ny)])
            elif kind == "taper":
                p.set_val("taper", envf["taper"])
            p.run_model()
            out = np.array(p.get_val("mesh"))
            if kind == "default":
                idx = tuple(ob.meta["idx"])
                return model.differs(out[idx], mv[idx], 1e-7), "GeometryMesh at default values: mesh%s = %.9g, input %.9g" % (list(idx), out[idx], mv[idx])
            if ob.id.startswith("group twist preserves"):
                j = ob.meta["idx"][1]
                a, b = np.linalg.norm(out[-1, j] - out[0, j]), np.linalg.norm(mv[-1, j] - mv[0, j])
                return model.differs(a, b, 1e-7), "chord length of section %d after twist %.9g, before %.9g" % (j, a, b)
            _, j, k = ob.meta["idx"]
            got = r * out[-1, j, k] + (1 - r) * out[0, j, k]
            return model.differs(got, rr[j, k], 1e-7), "reference axis (ref_axis_pos=%g) of section %d component %d moved from %.9g to %.9g under %s" % (r, j, k, rr[j, k], got, kind)

        nominal = {}
        for j in range(ny):
            nominal["y[%d]" % j] = float(cm[0, j, 1])
            nominal["zs[%d]" % j] = 0.05 * j
            for i in range(nx):
                nominal["x[%d,%d]" % (i, j)] = float(cm[i, j, 0]) + 0.1 * j
        run_obligations(rep, "GeometryMesh group chain [%s, ref_axis_pos=%s]" % (cn, rapv), obs, timeout, levels=(1, 2), replay=rp, nominal=nominal,
                        family=lambda ob: "GeometryMesh: " + ob.meta["family"], fixed={"taper": 0.6})


def splines(rep):
    """Equal B-spline control points give a constant distribution: the real SplineComp interpolation matrix
    (data built by OpenMDAO) has unit row sums - posed as ground queries with a 1e-12 tolerance."""
    import openmdao.api as om

    from symoas.sym import fabs

    obs = []
    for ncp in (2, 3, 5):
        for ny in (3, 5, 7):
            x_interp = np.linspace(0.0, 1.0, ny)
            c = om.SplineComp(method="bsplines", x_interp_val=x_interp, num_cp=ncp, interp_options={"order": min(ncp, 4)})
            c.add_spline(y_cp_name="cp", y_interp_name="val")
            prob = om.Problem(reports=False)
            prob.model.add_subsystem("s", c)
            prob.setup()
            prob.set_val("s.cp", np.ones((1, ncp)))
            prob.run_model()
            J = prob.compute_totals(of=["s.val"], wrt=["s.cp"])[("s.val", "s.cp")]
            for i in range(J.shape[0]):
                rs = sum((const(__import__("fractions").Fraction(float(v))) for v in J[i]), ZERO)
                obs.append(oblig.Ob("spline row sum ncp=%d ny=%d row %d" % (ncp, ny, i), cond=gt(fabs(rs - 1), S(1e-12)),
                                    meta={"family": "equal control points give a constant distribution"}))
    run_obligations(rep, "B-spline row sums", obs, 10.0, family=lambda ob: "SplineComp: " + ob.meta["family"], cut_threshold=0)


def replay_file(path):
    spec = json.load(open(path))
    print("recorded counterexample: %s" % spec.get("what"))
    print("VIOLATION property=%s replay=%s" % (PID, path))
    return 1


def group_defaults(rep, tier, timeout):
    """The real GeometryMesh group of a surface dictionary *without* any design-variable key, executed through its own
    wiring with the values its setup() gives the unpromoted inputs (in particular the default span it derives from the
    mesh): the output mesh is the input mesh.  x and z of the mesh are symbolic, y is the concrete y of the option mesh
    (the group computes its default span from that)."""
    import warnings

    import openmdao.api as om
    from openaerostruct.geometry.geometry_mesh import GeometryMesh
    from symoas import pipe

    cfgs = [("symL_2x3 root on the symmetry plane", 2, 3, True, 0.0, None), ("symL_2x3 root off the symmetry plane", 2, 3, True, -0.75, None),
            ("full_2x3", 2, 3, False, 0.0, None), ("symL_3x3 root off the plane, ref axis 0.5", 3, 3, True, -1.5, 0.5)]
    if tier == "thorough":
        cfgs += [("full_3x5 shifted", 3, 5, False, 2.0, None), ("symR_2x3 root off the plane", 2, 3, True, 0.5, None)]
    for (cn, nx, ny, symm, yshift, rapv) in cfgs:
        right = cn.startswith("symR")
        cm = K.rect_mesh(nx, ny, symm, right=right)
        cm[:, :, 1] += yshift
        over = {} if rapv is None else {"ref_axis_pos": rapv}
        surf = K.surface_from_mesh(cm, symm, name="wing", **over)
        for k in ("taper", "sweep", "dihedral", "span", "chord_cp", "twist_cp", "xshear_cp", "yshear_cp", "zshear_cp"):
            surf.pop(k, None)
        prob = om.Problem(reports=False)
        prob.model.add_subsystem("g", GeometryMesh(surface=surf))
        with warnings.catch_warnings():
            warnings.simplefilter("ignore")
            prob.setup()
            prob.final_setup()
        rep.encode(GeometryMesh)
        m = np.empty((nx, ny, 3), dtype=object)
        for i in range(nx):
            for j in range(ny):
                m[i, j, 0] = var("x[%d,%d]" % (i, j))
                m[i, j, 1] = S(float(cm[i, j, 1]))
                m[i, j, 2] = var("zs[%d]" % j)  # flat chords (dihedral allowed): the family without the known Rotate finding
        GP = pipe.GroupPipe(prob)
        GP.internal_defaults = True
        tap = prob.model.g.taper
        tap.options["mesh"] = m
        try:
            GP.run()
        finally:
            tap.options["mesh"] = cm
        out = [v for k, v in GP.vals.items() if k.endswith("g.rotate.mesh")][0]
        obs = idents("GeometryMesh(no design-variable keys)", out, m, meta={"family": "a surface without design-variable keys goes through the geometry group unchanged", "cfg": cn})

        def rp(ob, env, surf=surf, cm=cm):
            p2 = om.Problem(reports=False)
            p2.model.add_subsystem("g", GeometryMesh(surface=surf))
            with warnings.catch_warnings():
                warnings.simplefilter("ignore")
                p2.setup()
                p2.run_model()
            o = np.array(p2.get_val("g.mesh"), dtype=float)
            d = float(np.abs(o - cm).max())
            return d > 1e-9, "real GeometryMesh (%s): max |mesh_out - mesh_in| = %.6g at default values" % (ob.meta["cfg"], d)

        run_obligations(rep, "real GeometryMesh without design-variable keys [%s]" % cn, obs, timeout, replay=rp,
                        family=lambda ob: "GeometryMesh: " + ob.meta["family"])


def geometry_group_level(rep, tier, timeout):
    """The real Geometry group (B-spline control points -> spanwise distributions -> GeometryMesh transformations),
    executed through its own wiring: every distributed design variable of the mesh group is the spline of *its own*
    control points (equal control points c give the constant distribution c at every station, whatever the other
    control points are), every scalar design variable is the group's input of the same name, and t_over_c likewise."""
    import warnings

    import openmdao.api as om
    from openaerostruct.geometry.geometry_group import Geometry
    from symoas import pipe
    from symoas.sym import fabs, substitute, variables

    cfgs = [("symL_2x3", 2, 3, True, 2), ("full_3x5", 3, 5, False, 3)] if tier == "quick" else [("symL_2x3", 2, 3, True, 2), ("full_3x5", 3, 5, False, 3), ("symL_2x5", 2, 5, True, 4)]
    dist = {"twist": "rotate.twist", "chord": "scale_x.chord", "xshear": "shear_x.xshear", "yshear": "shear_y.yshear", "zshear": "shear_z.zshear"}
    scal = {"sweep": "sweep.sweep", "dihedral": "dihedral.dihedral", "taper": "taper.taper", "span": "stretch.span"}
    for (cn, nx, ny, symm, ncp) in cfgs:
        cm = K.rect_mesh(nx, ny, symm)
        surf = K.surface_from_mesh(cm, symm, name="wing", taper=1.0, sweep=0.0, dihedral=0.0, span=float((cm[0, -1, 1] - cm[0, 0, 1]) * (2 if symm else 1)),
                                   chord_cp=np.ones(ncp), twist_cp=np.zeros(ncp), xshear_cp=np.zeros(ncp), yshear_cp=np.zeros(ncp), zshear_cp=np.zeros(ncp),
                                   t_over_c_cp=0.12 * np.ones(ncp))
        prob = om.Problem(reports=False)
        prob.model.add_subsystem("geo", Geometry(surface=surf))
        with warnings.catch_warnings():
            warnings.simplefilter("ignore")
            prob.setup()
            prob.final_setup()
        rep.encode(Geometry)
        GP = pipe.GroupPipe(prob)
        GP.run()
        obs = []
        c = var("c")
        for dv, tail in dist.items():
            got = np.asarray(c17_input(GP, "geo.mesh." + tail), dtype=object).ravel()
            own = sorted({v.args[0] for x in got for v in variables([S(x)]) if (".%s_cp[" % dv) in v.args[0] or v.args[0].startswith("%s_cp[" % dv)})
            flat = [S(x) for x in got]
            sub = substitute(flat, {n: c for n in own}) if own else {x.nid: x for x in flat}
            for j, x in enumerate(flat):
                obs.append(oblig.Ob("%s station %d" % (dv, j), cond=gt(fabs(sub[x.nid] - c), S(1e-12)),
                                    meta={"family": "each distributed design variable of the mesh is the B-spline of its own control points", "dv": dv}))
        toc = [S(x) for x in np.asarray(GP.get("geo.t_over_c"), dtype=object).ravel()]
        own = sorted({v.args[0] for x in toc for v in variables([x]) if "t_over_c_cp[" in v.args[0]})
        sub = substitute(toc, {n: c for n in own}) if own else {x.nid: x for x in toc}
        for j, x in enumerate(toc):
            obs.append(oblig.Ob("t_over_c panel %d" % j, cond=gt(fabs(sub[x.nid] - c), S(1e-12)),
                                meta={"family": "t_over_c is the B-spline of the t_over_c control points", "dv": "t_over_c"}))
        for dv, tail in scal.items():
            got = S(np.asarray(c17_input(GP, "geo.mesh." + tail), dtype=object).ravel()[0])
            names = [v.args[0] for v in variables([got])]
            ok = len(names) == 1 and names[0].split("[")[0].split(".")[-1] == dv
            obs.append(oblig.Ob("%s input" % dv, cond=ne(S(1 if ok else 0), 1),
                                meta={"family": "each scalar design variable reaches the transformation of the same name", "dv": dv, "fed_by": names}))

        # what the group starts from when the user sets nothing: every design variable's own dictionary entry (all entries
        # different from each other here, so that a value taken from the wrong key shows)
        from fractions import Fraction as _Fr
        from symoas.sym import const as _const

        own_vals = {"taper": 0.7, "sweep": 12.0, "dihedral": 5.0, "span": 1.5 * surf["span"], "chord_cp": 1.0 + 0.1 * np.arange(1, ncp + 1), "twist_cp": 0.5 * np.arange(1, ncp + 1),
                    "xshear_cp": 0.01 * np.arange(1, ncp + 1), "yshear_cp": 0.02 * np.arange(1, ncp + 1), "zshear_cp": 0.03 * np.arange(1, ncp + 1), "t_over_c_cp": 0.1 + 0.01 * np.arange(1, ncp + 1)}
        surf2 = dict(surf, **own_vals)
        prob2 = om.Problem(reports=False)
        prob2.model.add_subsystem("geo", Geometry(surface=surf2))
        with warnings.catch_warnings():
            warnings.simplefilter("ignore")
            prob2.setup()
            prob2.final_setup()
        for key, want in own_vals.items():
            got_ = np.ravel(np.asarray(prob2.get_val("geo." + key), dtype=float))
            for j_, (g_, w_) in enumerate(zip(got_, np.ravel(np.asarray(want, dtype=float)))):
                obs.append(oblig.Ob("default of %s[%d]" % (key, j_), lhs=_const(_Fr(float(g_))), rhs=_const(_Fr(float(w_))),
                                    meta={"family": "without user input every design variable starts from its own dictionary entry", "dv": key, "default": True}))

        def rp(ob, env, surf=surf, nx=nx, ny=ny, surf2=surf2, own_vals=own_vals):
            if ob.meta.get("default"):
                p3 = om.Problem(reports=False)
                p3.model.add_subsystem("geo", Geometry(surface=surf2))
                with warnings.catch_warnings():
                    warnings.simplefilter("ignore")
                    p3.setup()
                    p3.final_setup()
                key = ob.meta["dv"]
                g_, w_ = np.ravel(np.asarray(p3.get_val("geo." + key), dtype=float)), np.ravel(np.asarray(own_vals[key], dtype=float))
                return bool(np.abs(g_ - w_).max() > 1e-12), "Geometry group built from a dictionary with %s = %s starts from %s = %s" % (key, np.round(w_, 6), key, np.round(g_, 6))
            return replay_geometry_group(surf, ob.meta["dv"])

        run_obligations(rep, "real Geometry group: design-variable plumbing [%s, %d control points]" % (cn, ncp), obs, timeout, replay=rp,
                        family=lambda ob: "Geometry: " + ob.meta["family"], cut_threshold=0)


def c17_input(GP, abs_in):
    src = GP.conn.get(abs_in)
    if src is None or src not in GP.vals:
        raise KeyError(abs_in)
    return GP.vals[src]


def replay_geometry_group(surf, dv):
    """the real Geometry group on floats: setting only the control points / value of one design variable to a constant
    must change exactly that distribution"""
    import warnings

    import openmdao.api as om
    from openaerostruct.geometry.geometry_group import Geometry

    def run(over):
        prob = om.Problem(reports=False)
        prob.model.add_subsystem("geo", Geometry(surface=surf))
        with warnings.catch_warnings():
            warnings.simplefilter("ignore")
            prob.setup()
            for k, v in over.items():
                prob.set_val("geo." + k, v)
            prob.run_model()
        return prob

    ncp = len(surf["twist_cp"])
    tails = {"twist": "rotate.twist", "chord": "scale_x.chord", "xshear": "shear_x.xshear", "yshear": "shear_y.yshear", "zshear": "shear_z.zshear",
             "sweep": "sweep.sweep", "dihedral": "dihedral.dihedral", "taper": "taper.taper", "span": "stretch.span"}
    val = 0.37
    if dv == "t_over_c":
        p = run({"t_over_c_cp": val * np.ones(ncp)})
        got = np.array(p.get_val("geo.t_over_c"), dtype=float)
        return np.abs(got - val).max() > 1e-9, "t_over_c_cp = %g everywhere gives t_over_c = %s" % (val, np.round(got, 6))
    name = dv + "_cp" if dv in ("twist", "chord", "xshear", "yshear", "zshear") else dv
    p = run({name: val * (np.ones(ncp) if name.endswith("_cp") else 1.0)})
    got = np.array(p.get_val("geo.mesh." + tails[dv]), dtype=float).ravel()
    bad = np.abs(got - val).max() > 1e-9
    others = []
    for o, t in tails.items():
        if o != dv:
            base = np.array(run({}).get_val("geo.mesh." + t), dtype=float).ravel()
            now = np.array(p.get_val("geo.mesh." + t), dtype=float).ravel()
            if np.abs(base - now).max() > 1e-9:
                others.append(o)
    return bad or bool(others), "%s = %g gives the %s transformation input %s%s" % (name, val, dv, np.round(got, 6), (" and changes " + ", ".join(others)) if others else "")


def multisection_vs_single(rep, tier, timeout):
    """A wing given as abutting sections (the real MultiSecGeometry group: build_sections, one Geometry group per section,
    mesh unification) against the same wing as one surface (the real Geometry group), both through their own wiring, with
    a non-default reference axis, constant chord scaling c and constant twist t (equal control points): the unified mesh
    equals the single-surface mesh node for node."""
    import warnings

    import openmdao.api as om
    from openaerostruct.geometry.geometry_group import Geometry, MultiSecGeometry
    from symoas import pipe

    cfgs = [("symmetric half, 2 sections, ref axis 0.625", True, [3, 2], 0.625)]
    if tier == "thorough":
        cfgs += [("symmetric half, 3 sections, ref axis 0.0", True, [2, 3, 2], 0.0), ("symmetric half, 2 sections, default axis", True, [3, 2], None)]
    for lab, symm, nys, rapv in cfgs:
        nx = 2
        ny = sum(nys) - (len(nys) - 1)
        cm = K.rect_mesh(nx, ny, symm)
        cm[:, :, 0] += 0.25 * np.abs(cm[:, :, 1])  # swept, so that the reference axis position matters for twist
        m = np.empty((nx, ny, 3), dtype=object)
        for i in range(nx):
            for j in range(ny):
                m[i, j, 0], m[i, j, 1], m[i, j, 2] = var("x[%d,%d]" % (i, j)), S(float(cm[i, j, 1])), var("zs[%d]" % j)
        cuts, j0 = [], 0
        for n_ in nys:
            cuts.append((j0, j0 + n_))
            j0 += n_ - 1
        common = {"symmetry": symm, "S_ref_type": "wetted", "CL0": 0.0, "CD0": 0.015, "k_lam": 0.05, "c_max_t": 0.303, "with_viscous": False,
                  "with_wave": False, "groundplane": False}
        if rapv is not None:
            common["ref_axis_pos"] = rapv
        ncp = 2
        multi = dict(common, name="surface", is_multi_section=True, num_sections=len(nys), sec_name=["sec%d" % k for k in range(len(nys))],
                     meshes=[np.array(cm[:, a:b, :]) for a, b in cuts], root_section=len(nys) - 1,
                     chord_cp=[np.ones(ncp)] * len(nys), twist_cp=[np.zeros(ncp)] * len(nys))
        single = dict(common, name="wing", mesh=np.array(cm), chord_cp=np.ones(ncp), twist_cp=np.zeros(ncp))
        c, t = var("c"), var("t")

        def run(group, taper_paths, meshes, ext):
            prob = om.Problem(reports=False)
            prob.model.add_subsystem("g", group)
            with warnings.catch_warnings():
                warnings.simplefilter("ignore")
                prob.setup()
                prob.final_setup()
            GP = pipe.GroupPipe(prob)
            GP.internal_defaults = True
            taps = [prob.model._get_subsystem(p_) for p_ in taper_paths]
            keep = [tp.options["mesh"] for tp in taps]
            for tp, mm in zip(taps, meshes):
                tp.options["mesh"] = mm
            try:
                GP.run(external=ext)
            finally:
                for tp, kk in zip(taps, keep):
                    tp.options["mesh"] = kk
            return GP

        ext_m = {}
        for k in range(len(nys)):
            ext_m["g.sec%d.chord_cp" % k] = np.array([c] * ncp, dtype=object)
            ext_m["g.sec%d.twist_cp" % k] = np.array([t] * ncp, dtype=object)
        try:
            Gm = run(MultiSecGeometry(surface=multi, shift_uni_mesh=False), ["g.sec%d.mesh.taper" % k for k in range(len(nys))], [m[:, a:b, :] for a, b in cuts], ext_m)
            Gs = run(Geometry(surface=single), ["g.mesh.taper"], [m], {"g.chord_cp": np.array([c] * ncp, dtype=object), "g.twist_cp": np.array([t] * ncp, dtype=object)})
        except Exception as e:
            rep.errors.append("multi-section geometry group could not be executed: %r" % (e,))
            return
        rep.encode(MultiSecGeometry)
        uni = [v for k_, v in Gm.vals.items() if k_.endswith("_unification.surface_uni_mesh")][0]
        one = Gs.get("g.mesh")
        obs = idents("unified mesh", uni, one, meta={"family": "a wing split into sections gives the mesh of the same wing as one surface (chord scaling and twist about the requested reference axis)", "cfg": lab})

        def rp(ob, env, multi=multi, single=single):
            def real(group, sets):
                prob = om.Problem(reports=False)
                prob.model.add_subsystem("g", group)
                with warnings.catch_warnings():
                    warnings.simplefilter("ignore")
                    prob.setup()
                    for k_, v_ in sets.items():
                        prob.set_val(k_, v_)
                    prob.run_model()
                return prob
            cv, tv = 1.5, 4.0
            sets = {}
            for k_ in range(multi["num_sections"]):
                sets["g.sec%d.chord_cp" % k_] = cv * np.ones(2)
                sets["g.sec%d.twist_cp" % k_] = tv * np.ones(2)
            pm = real(MultiSecGeometry(surface=multi, shift_uni_mesh=False), sets)
            ps = real(Geometry(surface=single), {"g.chord_cp": cv * np.ones(2), "g.twist_cp": tv * np.ones(2)})
            a = np.array(pm.get_val("g.surface_unification.surface_uni_mesh"), dtype=float)
            b = np.array(ps.get_val("g.mesh"), dtype=float)
            d = float(np.abs(a - b).max())
            return d > 1e-9, "chord x %.2g and twist %.2g deg everywhere: unified multi-section mesh differs from the single-surface mesh by %.6g" % (cv, tv, d)

        run_obligations(rep, "real MultiSecGeometry vs Geometry [%s]" % lab, obs, timeout, replay=rp, levels=(1, 2), relate=[],
                        family=lambda ob: "MultiSecGeometry: " + ob.meta["family"], fixed={"c": 1.5, "t": 4.0})
