"""CrossHair contracts on the *invalid-input domain* of the real validation code (C20).

Each function wraps the real API; `pre:` says the input is invalid, `post:` says the documented exception / warning
was produced.  Twins (`*_twin`) have an unsatisfiable postcondition and must be refuted: they show the harness reaches
the assertion.  Set-ups that succeed are not analysable by CrossHair (OpenMDAO's connection stage), so contracts are
written only on the invalid domain (DESIGN.md 3/C20).
"""
import copy
import warnings

import numpy as np
import openmdao.api as om

from openaerostruct.geometry.utils import generate_mesh
from openaerostruct.utils.check_surface_dict import check_surface_dict_keys
from openaerostruct.geometry.geometry_group import build_sections
from openaerostruct.structures.struct_groups import SpatialBeamAlone
from openaerostruct.aerodynamics.aero_groups import AeroPoint
from openaerostruct.integration.aerostruct_groups import AerostructGeometry

_MESH = generate_mesh({"num_y": 5, "num_x": 2, "wing_type": "rect", "symmetry": True})
_SURF = {
    "name": "wing", "symmetry": True, "S_ref_type": "wetted", "fem_model_type": "tube", "mesh": _MESH,
    "thickness_cp": np.array([0.1, 0.2]), "twist_cp": np.zeros(2), "CL0": 0.0, "CD0": 0.015, "k_lam": 0.05,
    "t_over_c_cp": np.array([0.15]), "c_max_t": 0.303, "with_viscous": True, "with_wave": False, "E": 70.0e9,
    "G": 30.0e9, "yield": 500.0e6 / 2.5, "mrho": 3.0e3, "fem_origin": 0.35, "wing_weight_ratio": 2.0,
    "struct_weight_relief": False, "distributed_fuel_weight": False, "exact_failure_constraint": False,
}
_WB = dict(_SURF, fem_model_type="wingbox", data_x_upper=np.linspace(0.1, 0.6, 6), data_x_lower=np.linspace(0.1, 0.6, 6),
           data_y_upper=np.full(6, 0.05), data_y_lower=np.full(6, -0.05), original_wingbox_airfoil_t_over_c=0.12,
           strength_factor_for_upper_skin=1.0, spar_thickness_cp=np.array([0.004, 0.005]), skin_thickness_cp=np.array([0.005, 0.01]),
           fuel_density=803.0, Wf_reserve=100.0)
_KEYS = None


def _warm():
    """one concrete set-up of each group outside the traced region (networkx compiles decorators lazily)"""
    for grp in (SpatialBeamAlone(surface=copy.deepcopy(_SURF)), AeroPoint(surfaces=[copy.deepcopy(_SURF)]),
                AerostructGeometry(surface=copy.deepcopy(_SURF))):
        p = om.Problem(reports=False)
        p.model.add_subsystem("g", grp)
        with warnings.catch_warnings():
            warnings.simplefilter("ignore")
            p.setup()


_warm()


def _setup_raises(group, exc) -> bool:
    p = om.Problem(reports=False)
    p.model.add_subsystem("g", group)
    try:
        with warnings.catch_warnings():
            warnings.simplefilter("ignore")
            p.setup()
    except exc:
        return True
    return False


# ------------------------------------------------------------------------------------------ mesh generator
def even_num_y_is_rejected(half: int, num_x: int, symmetry: bool) -> bool:
    """
    pre: 1 <= half <= 1000 and 2 <= num_x <= 50
    post: _ == True
    """
    try:
        with warnings.catch_warnings():
            warnings.simplefilter("ignore")
            generate_mesh({"num_y": 2 * half, "num_x": num_x, "wing_type": "rect", "symmetry": symmetry})
    except ValueError:
        return True
    return False


def even_num_y_is_rejected_twin(half: int, num_x: int, symmetry: bool) -> bool:
    """
    pre: 1 <= half <= 1000 and 2 <= num_x <= 50
    post: _ == False
    """
    return even_num_y_is_rejected(half, num_x, symmetry)


_CRM_TYPES = ("CRM", "CRM:jig", "CRM:alpha_2.75", "CRM:alpha_3.50", "CRM:jig_wind_tunnel", "uCRM_based")


def even_num_y_is_rejected_crm(half: int, num_x: int, symmetry: bool, kind: int) -> bool:
    """
    pre: 1 <= half <= 1000 and 2 <= num_x <= 50 and 0 <= kind < 6
    post: _ == True
    """
    try:
        with warnings.catch_warnings():
            warnings.simplefilter("ignore")
            generate_mesh({"num_y": 2 * half, "num_x": num_x, "wing_type": _CRM_TYPES[kind], "symmetry": symmetry})
    except ValueError:
        return True
    except NameError:  # "uCRM_based" is not a wing_type generate_mesh knows: rejected as an unknown type, loudly as well
        return True
    return False


def even_num_y_is_rejected_crm_twin(half: int, num_x: int, symmetry: bool, kind: int) -> bool:
    """
    pre: 1 <= half <= 1000 and 2 <= num_x <= 50 and 0 <= kind < 6
    post: _ == False
    """
    return even_num_y_is_rejected_crm(half, num_x, symmetry, kind)


def unknown_wing_type_is_rejected(wing_type: str) -> bool:
    """
    pre: len(wing_type) <= 5 and wing_type != "rect" and "CRM" not in wing_type
    post: _ == True
    """
    try:
        with warnings.catch_warnings():
            warnings.simplefilter("ignore")
            generate_mesh({"num_y": 5, "num_x": 2, "wing_type": wing_type, "symmetry": True})
    except NameError:
        return True
    return False


def unknown_wing_type_is_rejected_twin(wing_type: str) -> bool:
    """
    pre: len(wing_type) <= 5 and wing_type != "rect" and "CRM" not in wing_type
    post: _ == False
    """
    return unknown_wing_type_is_rejected(wing_type)


# (unknown-key warnings: CrossHair cannot exhaust the `warnings` machinery even for one-character keys; the two key loops are
#  translated from their AST to SMT over strings in props/c20_keys.py instead)


# ------------------------------------------------------------------------------------------ structural model type
def unknown_fem_model_type_is_rejected(fem_model_type: str) -> bool:
    """
    pre: len(fem_model_type) <= 7 and fem_model_type != "tube" and fem_model_type != "wingbox"
    post: _ == True
    """
    s = copy.deepcopy(_SURF)
    s["fem_model_type"] = fem_model_type
    return _setup_raises(SpatialBeamAlone(surface=s), NameError)


def unknown_fem_model_type_is_rejected_twin(fem_model_type: str) -> bool:
    """
    pre: len(fem_model_type) <= 7 and fem_model_type != "tube" and fem_model_type != "wingbox"
    post: _ == False
    """
    return unknown_fem_model_type_is_rejected(fem_model_type)


def unknown_fem_model_type_is_rejected_aerostruct(fem_model_type: str) -> bool:
    """
    pre: len(fem_model_type) <= 7 and fem_model_type != "tube" and fem_model_type != "wingbox"
    post: _ == True
    """
    s = copy.deepcopy(_SURF)
    s["fem_model_type"] = fem_model_type
    return _setup_raises(AerostructGeometry(surface=s), NameError)


def one_wingbox_thickness_is_rejected(has_skin: bool, has_spar: bool, aerostruct: bool) -> bool:
    """
    pre: has_skin != has_spar
    post: _ == True
    """
    s = copy.deepcopy(_WB)
    if not has_skin:
        del s["skin_thickness_cp"]
    if not has_spar:
        del s["spar_thickness_cp"]
    grp = AerostructGeometry(surface=s) if aerostruct else SpatialBeamAlone(surface=s)
    return _setup_raises(grp, NameError)


def one_wingbox_thickness_is_rejected_twin(has_skin: bool, has_spar: bool, aerostruct: bool) -> bool:
    """
    pre: has_skin != has_spar
    post: _ == False
    """
    return one_wingbox_thickness_is_rejected(has_skin, has_spar, aerostruct)


# ------------------------------------------------------------------------------------------ ground effect without symmetry
def ground_effect_without_symmetry_is_rejected(symmetry: bool, groundplane: bool) -> bool:
    """
    pre: groundplane and not symmetry
    post: _ == True
    """
    s = copy.deepcopy(_SURF)
    s["symmetry"] = symmetry
    s["groundplane"] = groundplane
    if not symmetry:
        s["mesh"] = generate_mesh({"num_y": 5, "num_x": 2, "wing_type": "rect", "symmetry": False})
    return _setup_raises(AeroPoint(surfaces=[s]), ValueError)


def ground_effect_without_symmetry_is_rejected_twin(symmetry: bool, groundplane: bool) -> bool:
    """
    pre: groundplane and not symmetry
    post: _ == False
    """
    return ground_effect_without_symmetry_is_rejected(symmetry, groundplane)


# ------------------------------------------------------------------------------------------ multi-section lists
def wrong_length_section_list_is_rejected(which: int, n: int) -> bool:
    """
    pre: 0 <= which <= 4 and 0 <= n <= 6 and n != 2
    post: _ == True
    """
    lens = [2, 2, 2, 2, 2]
    lens[which] = n
    n_ny, n_taper, n_span, n_sweep, n_name = lens
    surface = {
        "name": "surface", "is_multi_section": True, "num_sections": 2, "sec_name": ["sec%d" % i for i in range(n_name)],
        "symmetry": True, "S_ref_type": "wetted", "taper": [1.0] * n_taper, "span": [1.0] * n_span, "sweep": [0.0] * n_sweep,
        "chord_cp": [np.ones(2), np.ones(2)], "twist_cp": [np.zeros(2), np.zeros(2)], "root_chord": 1.0,
        "meshes": "gen-meshes", "nx": 2, "ny": [2] * n_ny, "root_section": 1,
    }
    try:
        build_sections(surface)
    except ValueError:
        return True
    return False


def wrong_length_section_list_is_rejected_twin(which: int, n: int) -> bool:
    """
    pre: 0 <= which <= 4 and 0 <= n <= 6 and n != 2
    post: _ == False
    """
    return wrong_length_section_list_is_rejected(which, n)


# ------------------------------------------------------------------------------------------ independent builders
def builders_do_not_share_options(which: int, compressible: bool, user_sref: bool, write: bool, out_dir: str) -> bool:
    """
    pre: 0 <= which <= 15 and len(out_dir) <= 3
    post: _ == True
    """
    # reproducibility between independent problems of one process: whatever options an earlier MPhys builder was given
    # (any subset `which` of the four documented keys, any values), a later builder created without options has the
    # documented defaults, and so do the groups it hands out
    from openaerostruct.mphys import AeroBuilder

    documented = {"user_specified_Sref": False, "compressible": True, "output_dir": "./", "write_solution": True}
    given = {}
    if which & 1:
        given["compressible"] = compressible
    if which & 2:
        given["user_specified_Sref"] = user_sref
    if which & 4:
        given["write_solution"] = write
    if which & 8:
        given["output_dir"] = out_dir
    first = AeroBuilder([copy.deepcopy(_SURF)], options=given)
    later = AeroBuilder([copy.deepcopy(_SURF)])
    ok = dict(later.options) == documented
    ok = ok and all(first.options[k] == (given[k] if k in given else documented[k]) for k in documented)
    grp = later.get_coupling_group_subsystem()
    post = later.get_post_coupling_subsystem()
    ok = ok and grp.options["compressible"] is True and post.options["user_specified_Sref"] is False
    ok = ok and post.options["write_solution"] is True and post.options["output_dir"] == "./"
    return bool(ok)


def builders_do_not_share_options_twin(which: int, compressible: bool, user_sref: bool, write: bool, out_dir: str) -> bool:
    """
    pre: 0 <= which <= 15 and len(out_dir) <= 3
    post: _ == False
    """
    return builders_do_not_share_options(which, compressible, user_sref, write, out_dir)
