"""Real public groups (AeroPoint, ...) set up in a real Problem and executed symbolically through their own wiring."""
from __future__ import annotations

import os
import warnings

import numpy as np

from symoas import kernels, pipe
from symoas.sym import S, ZERO, symarray, var


def aeropoint_problem(surfaces, rotational=False, compressible=False, meshes=None, vals=None, user_specified_Sref=False):
    """Problem with an IndepVarComp for the flight condition and the deformed meshes, and a real AeroPoint."""
    import openmdao.api as om
    from openaerostruct.aerodynamics.aero_groups import AeroPoint

    vals = vals or {}
    prob = om.Problem(reports=False)
    ivc = om.IndepVarComp()
    for n, v, u in (("v", 10.0, "m/s"), ("alpha", 3.0, "deg"), ("beta", 0.0, "deg"), ("Mach_number", 0.3, None), ("re", 1e6, "1/m"),
                    ("rho", 1.1, "kg/m**3"), ("cg", np.zeros(3), "m")):
        ivc.add_output(n, val=vals.get(n, v), units=u)
    if rotational:
        ivc.add_output("omega", val=vals.get("omega", np.zeros(3)), units="rad/s")
    if user_specified_Sref:
        ivc.add_output("S_ref_total", val=vals.get("S_ref_total", 10.0), units="m**2")
    for s in surfaces:
        m = s["mesh"] if meshes is None else meshes[s["name"]]
        ivc.add_output(s["name"] + "_def_mesh", val=np.asarray(m, dtype=float), units="m")
        ivc.add_output(s["name"] + "_t_over_c", val=vals.get(s["name"] + "_t_over_c", np.full(s["mesh"].shape[1] - 1, 0.12)))
    prob.model.add_subsystem("flight", ivc, promotes=["*"])
    prom = ["v", "alpha", "beta", "Mach_number", "re", "rho", "cg"] + (["omega"] if rotational else []) + (["S_ref_total"] if user_specified_Sref else [])
    prob.model.add_subsystem("aero_point_0", AeroPoint(surfaces=surfaces, rotational=rotational, compressible=compressible,
                                                       user_specified_Sref=user_specified_Sref), promotes_inputs=prom)
    for s in surfaces:
        n = s["name"]
        prob.model.connect(n + "_def_mesh", "aero_point_0." + n + ".def_mesh")
        prob.model.connect(n + "_def_mesh", "aero_point_0.aero_states." + n + "_def_mesh")
        prob.model.connect(n + "_t_over_c", "aero_point_0." + n + "_perf.t_over_c")
    with warnings.catch_warnings():
        warnings.simplefilter("ignore")
        prob.setup()
        prob.final_setup()
    return prob


def aeropoint_symbolic(surfaces, meshes, external=None, rotational=False, circulations=None, rep=None):
    """-> GroupPipe after a symbolic run of the real AeroPoint with symbolic meshes (dict name -> object array)."""
    prob = aeropoint_problem(surfaces, rotational=rotational)
    if rep is not None:
        units_check(rep, prob, "AeroPoint model (%d surface(s)%s)" % (len(surfaces), ", rotational" if rotational else ""))
    G = pipe.GroupPipe(prob, extra=kernels.EVAL_MTX_STUBS)
    ext = dict(external or {})
    for n, m in meshes.items():
        ext[n + "_def_mesh"] = m
    states = {}
    if circulations is not None:
        states["aero_point_0.aero_states.solve_matrix.circulations"] = circulations
    G.run(external=ext, states=states)
    return G


def aerostruct_problem(surface, vals=None, compressible=False, rotational=False):
    """Aerostructural model wired as in the documentation / tests/integration_tests/test_aerostruct.py; `surface` may be
    one surface dictionary or a list of them (one AerostructGeometry each, one AerostructPoint for all)."""
    import openmdao.api as om
    from openaerostruct.integration.aerostruct_groups import AerostructGeometry, AerostructPoint
    from openaerostruct.utils.constants import grav_constant

    surfaces = surface if isinstance(surface, (list, tuple)) else [surface]
    vals = vals or {}
    prob = om.Problem(reports=False)
    ivc = om.IndepVarComp()
    flow = [("v", 248.136, "m/s"), ("alpha", 5.0, "deg"), ("beta", 0.0, "deg"), ("Mach_number", 0.84, None), ("re", 1.0e6, "1/m"), ("rho", 0.38, "kg/m**3"),
            ("CT", grav_constant * 17.0e-6, "1/s"), ("R", 11.165e6, "m"), ("W0", 0.4 * 3e5, "kg"), ("speed_of_sound", 295.4, "m/s"),
            ("load_factor", 1.0, None), ("empty_cg", np.zeros(3), "m")]
    if rotational:
        flow += [("omega", np.zeros(3), "rad/s"), ("cg", np.zeros(3), "m")]
    for n, v, u in flow:
        ivc.add_output(n, val=vals.get(n, v), units=u)
    prob.model.add_subsystem("prob_vars", ivc, promotes=["*"])
    pt = "AS_point_0"
    for sf in surfaces:
        prob.model.add_subsystem(sf["name"], AerostructGeometry(surface=sf))
    prom = ["v", "alpha", "beta", "Mach_number", "re", "rho", "CT", "R", "W0", "speed_of_sound", "empty_cg", "load_factor"]
    prob.model.add_subsystem(pt, AerostructPoint(surfaces=list(surfaces), compressible=compressible, rotational=rotational), promotes_inputs=prom)
    if rotational:
        # AerostructPoint does not promote the rotational inputs of its aerodynamic states: they are reached by path
        prob.model.connect("omega", pt + ".coupled.aero_states.omega")
        prob.model.connect("cg", pt + ".coupled.aero_states.cg")
    for sf in surfaces:
        name = sf["name"]
        com = pt + "." + name + "_perf"
        prob.model.connect(name + ".local_stiff_transformed", pt + ".coupled." + name + ".local_stiff_transformed")
        prob.model.connect(name + ".nodes", pt + ".coupled." + name + ".nodes")
        prob.model.connect(name + ".mesh", pt + ".coupled." + name + ".mesh")
        if sf.get("fem_model_type", "tube") == "wingbox":
            # wired as in tests/integration_tests/test_aerostruct_wingbox_analysis.py
            for q in ("Qz", "J", "A_enc", "htop", "hbottom", "hfront", "hrear", "spar_thickness"):
                prob.model.connect(name + "." + q, com + "." + q)
            if sf.get("struct_weight_relief"):
                prob.model.connect(name + ".element_mass", pt + ".coupled." + name + ".element_mass")
            if sf.get("distributed_fuel_weight"):
                prob.model.connect("load_factor", pt + ".coupled.load_factor")
        else:
            prob.model.connect(name + ".radius", com + ".radius")
            prob.model.connect(name + ".thickness", com + ".thickness")
        prob.model.connect(name + ".nodes", com + ".nodes")
        prob.model.connect(name + ".cg_location", pt + ".total_perf." + name + "_cg_location")
        prob.model.connect(name + ".structural_mass", pt + ".total_perf." + name + "_structural_mass")
        prob.model.connect(name + ".t_over_c", com + ".t_over_c")
    with warnings.catch_warnings():
        warnings.simplefilter("ignore")
        prob.setup()
        prob.final_setup()
    return prob


def aerostruct_symbolic(surface, **kw):
    """GroupPipe over the real AerostructPoint (coupled group executed once in its own order; feedback connections and the
    outputs of the geometry group are independent symbols)."""
    from symoas.sym import bor, gt, lt

    rep = kw.pop("rep", None)
    prob = aerostruct_problem(surface, **kw)
    if rep is not None:
        units_check(rep, prob, "AerostructPoint model (%d surface%s%s)" % (len(surface) if isinstance(surface, (list, tuple)) else 1, "s" if isinstance(surface, (list, tuple)) and len(surface) > 1 else "",
                                                                             ", compressible" if kw.get("compressible") else ""))

    def big_loads(ins):  # loads well above the 1e-6 N zeroing threshold of CreateRHS (the property's admissible range)
        return [bor(gt(x, 1e-6), lt(x, -1e-6)) for x in ins["total_loads"].ravel()]

    G = pipe.GroupPipe(prob, root="AS_point_0", extra=kernels.EVAL_MTX_STUBS, skip=(".failure",), assume_for={"CreateRHS": big_loads})
    G.run()
    return G


_DOC_UNITS = {}


def documented_input_units():
    """units in which the repository's own documentation, examples and tests supply the user-level inputs of the public
    groups (`add_output("point_masses", ..., units="kg")` and the like): name -> units, kept only where all of them agree on
    the dimension.  Re-read from the analysed checkout on every run."""
    import glob
    import re

    from symoas import dims

    if _DOC_UNITS:
        return _DOC_UNITS
    root = os.environ.get("OAS_REPO", "/repo")
    seen = {}
    pat = re.compile(r'add_output\(\s*"([A-Za-z_0-9]+)"\s*,[^)]*?units\s*=\s*"([^"]+)"', re.S)
    for f in glob.glob(os.path.join(root, "openaerostruct", "docs", "**", "*.py"), recursive=True) + glob.glob(os.path.join(root, "openaerostruct", "examples", "**", "*.py"), recursive=True) + \
            glob.glob(os.path.join(root, "tests", "**", "*.py"), recursive=True):
        try:
            txt = open(f).read()
        except Exception:
            continue
        for n_, u_ in pat.findall(txt):
            seen.setdefault(n_, set()).add(u_)
    for n_, us in seen.items():
        ds = {dims.unit_dim(u_) for u_ in us}
        if len(ds) == 1 and None not in ds and () not in ds:
            _DOC_UNITS[n_] = sorted(us)[0]
    return _DOC_UNITS


def units_check(rep, prob, label):
    """No connection of the real, set-up model joins a variable that carries units with one that does not (OpenMDAO only
    warns about that and then passes the raw number on, whatever unit the source works in), and all inputs fed by one
    unconnected source agree on whether they carry units.  Ground check on the model's own metadata."""
    import collections

    m = prob.model
    metas = {}
    for io in ("input", "output"):
        for a, md in m._var_allprocs_abs2meta[io].items():
            metas[a] = md.get("units")
    bad = []
    byivc = collections.defaultdict(list)
    n = 0
    for tgt, src in m._conn_global_abs_in2out.items():
        n += 1
        if src.startswith("_auto_ivc"):
            byivc[src].append(tgt)
            continue
        if (metas.get(src) is None) != (metas.get(tgt) is None):
            bad.append("%s [%s] -> %s [%s]" % (src, metas.get(src), tgt, metas.get(tgt)))
    for src, tgts in byivc.items():
        if len({metas.get(t) is None for t in tgts}) > 1:
            bad.append("inputs promoted to one name disagree: " + ", ".join("%s [%s]" % (t, metas.get(t)) for t in tgts))
    # a model input that the repository's own documentation / examples / tests supply with units is consumed with units
    doc = documented_input_units()
    for src, tgts in byivc.items():
        for t in tgts:
            short = t.rsplit(".", 1)[-1]
            if metas.get(t) is None and short in doc:
                bad.append("%s [%s] -> %s [None]" % ("user input `%s` (documented in %s)" % (short, doc[short]), doc[short], t))
    rep.counts["obligations"] += 1
    rep.groups.append({"case": "units of connected variables: %s" % label, "connections": n, "unit_to_unitless_joins": bad})
    if bad:
        rep.counts["candidates"] += 1
        shown = 0
        for b in bad:
            ok, what = _replay_unitless_join(prob, b, metas)
            if ok:
                if shown < 3:
                    rep.violation("%s: a connection joins a variable with units and one without (no conversion takes place)" % label, b + " :: " + what, {"group": label, "join": b, "units": True})
                shown += 1
            else:
                rep.not_reproduced.append({"id": "units: " + b, "why": what})
    else:
        rep.counts["discharged"] += 1
    rep.log("%-52s connections=%d unit/unitless joins=%d" % ("units of connected variables: " + label, n, len(bad)))


def _replay_unitless_join(prob, join, metas):
    """the consuming component on its own, fed the same physical quantity once in the producer's unit and once in a
    thousand times that unit: its outputs must not change (they do when the input carries no units)"""
    import warnings

    import openmdao.api as om
    from openmdao.utils.units import unit_conversion

    try:
        src, tgt = [x.strip() for x in join.split(" -> ")]
        (src, us), (tgt, ut) = [(x.rsplit(" [", 1)[0], x.rsplit(" [", 1)[1].rstrip("]")) for x in (src, tgt)]
    except Exception:
        return False, "join between promoted inputs: no single-component replay"
    if us == "None" or ut != "None":
        return False, "the producer is the unitless side: no single-component replay"
    comp_path, var = tgt.rsplit(".", 1)
    comp = prob.model._get_subsystem(comp_path)
    try:
        unit_conversion("k" + us, us)
    except Exception:
        return False, "no scaled unit available for %s" % us
    outs = []
    rng = np.random.default_rng(5)
    base = 1.0 + rng.random(np.shape(np.asarray(prob.get_val(tgt))))
    for unit, val in ((us, base), ("k" + us, base / 1000.0)):
        try:
            opts = {k: comp.options[k] for k in comp.options._dict if k not in ("distributed", "run_root_only", "always_opt", "use_jit", "default_shape", "derivs_method", "assembled_jac_type")}
            c2 = type(comp)(**opts)
            p = om.Problem(reports=False)
            ivc = om.IndepVarComp()
            ivc.add_output(var, val=val, units=unit)
            p.model.add_subsystem("src", ivc, promotes=["*"])
            p.model.add_subsystem("c", c2, promotes=["*"])
            with warnings.catch_warnings():
                warnings.simplefilter("ignore")
                p.setup()
                p.run_model()
            outs.append({n: np.array(p.get_val("c." + n), dtype=float) for n in c2._var_rel_names["output"]})
        except Exception as e:
            return False, "stand-alone replay of %s failed: %r" % (comp_path, e)
    worst = max((float(np.abs(outs[0][n] - outs[1][n]).max()) / max(1.0, float(np.abs(outs[0][n]).max())), n) for n in outs[0])
    return worst[0] > 1e-9, "%s given the same %s in %s and in k%s: output %s differs by a relative %.3g" % (type(comp).__name__, var, us, us, worst[1], worst[0])


def wiring_check(rep, group_factory, label, family, timeout, extra=None, assume_for=None, abstract=(), values=None, skip_inputs=()):
    """by-name wiring obligations of one real group (symoas.pipe.by_name_obligations) with a numeric replay: the real
    group is run on floats and every component output is recomputed by a standalone instance of the same component fed
    with the group's same-named values."""
    import openmdao.api as om
    from symoas import model
    from symoas.model import idents, run_obligations

    defaults = {}

    def build():
        import re

        for attempt in range(3):
            prob = om.Problem(reports=False)
            prob.model.add_subsystem("g", group_factory(), promotes=["*"])
            for n, (v, u) in defaults.items():
                prob.model.set_input_defaults(n, val=v, units=u)
            try:
                with warnings.catch_warnings():
                    warnings.simplefilter("ignore")
                    prob.setup()
                    prob.final_setup()
                return prob
            except RuntimeError as e:
                # same-named inputs with different default values: the user has to pick one (OpenMDAO asks for it)
                found = re.findall(r"promoted to '([^']+)' have different (?:values|units)[^\n]*\n\s*\n\s*\S+\s+(\S+)\s+\[?([-0-9.e+]+)", str(e))
                if not found:
                    raise
                for n, u, v in found:
                    defaults[n] = (float(v), None if u in ("None", "[") else u)
        raise RuntimeError("could not set up the group")

    prob = build()
    rep.encode(type(prob.model.g))
    units_check(rep, prob, label)
    specs, G = pipe.by_name_obligations(prob, extra=extra, assume_for=assume_for, abstract=abstract, skip_inputs=skip_inputs)
    G.encode(rep)
    obs = []
    for oid, real, byn, cpath, oname in specs:
        obs += idents(oid, real, byn, assume=G.assumed, meta={"family": family, "comp": cpath, "out": oname})

    def rp(ob, env):
        return replay_wiring(build, values, ob.meta["comp"], ob.meta["out"])

    run_obligations(rep, "real %s: wiring by name" % label, obs, timeout, replay=rp, levels=(1, 2), family=lambda ob: "%s: %s" % (label, ob.meta["family"]))
    return G


def replay_wiring(build, values, cpath, oname):
    import openmdao.api as om

    prob = build()
    rng = np.random.default_rng(17)
    ivc_in = {}
    for abs_in, src in prob.model._conn_global_abs_in2out.items():
        if src.startswith("_auto_ivc"):
            ivc_in.setdefault(src, abs_in)
    for src, abs_in in ivc_in.items():
        prom = prob.model._resolver.abs2prom(abs_in, "input")
        base = np.array(prob.get_val(prom), dtype=float)
        v = (values or {}).get(prom.rsplit(".", 1)[-1])
        try:
            prob.set_val(prom, np.broadcast_to(v, base.shape) if v is not None else base * (1.0 + 0.1 * rng.random(base.shape)) + 0.05 * rng.random(base.shape))
        except Exception:
            pass
    with warnings.catch_warnings():
        warnings.simplefilter("ignore")
        prob.run_model()
    comp = prob.model._get_subsystem(cpath)
    outs_by_local = {}
    for absn in prob.model._var_allprocs_abs2meta["output"]:
        if not absn.startswith("_auto_ivc"):
            outs_by_local.setdefault(absn.rsplit(".", 1)[-1], absn)
    ins_by_local = {}
    for src, abs_in in ivc_in.items():
        ins_by_local.setdefault(abs_in.rsplit(".", 1)[-1], abs_in)
    p2 = om.Problem(reports=False)
    kw = {}
    for k in comp.options:
        if k in ("assembled_jac_type", "derivs_method", "distributed", "run_root_only", "always_opt", "use_jit", "default_shape"):
            continue
        try:
            kw[k] = comp.options[k]
        except Exception:
            pass  # a declared option that the group never set
    fresh = type(comp)(**kw)
    p2.model.add_subsystem("c", fresh, promotes=["*"])
    with warnings.catch_warnings():
        warnings.simplefilter("ignore")
        p2.setup()
        for n in comp._var_rel_names["input"]:
            u = comp._var_rel2meta[n].get("units")
            shape = np.shape(p2.get_val(n))
            val = None
            for table in (outs_by_local, ins_by_local):
                if n in table:
                    try:
                        cand = np.array(prob.get_val(table[n], units=u), dtype=float)
                    except Exception:
                        cand = None
                    if cand is not None and cand.size == int(np.prod(shape)):
                        val = cand.reshape(shape)
                        break
            if val is None:
                val = np.array(prob.get_val(cpath + "." + n), dtype=float)
            p2.set_val(n, val)
        p2.run_model()
    a = np.array(prob.get_val(cpath + "." + oname), dtype=float)
    b = np.array(p2.get_val(oname), dtype=float)
    d = float(np.abs(a - b).max())
    sc_ = max(1.0, float(np.abs(b).max()))
    return d > 1e-9 * sc_, "%s.%s in the real group differs from the same component fed with the group's same-named variables by %.6g (scale %.3g)" % (cpath, oname, d, sc_)
