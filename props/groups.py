"""Real public groups (AeroPoint, ...) set up in a real Problem and executed symbolically through their own wiring."""
from __future__ import annotations

import warnings

import numpy as np

from symoas import kernels, pipe
from symoas.sym import S, ZERO, symarray, var


def aeropoint_problem(surfaces, rotational=False, compressible=False, meshes=None, vals=None, user_specified_Sref=False):
    """Problem with an IndepVarComp for the flight condition and the deformed meshes, and a real AeroPoint."""
    import openmdao.api as om
    from openaerostruct.aerodynamics.aero_groups import AeroPoint

    vals = vals or {}
    prob = om.Problem(reports=False)
    ivc = om.IndepVarComp()
    for n, v, u in (("v", 10.0, "m/s"), ("alpha", 3.0, "deg"), ("beta", 0.0, "deg"), ("Mach_number", 0.3, None), ("re", 1e6, "1/m"),
                    ("rho", 1.1, "kg/m**3"), ("cg", np.zeros(3), "m")):
        ivc.add_output(n, val=vals.get(n, v), units=u)
    if rotational:
        ivc.add_output("omega", val=vals.get("omega", np.zeros(3)), units="rad/s")
    if user_specified_Sref:
        ivc.add_output("S_ref_total", val=vals.get("S_ref_total", 10.0), units="m**2")
    for s in surfaces:
        m = s["mesh"] if meshes is None else meshes[s["name"]]
        ivc.add_output(s["name"] + "_def_mesh", val=np.asarray(m, dtype=float), units="m")
        ivc.add_output(s["name"] + "_t_over_c", val=vals.get(s["name"] + "_t_over_c", np.full(s["mesh"].shape[1] - 1, 0.12)))
    prob.model.add_subsystem("flight", ivc, promotes=["*"])
    prom = ["v", "alpha", "beta", "Mach_number", "re", "rho", "cg"] + (["omega"] if rotational else []) + (["S_ref_total"] if user_specified_Sref else [])
    prob.model.add_subsystem("aero_point_0", AeroPoint(surfaces=surfaces, rotational=rotational, compressible=compressible,
                                                       user_specified_Sref=user_specified_Sref), promotes_inputs=prom)
    for s in surfaces:
        n = s["name"]
        prob.model.connect(n + "_def_mesh", "aero_point_0." + n + ".def_mesh")
        prob.model.connect(n + "_def_mesh", "aero_point_0.aero_states." + n + "_def_mesh")
        prob.model.connect(n + "_t_over_c", "aero_point_0." + n + "_perf.t_over_c")
    with warnings.catch_warnings():
        warnings.simplefilter("ignore")
        prob.setup()
        prob.final_setup()
    return prob


def aeropoint_symbolic(surfaces, meshes, external=None, rotational=False, circulations=None):
    """-> GroupPipe after a symbolic run of the real AeroPoint with symbolic meshes (dict name -> object array)."""
    prob = aeropoint_problem(surfaces, rotational=rotational)
    G = pipe.GroupPipe(prob, extra=kernels.EVAL_MTX_STUBS)
    ext = dict(external or {})
    for n, m in meshes.items():
        ext[n + "_def_mesh"] = m
    states = {}
    if circulations is not None:
        states["aero_point_0.aero_states.solve_matrix.circulations"] = circulations
    G.run(external=ext, states=states)
    return G


def aerostruct_problem(surface, vals=None, compressible=False, rotational=False):
    """Aerostructural model wired as in the documentation / tests/integration_tests/test_aerostruct.py; `surface` may be
    one surface dictionary or a list of them (one AerostructGeometry each, one AerostructPoint for all)."""
    import openmdao.api as om
    from openaerostruct.integration.aerostruct_groups import AerostructGeometry, AerostructPoint
    from openaerostruct.utils.constants import grav_constant

    surfaces = surface if isinstance(surface, (list, tuple)) else [surface]
    vals = vals or {}
    prob = om.Problem(reports=False)
    ivc = om.IndepVarComp()
    flow = [("v", 248.136, "m/s"), ("alpha", 5.0, "deg"), ("beta", 0.0, "deg"), ("Mach_number", 0.84, None), ("re", 1.0e6, "1/m"), ("rho", 0.38, "kg/m**3"),
            ("CT", grav_constant * 17.0e-6, "1/s"), ("R", 11.165e6, "m"), ("W0", 0.4 * 3e5, "kg"), ("speed_of_sound", 295.4, "m/s"),
            ("load_factor", 1.0, None), ("empty_cg", np.zeros(3), "m")]
    if rotational:
        flow += [("omega", np.zeros(3), "rad/s"), ("cg", np.zeros(3), "m")]
    for n, v, u in flow:
        ivc.add_output(n, val=vals.get(n, v), units=u)
    prob.model.add_subsystem("prob_vars", ivc, promotes=["*"])
    pt = "AS_point_0"
    for sf in surfaces:
        prob.model.add_subsystem(sf["name"], AerostructGeometry(surface=sf))
    prom = ["v", "alpha", "beta", "Mach_number", "re", "rho", "CT", "R", "W0", "speed_of_sound", "empty_cg", "load_factor"] + (["omega", "cg"] if rotational else [])
    prob.model.add_subsystem(pt, AerostructPoint(surfaces=list(surfaces), compressible=compressible, rotational=rotational), promotes_inputs=prom)
    for sf in surfaces:
        name = sf["name"]
        com = pt + "." + name + "_perf"
        prob.model.connect(name + ".local_stiff_transformed", pt + ".coupled." + name + ".local_stiff_transformed")
        prob.model.connect(name + ".nodes", pt + ".coupled." + name + ".nodes")
        prob.model.connect(name + ".mesh", pt + ".coupled." + name + ".mesh")
        prob.model.connect(name + ".radius", com + ".radius")
        prob.model.connect(name + ".thickness", com + ".thickness")
        prob.model.connect(name + ".nodes", com + ".nodes")
        prob.model.connect(name + ".cg_location", pt + ".total_perf." + name + "_cg_location")
        prob.model.connect(name + ".structural_mass", pt + ".total_perf." + name + "_structural_mass")
        prob.model.connect(name + ".t_over_c", com + ".t_over_c")
    with warnings.catch_warnings():
        warnings.simplefilter("ignore")
        prob.setup()
        prob.final_setup()
    return prob


def aerostruct_symbolic(surface, **kw):
    """GroupPipe over the real AerostructPoint (coupled group executed once in its own order; feedback connections and the
    outputs of the geometry group are independent symbols)."""
    from symoas.sym import bor, gt, lt

    prob = aerostruct_problem(surface, **kw)

    def big_loads(ins):  # loads well above the 1e-6 N zeroing threshold of CreateRHS (the property's admissible range)
        return [bor(gt(x, 1e-6), lt(x, -1e-6)) for x in ins["total_loads"].ravel()]

    G = pipe.GroupPipe(prob, root="AS_point_0", extra=kernels.EVAL_MTX_STUBS, skip=(".failure",), assume_for={"CreateRHS": big_loads})
    G.run()
    return G
