"""Real public groups (AeroPoint, ...) set up in a real Problem and executed symbolically through their own wiring."""
from __future__ import annotations

import warnings

import numpy as np

from symoas import kernels, pipe
from symoas.sym import S, ZERO, symarray, var


def aeropoint_problem(surfaces, rotational=False, compressible=False, meshes=None, vals=None):
    """Problem with an IndepVarComp for the flight condition and the deformed meshes, and a real AeroPoint."""
    import openmdao.api as om
    from openaerostruct.aerodynamics.aero_groups import AeroPoint

    vals = vals or {}
    prob = om.Problem(reports=False)
    ivc = om.IndepVarComp()
    for n, v, u in (("v", 10.0, "m/s"), ("alpha", 3.0, "deg"), ("beta", 0.0, "deg"), ("Mach_number", 0.3, None), ("re", 1e6, "1/m"),
                    ("rho", 1.1, "kg/m**3"), ("cg", np.zeros(3), "m")):
        ivc.add_output(n, val=vals.get(n, v), units=u)
    if rotational:
        ivc.add_output("omega", val=vals.get("omega", np.zeros(3)), units="rad/s")
    for s in surfaces:
        m = s["mesh"] if meshes is None else meshes[s["name"]]
        ivc.add_output(s["name"] + "_def_mesh", val=np.asarray(m, dtype=float), units="m")
        ivc.add_output(s["name"] + "_t_over_c", val=vals.get(s["name"] + "_t_over_c", np.full(s["mesh"].shape[1] - 1, 0.12)))
    prob.model.add_subsystem("flight", ivc, promotes=["*"])
    prom = ["v", "alpha", "beta", "Mach_number", "re", "rho", "cg"] + (["omega"] if rotational else [])
    prob.model.add_subsystem("aero_point_0", AeroPoint(surfaces=surfaces, rotational=rotational, compressible=compressible), promotes_inputs=prom)
    for s in surfaces:
        n = s["name"]
        prob.model.connect(n + "_def_mesh", "aero_point_0." + n + ".def_mesh")
        prob.model.connect(n + "_def_mesh", "aero_point_0.aero_states." + n + "_def_mesh")
        prob.model.connect(n + "_t_over_c", "aero_point_0." + n + "_perf.t_over_c")
    with warnings.catch_warnings():
        warnings.simplefilter("ignore")
        prob.setup()
        prob.final_setup()
    return prob


def aeropoint_symbolic(surfaces, meshes, external=None, rotational=False, circulations=None):
    """-> GroupPipe after a symbolic run of the real AeroPoint with symbolic meshes (dict name -> object array)."""
    prob = aeropoint_problem(surfaces, rotational=rotational)
    G = pipe.GroupPipe(prob, extra=kernels.EVAL_MTX_STUBS)
    ext = dict(external or {})
    for n, m in meshes.items():
        ext[n + "_def_mesh"] = m
    states = {}
    if circulations is not None:
        states["aero_point_0.aero_states.solve_matrix.circulations"] = circulations
    G.run(external=ext, states=states)
    return G
