"""C17 - performance and flight-condition functionals satisfy their defining identities; atmosphere consistency."""
from __future__ import annotations

import json
import time
from fractions import Fraction

import numpy as np

from symoas import cases as K
from symoas import execute, lower, model, oblig, report
from symoas.model import SymComp, idents, num_inputs, run_obligations
from symoas.npproxy import SymPPoly, symbolic_numpy
from symoas.sym import (S, Sym, band, bnot, bor, const, exp, fabs, ge, gt, le, lt, ne, symarray, var, ZERO, ONE,
                        evalf, eq)

PID = "C17"
G = S(9.80665)
TAU = Fraction(5, 1000)  # 0.5 %: this design's reading of "mutually consistent" for 4-6 digit tables
R_GAS = S(1716.49)  # ft*lbf/(slug*degR)
GAMMA = S(1.4)


def surfaces(n):
    out = [K.surface(2, 2, True, name="wing"), K.surface(2, 3, False, name="tail"), K.surface(2, 2, True, name="canard")]
    return out[:n]


def comp_replay(sc, ins, outname):
    """generic replay: real component output vs the reference DAG (rhs) evaluated at the witness"""
    def rp(ob, env):
        vals = num_inputs(ins, env)
        real = sc.real(vals)
        got = float(np.asarray(real[ob.meta["out"]]).ravel()[ob.meta.get("k", 0)])
        ref = float(evalf([ob.rhs], env)[ob.rhs.nid])
        return model.differs(got, ref), "%s.%s = %.9g, defining identity gives %.9g" % (sc.cls, ob.meta["out"], got, ref)

    return rp


def functionals(rep, tier, timeout):
    ns = [1, 2] if tier == "quick" else [1, 2, 3]
    # (every sum over surfaces is also posed with the surface list reversed: half model first, and full-span surface first)
    for n, rev in [(n_, r_) for n_ in ns for r_ in ((False, True) if n_ >= 2 else (False,))]:
        ss = surfaces(n)[::-1] if rev else surfaces(n)
        names = [s["name"] for s in ss]
        tag = "%dsurf%s" % (n, ", listed in reverse" if rev else "")
        # ---- TotalLiftDrag
        sc = SymComp("functionals.total_lift_drag", "TotalLiftDrag", surfaces=ss)
        rep.encode(type(sc.comp))
        ins = sc.inputs()
        o = sc.sym1(ins)
        Stot, rho, v = ins["S_ref_total"][0], ins["rho"][0], ins["v"][0]
        CLref = sum((ins[nm + "_CL"][0] * ins[nm + "_S_ref"][0] for nm in names), ZERO) / Stot
        CDref = sum((ins[nm + "_CD"][0] * ins[nm + "_S_ref"][0] for nm in names), ZERO) / Stot
        q = S(0.5) * rho * v * v
        obs = []
        obs += idents("CL", o["CL"], [CLref], meta={"out": "CL", "family": "CL = sum S_i CL_i / S_total"})
        obs += idents("CD", o["CD"], [CDref], meta={"out": "CD", "family": "CD = sum S_i CD_i / S_total"})
        obs += idents("L", o["L"], [q * Stot * CLref], meta={"out": "L", "family": "L = q S CL"})
        obs += idents("D", o["D"], [q * Stot * CDref], meta={"out": "D", "family": "D = q S CD"})
        # L, D also equal q * S * (the CL, CD outputs)
        obs += idents("L=qS*CLout", o["L"], [q * Stot * o["CL"][0]], meta={"out": "L", "family": "L = q S CL"})
        obs += idents("D=qS*CDout", o["D"], [q * Stot * o["CD"][0]], meta={"out": "D", "family": "D = q S CD"})
        run_obligations(rep, "TotalLiftDrag[%s]" % tag, obs, timeout, replay=comp_replay(sc, ins, None),
                        family=lambda ob: "TotalLiftDrag: " + ob.meta["family"])
        # ---- SumAreas
        sc = SymComp("functionals.sum_areas", "SumAreas", surfaces=ss)
        rep.encode(type(sc.comp))
        ins = sc.inputs()
        o = sc.sym1(ins)
        obs = idents("S_ref_total", o["S_ref_total"], [sum((ins[nm + "_S_ref"][0] for nm in names), ZERO)],
                     meta={"out": "S_ref_total", "family": "S_ref_total = sum S_i"})
        run_obligations(rep, "SumAreas[%s]" % tag, obs, timeout, replay=comp_replay(sc, ins, None),
                        family=lambda ob: "SumAreas: " + ob.meta["family"])
        # ---- Equilibrium
        sc = SymComp("functionals.equilibrium", "Equilibrium", surfaces=ss)
        rep.encode(type(sc.comp))
        ins = sc.inputs()
        o = sc.sym1(ins)
        Ws = sum((ins[nm + "_structural_mass"][0] for nm in names), ZERO)
        W = (Ws + ins["fuelburn"][0] + ins["W0"][0]) * G * ins["load_factor"][0]
        Lift = S(0.5) * ins["rho"][0] * ins["v"][0] ** 2 * ins["S_ref_total"][0] * ins["CL"][0]
        obs = idents("total_weight", o["total_weight"], [W], meta={"out": "total_weight", "family": "W = (W0+Ws+Wf) g n"})
        obs += idents("L_equals_W", o["L_equals_W"], [ONE - Lift / W], meta={"out": "L_equals_W", "family": "residual = 1 - L/W"})
        # residual vanishes exactly when lift equals weight
        obs.append(oblig.Ob("L=W => residual=0", cond=band(eq(Lift, W), ne(W, 0), ne(o["L_equals_W"][0], 0)),
                            meta={"out": "L_equals_W", "family": "residual = 0 iff L = W"}))
        obs.append(oblig.Ob("residual=0 => L=W", cond=band(eq(o["L_equals_W"][0], 0), ne(W, 0), ne(Lift, W)),
                            meta={"out": "L_equals_W", "family": "residual = 0 iff L = W"}))
        run_obligations(rep, "Equilibrium[%s]" % tag, obs, timeout, replay=comp_replay(sc, ins, None),
                        family=lambda ob: "Equilibrium: " + ob.meta["family"])
        # ---- BreguetRange
        sc = SymComp("functionals.breguet_range", "BreguetRange", surfaces=ss)
        rep.encode(type(sc.comp))
        ins = sc.inputs()
        o = sc.sym1(ins)
        Ws = sum((ins[nm + "_structural_mass"][0] for nm in names), ZERO)
        arg = ins["R"][0] * ins["CT"][0] / (ins["speed_of_sound"][0] * ins["Mach_number"][0]) * ins["CD"][0] / ins["CL"][0]
        obs = idents("fuelburn", o["fuelburn"], [(ins["W0"][0] + Ws) * (exp(arg) - ONE)],
                     meta={"out": "fuelburn", "family": "fuelburn = (W0+Ws)(exp(R CT/(a M) CD/CL) - 1)"})
        run_obligations(rep, "BreguetRange[%s]" % tag, obs, timeout, replay=comp_replay(sc, ins, None),
                        family=lambda ob: "BreguetRange: " + ob.meta["family"], levels=(1, 2))
        # ---- CenterOfGravity
        sc = SymComp("functionals.center_of_gravity", "CenterOfGravity", surfaces=ss)
        rep.encode(type(sc.comp))
        ins = sc.inputs()
        o = sc.sym1(ins)
        g = G * ins["load_factor"][0]
        mtot = ins["total_weight"][0] / g - ins["fuelburn"][0]  # mass without fuel (fuel assumed at the cg)
        ref = [(ins["W0"][0] * ins["empty_cg"][k] + sum((ins[nm + "_cg_location"][k] * ins[nm + "_structural_mass"][0]
                                                         for nm in names), ZERO)) / mtot for k in range(3)]
        obs = idents("cg", o["cg"], ref, meta={"out": "cg", "family": "cg = mass-weighted mean"})
        for ob in obs:
            ob.meta["k"] = ob.meta["idx"][0]
        # with total_weight consistent with Equilibrium, the denominator is W0 + Ws
        Ws = sum((ins[nm + "_structural_mass"][0] for nm in names), ZERO)
        tw = (Ws + ins["fuelburn"][0] + ins["W0"][0]) * g
        from symoas.sym import subst1
        for k in range(3):
            lhs = subst1(o["cg"][k], {"total_weight[0]": tw})
            num = ins["W0"][0] * ins["empty_cg"][k] + sum((ins[nm + "_cg_location"][k] * ins[nm + "_structural_mass"][0] for nm in names), ZERO)
            obs.append(oblig.Ob("cg[%d] with W from Equilibrium" % k, lhs=lhs, rhs=num / (ins["W0"][0] + Ws),
                                meta={"out": "cg", "k": k, "family": "cg = (W0 cg0 + sum m_i cg_i)/(W0 + sum m_i)",
                                      "no_replay": True}))
        run_obligations(rep, "CenterOfGravity[%s]" % tag, obs, timeout,
                        replay=lambda ob, env, sc=sc, ins=ins: (None, "derived identity") if ob.meta.get("no_replay") else comp_replay(sc, ins, None)(ob, env),
                        family=lambda ob: "CenterOfGravity: " + ob.meta["family"])
        # ---- MomentCoefficient (in the order given and in the reverse order: the symmetry convention of one surface must not
        # touch what the surfaces before it contributed)
        for ss_m, tag_m in ([(ss, tag)] + ([(ss[::-1], tag + ", reverse order")] if (n >= 2 and not rev) else [])):
            sc = SymComp("functionals.moment_coefficient", "MomentCoefficient", surfaces=ss_m)
            rep.encode(type(sc.comp))
            ins = sc.inputs()
            o = sc.sym1(ins)
            cg = ins["cg"]
            Mref = [ZERO, ZERO, ZERO]
            for j, s in enumerate(ss_m):
                nm = s["name"]
                b = ins[nm + "_b_pts"]
                F = ins[nm + "_sec_forces"]
                nxm, nym = F.shape[0], F.shape[1]
                m = [ZERO, ZERO, ZERO]
                for i in range(nxm):
                    for jj in range(nym):
                        p = [(b[i, jj + 1, k] + b[i, jj, k]) * S(0.5) - cg[k] for k in range(3)]
                        f = [F[i, jj, k] for k in range(3)]
                        m[0] = m[0] + p[1] * f[2] - p[2] * f[1]
                        m[1] = m[1] + p[2] * f[0] - p[0] * f[2]
                        m[2] = m[2] + p[0] * f[1] - p[1] * f[0]
                if s["symmetry"]:
                    m = [ZERO, m[1] * 2, ZERO]  # documented convention: both halves, x/z moments cancel
                Mref = [Mref[k] + m[k] for k in range(3)]
                if j == 0:
                    ch = ins[nm + "_chords"]
                    w = ins[nm + "_widths"]
                    pc = [(ch[t + 1] + ch[t]) * S(0.5) for t in range(len(w))]
                    MAC = sum((pc[t] * pc[t] * w[t] for t in range(len(w))), ZERO) / ins[nm + "_S_ref"][0]
                    if s["symmetry"]:
                        MAC = MAC * 2
            q = S(0.5) * ins["rho"][0] * ins["v"][0] ** 2
            obs = idents("M", o["M"], Mref, meta={"out": "M", "family": "M = sum (b - cg) x F"})
            obs += idents("CM", o["CM"], [Mref[k] / (q * ins["S_ref_total"][0] * MAC) for k in range(3)],
                          meta={"out": "CM", "family": "CM = M / (q S_ref MAC_0)"})
            for ob in obs:
                ob.meta["k"] = ob.meta["idx"][0]
            run_obligations(rep, "MomentCoefficient[%s]" % tag_m, obs, timeout, replay=comp_replay(sc, ins, None),
                            family=lambda ob: "MomentCoefficient: " + ob.meta["family"])
    # ---- ReynoldsComp
    sc = SymComp("common.reynolds_comp", "ReynoldsComp")
    rep.encode(type(sc.comp))
    ins = sc.inputs()
    o = sc.sym1(ins)
    obs = idents("re", o["re"], [ins["rho"][0] * ins["v"][0] / ins["mu"][0]], meta={"out": "re", "family": "re = rho v / mu"})
    run_obligations(rep, "ReynoldsComp", obs, timeout, replay=comp_replay(sc, ins, None),
                    family=lambda ob: "ReynoldsComp: " + ob.meta["family"])


# ------------------------------------------------------------------------------------ atmosphere
SI_UNITS = {"T": "K", "P": "Pa", "rho": "kg/m**3", "speed_of_sound": "m/s", "mu": "Pa*s", "v": "m/s", "re": "1/m"}
R_GAS_SI = S(287.05)  # J/(kg K); 1716.49 ft lbf/(slug degR)


def declared_units(comp):
    """units each variable is declared in (what every consumer of the variable converts from)"""
    return {n: m.get("units") for n, m in comp._var_rel2meta.items()}


def to_si(units, name, value):
    """value of `name`, declared in `units[name]`, expressed in SI by OpenMDAO's own conversion table"""
    from openmdao.utils.units import unit_conversion

    f, off = unit_conversion(units[name], SI_UNITS[name])
    return (value + off) * f


def atmos_stubs():
    import openaerostruct.common.atmos_comp as ac

    names = ["T_interp", "P_interp", "rho_interp", "a_interp", "viscosity_interp"]
    st = {}
    for n in names:
        st[n] = SymPPoly(getattr(ac, n))
        st[n + "_deriv"] = SymPPoly(getattr(ac, n + "_deriv"))
    return {"openaerostruct.common.atmos_comp": st}, ac


def atmosphere(rep, tier, timeout, kinds=None):
    """kinds: restrict the obligation kinds (C01 reuses the derivative-consistency part)"""
    from symoas import diff
    from symoas.harness import CompRunner

    extra, ac = atmos_stubs()
    rep.stubs.add("scipy Akima1DInterpolator/PPoly -> exact evaluation of the concrete coefficient arrays (c, x); interval by fork")
    sc = SymComp("common.atmos_comp", "AtmosComp", extra=extra)
    rep.encode(type(sc.comp))
    r = sc.runner
    alt = var("altitude[0]")
    mach = var("Mach_number[0]")
    ins = {"altitude": np.array([alt], dtype=object), "Mach_number": np.array([mach], dtype=object)}
    x = ac.USatm1976Data.alt
    lo, hi = const(Fraction(float(x[0]))), const(Fraction(float(x[-1])))
    assume = [ge(alt, lo), lt(alt, hi)]
    t0 = time.time()
    paths = r.run(ins, assumptions=assume, do_partials=True, arbitrary_state=False, max_paths=400, extra=extra)
    rep.log("AtmosComp: %d paths (table intervals) in %.1fs, %d feasibility queries" % (
        len(paths), time.time() - t0, execute.CTX.feas_queries))
    tol = S(1e-12)
    D = ac.USatm1976Data
    slope = {n: float(np.max(np.abs(np.diff(getattr(D, t)) / np.diff(D.alt)))) for n, t in
             (("T", "T"), ("P", "P"), ("rho", "rho"), ("speed_of_sound", "a"), ("mu", "viscosity"))}
    slope["v"] = slope["speed_of_sound"]
    obs = []
    for pi, p in enumerate(paths):
        res = p.result
        o = res["outputs"]
        pa = assume + p.conds
        J = res["jac"]
        T, P, rho, a, mu, v = (o[n][0] for n in ("T", "P", "rho", "speed_of_sound", "mu", "v"))
        meta = {"pi": pi, "path": "interval %d" % pi}
        # C01 for AtmosComp, with a 1e-12 relative tolerance: scipy rounds 3*c, 2*c when it builds the derivative
        for name, val in (("T", T), ("P", P), ("rho", rho), ("speed_of_sound", a), ("mu", mu), ("v", v)):
            d = diff.diff_all([val], alt)[0]
            jc = S(J[(name, "altitude")].ravel()[0])
            scale = S(slope[name]) * (fabs(mach) + 1 if name == "v" else ONE)
            obs.append(oblig.Ob("p%d d%s/dalt" % (pi, name), cond=gt(fabs(jc - d), tol * (fabs(d) + fabs(jc) + scale)), assume=pa,
                                meta=dict(meta, out=name, family="AtmosComp d%s/daltitude == derivative of the interpolant" % name,
                                          kind="deriv")))
        obs.append(oblig.Ob("p%d dv/dM" % pi, lhs=S(J[("v", "Mach_number")].ravel()[0]), rhs=a, assume=pa,
                            meta=dict(meta, out="v", family="AtmosComp dv/dMach == a", kind="ident")))
        # the relations between outputs are physical statements: each output is taken in the units it is *declared* in
        # (that is what a consumer sees) and expressed in SI
        U = declared_units(sc.comp)
        Ts, Ps, rhos, as_, vs = (to_si(U, n, S(x)) for n, x in (("T", T), ("P", P), ("rho", rho), ("speed_of_sound", a), ("v", v)))
        obs.append(oblig.Ob("p%d v=Ma" % pi, lhs=vs, rhs=mach * as_, assume=pa,
                            meta=dict(meta, out="v", family="AtmosComp v == M a", kind="vMa")))
        # physical consistency (ideal gas, speed of sound), tolerance TAU chosen independently of the tree
        obs.append(oblig.Ob("p%d gas law" % pi, cond=gt(fabs(Ps - rhos * R_GAS_SI * Ts), const(TAU) * Ps), assume=pa,
                            meta=dict(meta, out="P", family="AtmosComp ideal gas |P - rho R T| <= 0.5% P", kind="gas")))
        obs.append(oblig.Ob("p%d a^2=gRT" % pi, cond=gt(fabs(as_ * as_ - GAMMA * R_GAS_SI * Ts), const(TAU) * as_ * as_), assume=pa,
                            meta=dict(meta, out="speed_of_sound", family="AtmosComp a^2 = gamma R T within 0.5%", kind="sound")))
        obs.append(oblig.Ob("p%d positive" % pi, cond=bor(le(T, 0), le(P, 0), le(rho, 0), le(a, 0), le(mu, 0)), assume=pa,
                            meta=dict(meta, out="T", family="AtmosComp outputs positive", kind="pos")))
    # continuity at interior breakpoints: consecutive pieces agree at the shared node (ground queries)
    pieces = {n: extra["openaerostruct.common.atmos_comp"][n] for n in ("T_interp", "P_interp", "rho_interp", "a_interp", "viscosity_interp")}
    for n, pp in pieces.items():
        for k in range(len(pp.x) - 2):
            xb = const(pp.x[k + 1])
            left, right = pp.piece(k, xb), pp.piece(k + 1, xb)
            obs.append(oblig.Ob("continuity %s@%d" % (n, k + 1), cond=gt(fabs(left - right), S(1e-9) * fabs(right)),
                                meta={"pi": -1, "out": n, "family": "AtmosComp %s continuous at table nodes" % n, "kind": "cont"}))

    # the table covers the documented altitude range of the 1976 standard atmosphere as tabulated here: -1000 ft to 150 000 ft
    # (stated here, not read from the code: the intervals above are whatever the code's table spans)
    for lab_, got_, want_ in (("first", float(x[0]), -1000.0), ("last", float(x[-1]), 150000.0)):
        obs.append(oblig.Ob("%s tabulated altitude" % lab_, lhs=const(Fraction(got_)), rhs=const(Fraction(want_)),
                            meta={"pi": -1, "out": "T", "family": "AtmosComp tabulated altitudes span -1000 ft to 150000 ft", "kind": "range"}))

    def replay(ob, env):
        if ob.meta.get("kind") == "range":
            bad_ = []
            for hh in (-999.0, 104000.0, 149000.0):
                rr = sc.real({"altitude": [hh], "Mach_number": [0.5]})
                vals_ = [float(rr[n][0]) for n in ("T", "P", "rho", "speed_of_sound", "mu")]
                if not all(np.isfinite(v_) and v_ > 0 for v_ in vals_):
                    bad_.append("altitude %.0f ft: T, P, rho, a, mu = %s" % (hh, vals_))
                elif hh > 100000:
                    # pressure against the published 1976 value at 104 000 ft / 149 000 ft is not hard-coded: hydrostatic sanity
                    r2 = sc.real({"altitude": [hh + 1000.0], "Mach_number": [0.5]})
                    dP = (float(rr["P"][0]) - float(r2["P"][0])) * 6894.757  # psi -> Pa over 1000 ft
                    w = float(rr["rho"][0]) * 515.3788 * 9.80665 * 304.8  # rho g dh in Pa
                    if not (0.5 * w < dP < 2.0 * w):
                        bad_.append("altitude %.0f ft: pressure drops %.4g Pa over the next 1000 ft, the air column weighs %.4g Pa" % (hh, dP, w))
            return bool(bad_), "; ".join(bad_) or "finite, positive and hydrostatically plausible over the documented range"
        h = env.get("altitude[0]")
        if h is None:
            return None, "no altitude in witness"
        Mv = env.get("Mach_number[0]", 0.5)
        real = sc.real({"altitude": [h], "Mach_number": [Mv]})
        U = declared_units(sc.comp)
        T, P, rho, a, v = (float(to_si(U, n, float(real[n][0]))) for n in ("T", "P", "rho", "speed_of_sound", "v"))
        kind = ob.meta.get("kind")
        if kind == "gas":
            resid = abs(P - rho * 287.05 * T) / P
            return resid > float(TAU), "altitude %.6g ft: P=%.6g Pa, rho R T = %.6g Pa (declared units converted to SI), relative gas-law residual %.4g" % (
                h, P, rho * 287.05 * T, resid)
        if kind == "sound":
            resid = abs(a * a - 1.4 * 287.05 * T) / (a * a)
            return resid > float(TAU), "altitude %.6g ft: a = %.6g m/s (as declared), sqrt(gamma R T) = %.6g m/s, relative residual of a^2 %.4g" % (h, a, (1.4 * 287.05 * T) ** 0.5, resid)
        if kind == "vMa":
            return model.differs(v, Mv * a, 1e-9), "altitude %.6g ft, M = %.4g: v = %.9g m/s, M a = %.9g m/s (each in its declared units, converted to SI)" % (h, Mv, v, Mv * a)
        if kind == "pos":
            return min(T, P, rho, a) <= 0, "altitude %.6g: T,P,rho,a = %r" % (h, (T, P, rho, a))
        if kind in ("deriv", "ident"):
            # the partials the real component reports against central differences of its own outputs (raw declared units)
            import warnings

            import openmdao.api as om

            name = ob.meta["out"]
            wrt = "Mach_number" if "dMach" in ob.meta["family"] else "altitude"
            if "v == M a" in ob.meta["family"]:
                return None, "identity between outputs: replayed under kind vMa"

            def outs(hh, mm):
                rr = sc.real({"altitude": [hh], "Mach_number": [mm]})
                return float(rr[name][0])

            pr = om.Problem(reports=False)
            pr.model.add_subsystem("c", type(sc.comp)(), promotes=["*"])
            with warnings.catch_warnings():
                warnings.simplefilter("ignore")
                pr.setup()
                pr.set_val("altitude", h)
                pr.set_val("Mach_number", Mv)
                pr.run_model()
                ana = float(np.ravel(pr.compute_totals(of=[name], wrt=[wrt], return_format="array"))[0])
            step = 1e-2 if wrt == "altitude" else 1e-6
            fd = (outs(h + step, Mv) - outs(h - step, Mv)) / (2 * step) if wrt == "altitude" else (outs(h, Mv + step) - outs(h, Mv - step)) / (2 * step)
            return abs(ana - fd) > 1e-5 * max(abs(ana), abs(fd), 1e-12), "altitude %.6g ft, M = %.4g: reported d%s/d%s = %.9g, central difference %.9g" % (h, Mv, name, wrt, ana, fd)
        return None, "no numeric replay for kind %s" % kind

    if kinds is not None:
        obs = [o for o in obs if o.meta.get("kind") in kinds]
    # every path has its own conditions but shares the lowerer (expressions are small)
    run_obligations(rep, "AtmosComp[%d intervals]" % len(paths), obs, timeout, replay=replay,
                    family=lambda ob: ob.meta["family"] + (" near %s" % _interval_name(ob, x) if ob.meta.get("kind") in ("gas", "sound") else ""),
                    box=(float(x[0]), float(x[-1])), max_replays=1, cut_threshold=0)
    rep.bounds["atmosphere_intervals"] = len(paths)
    rep.assumptions.append("ideal-gas / speed-of-sound consistency tolerance tau = 0.5%% (R = 287.05 J/kg/K, gamma = 1.4; every output converted from its declared units to SI with OpenMDAO's unit table)")


def _interval_name(ob, x):
    pi = ob.meta.get("pi", -1)
    return "table interval #%d" % pi


def AS_input(GP, abs_in):
    """value a GroupPipe fed into the absolute input name (through the model's own connection table)"""
    src = GP.conn.get(abs_in)
    if src is None or src not in GP.vals:
        raise KeyError(abs_in)
    a = np.asarray(GP.vals[src], dtype=object)
    return a.reshape(tuple(GP.meta_in[abs_in]["shape"])) if a.size == int(np.prod(GP.meta_in[abs_in]["shape"])) else a


def replay_aerostruct(surfs):
    """the real coupled model on floats: defining identities of the point's functionals from the per-surface outputs"""
    from props import groups

    import copy

    surfs = [copy.deepcopy(x) for x in surfs]
    for k, x in enumerate(surfs):  # the surfaces apart from each other (the symbolic run does not care, the real kernels do)
        x["mesh"] = np.array(x["mesh"], dtype=float) + np.array([6.0 * k, 0.0, 1.0 * k])
    prob = groups.aerostruct_problem(list(surfs) if len(surfs) > 1 else surfs[0], vals={"alpha": 3.0, "Mach_number": 0.5, "v": 150.0, "rho": 0.9, "W0": 2000.0, "R": 2.0e6})
    prob.run_model()
    P = "AS_point_0."
    names = [x["name"] for x in surfs]
    Si = [float(prob.get_val(P + "coupled.%s.S_ref" % n)[0]) for n in names]
    CLi = [float(prob.get_val(P + "%s_perf.CL" % n)[0]) for n in names]
    CDi = [float(prob.get_val(P + "%s_perf.CD" % n)[0]) for n in names]
    St = float(prob.get_val(P + "total_perf.S_ref_total")[0])
    CL, CD = float(prob.get_val(P + "CL")[0]), float(prob.get_val(P + "CD")[0])
    bad = []
    if model.differs(St, sum(Si), 1e-8):
        bad.append("S_ref_total = %.9g, sum of the surface areas = %.9g" % (St, sum(Si)))
    if model.differs(CL, sum(a * b for a, b in zip(Si, CLi)) / sum(Si), 1e-8):
        bad.append("CL = %.9g, area-weighted surface CL = %.9g" % (CL, sum(a * b for a, b in zip(Si, CLi)) / sum(Si)))
    if model.differs(CD, sum(a * b for a, b in zip(Si, CDi)) / sum(Si), 1e-8):
        bad.append("CD = %.9g, area-weighted surface CD = %.9g" % (CD, sum(a * b for a, b in zip(Si, CDi)) / sum(Si)))
    return bool(bad), "; ".join(bad) or "the real coupled model satisfies the identities"


def group_level(rep, tier, timeout):
    """total_perf of the real AerostructPoint and AeroPoint groups, executed through their own wiring: the identities hold
    between the *group's own* variables (which coefficient, area, mass and fuel burn reaches which functional)."""
    from props import groups

    s1 = K.surface(2, 3, True)
    s1.update({"thickness_cp": np.array([0.1, 0.2]), "twist_cp": np.zeros(2)})
    s2 = K.surface(2, 2, True, name="tail")
    s2.update({"thickness_cp": np.array([0.1]), "twist_cp": np.zeros(1)})
    sw = K.surface(2, 3, True, fem_model_type="wingbox")  # wingbox structure: same functionals, other structural groups
    sw.pop("radius_cp", None)
    sw.pop("thickness_cp", None)
    for surfs in ([s1], [s1, s2], [sw]):
        names = [x["name"] for x in surfs]
        AS = groups.aerostruct_symbolic(surfs if len(surfs) > 1 else surfs[0], rep=rep)
        AS.encode(rep)
        v = lambda n: AS.get(n)
        P = "AS_point_0."
        g = lambda n: AS.vals[n]
        rho, vel = g("prob_vars.rho")[0], g("prob_vars.v")[0]
        W0, n_, R, CT, a, M = (g("prob_vars." + k)[0] for k in ("W0", "load_factor", "R", "CT", "speed_of_sound", "Mach_number"))
        Ws_i = {n: g("%s.struct_setup.structural_mass.structural_mass" % n)[0] for n in names}
        Ws = sum(Ws_i.values(), ZERO)
        Sref_i = {n: (v(P + "coupled.%s.aero_geom.S_ref" % n)[0] if (P + "coupled.%s.aero_geom.S_ref" % n) in AS.vals else v(P + "coupled.%s.S_ref" % n)[0]) for n in names}
        Stot = v(P + "total_perf.sum_areas.S_ref_total")[0]
        CLs = {n: v(P + "%s_perf.aero_funcs.CL.CL" % n)[0] for n in names}
        CDs = {n: v(P + "%s_perf.aero_funcs.CD.CD" % n)[0] for n in names}
        CL, CD = v(P + "total_perf.CL_CD.CL")[0], v(P + "total_perf.CL_CD.CD")[0]
        fb = v(P + "total_perf.fuelburn.fuelburn")[0]
        LW = v(P + "total_perf.L_equals_W.L_equals_W")[0]
        tw = v(P + "total_perf.L_equals_W.total_weight")[0]
        cg = v(P + "total_perf.CG.cg")
        q = S(0.5) * rho * vel * vel
        tag = " (%d surface%s)" % (len(names), "s" if len(names) > 1 else "")
        obs = [
            oblig.Ob("S_ref_total == sum of the surface areas", lhs=Stot, rhs=sum(Sref_i.values(), ZERO), meta={"family": "reference area of the point is the sum of the surface areas of the same group" + tag}),
            oblig.Ob("CL == sum S_i CL_i / S_total", lhs=CL, rhs=sum((CLs[n] * Sref_i[n] for n in names), ZERO) / Stot, meta={"family": "aircraft CL is the area-weighted surface CL of the same group" + tag}),
            oblig.Ob("CD == sum S_i CD_i / S_total", lhs=CD, rhs=sum((CDs[n] * Sref_i[n] for n in names), ZERO) / Stot, meta={"family": "aircraft CD is the area-weighted surface CD of the same group" + tag}),
            oblig.Ob("fuelburn == Breguet(total CL, CD)", lhs=fb, rhs=(W0 + Ws) * (exp(R * CT / a / M * CD / CL) - ONE),
                     meta={"family": "fuel burn follows the Breguet equation with the aircraft CL and CD and the structural mass of the same group" + tag}),
            oblig.Ob("total_weight", lhs=tw, rhs=(Ws + fb + W0) * G * n_, meta={"family": "total weight uses the structural mass and the fuel burn of the same group" + tag}),
            oblig.Ob("L_equals_W", lhs=LW, rhs=ONE - q * Stot * CL / ((Ws + fb + W0) * G * n_), meta={"family": "lift-equals-weight residual uses the aircraft CL, the summed area and the fuel burn of the same group" + tag}),
        ]
        ecg = g("prob_vars.empty_cg")
        cgl = {n: g("%s.struct_setup.structural_cg.cg_location" % n) for n in names}
        for k in range(3):
            obs.append(oblig.Ob("cg[%d]" % k, lhs=cg[k], rhs=(W0 * ecg[k] + sum((Ws_i[n] * cgl[n][k] for n in names), ZERO)) / (tw / (G * n_) - fb),
                                meta={"family": "aircraft cg is the mass-weighted mean of the empty and structural cg of the same group" + tag}))
        # the moment functional is fed the geometry of the surface whose name it carries
        for n in names:
            for q_, src in (("b_pts", "b_pts"), ("widths", "widths"), ("chords", "chords"), ("S_ref", "S_ref")):
                try:
                    got = AS_input(AS, P + "total_perf.moment.%s_%s" % (n, q_))
                    want = v(P + "coupled.%s.aero_geom.%s" % (n, src)) if (P + "coupled.%s.aero_geom.%s" % (n, src)) in AS.vals else v(P + "coupled.%s.%s" % (n, src))
                except KeyError:
                    continue
                obs += idents("moment input %s_%s" % (n, q_), got, want, meta={"family": "the moment functional receives each surface's own geometry" + tag})

        def rp(ob, env, surfs=surfs):
            return replay_aerostruct(surfs)

        run_obligations(rep, "real AerostructPoint group: total_perf wiring" + tag, obs, timeout, levels=(1, 2), replay=rp, family=lambda ob: "AerostructPoint: " + ob.meta["family"])
    # AeroPoint with a user-specified reference area: the given area must be the one that normalises CL, CD and CM
    import openmdao.api as om
    from openaerostruct.aerodynamics.aero_groups import AeroPoint
    from symoas import kernels, pipe

    ss = [K.surface(2, 2, True, name="wing"), K.surface(2, 3, False, name="tail")]
    for user in (False, True):
        prob = groups.aeropoint_problem(ss, user_specified_Sref=user)
        GP = pipe.GroupPipe(prob, extra=kernels.EVAL_MTX_STUBS)
        GP.run()
        GP.encode(rep)
        gv = GP.get
        S_i = {n: gv("aero_point_0.%s.S_ref" % n)[0] for n in ("wing", "tail")}
        CL_i = {n: gv("aero_point_0.%s_perf.CL" % n)[0] for n in ("wing", "tail")}
        CD_i = {n: gv("aero_point_0.%s_perf.CD" % n)[0] for n in ("wing", "tail")}
        Stot = GP.vals["flight.S_ref_total"][0] if user else gv("aero_point_0.total_perf.S_ref_total")[0]
        obs = [oblig.Ob("CL", lhs=gv("aero_point_0.CL")[0], rhs=(CL_i["wing"] * S_i["wing"] + CL_i["tail"] * S_i["tail"]) / Stot,
                        meta={"family": "aircraft CL is the area-weighted sum normalised by the %s reference area" % ("user-specified" if user else "summed")}),
               oblig.Ob("CD", lhs=gv("aero_point_0.CD")[0], rhs=(CD_i["wing"] * S_i["wing"] + CD_i["tail"] * S_i["tail"]) / Stot,
                        meta={"family": "aircraft CD is the area-weighted sum normalised by the %s reference area" % ("user-specified" if user else "summed")})]
        # CM: summed moment about the cg / (q * S_total * MAC of the first surface)
        Mv = gv("aero_point_0.total_perf.M") if False else None
        if not user:
            obs.append(oblig.Ob("S_ref_total", lhs=Stot, rhs=S_i["wing"] + S_i["tail"], meta={"family": "summed reference area"}))
        def rp_ap(ob, env, user=user):
            # the real AeroPoint on floats (surfaces apart from each other), identities between its own outputs
            import copy

            s2 = [copy.deepcopy(x) for x in ss]
            s2[1]["mesh"] = s2[1]["mesh"] + np.array([5.0, 0.0, 0.6])
            pr = groups.aeropoint_problem(s2, user_specified_Sref=user, vals={"alpha": 4.0, "v": 60.0, "rho": 0.9, "S_ref_total": 7.5})
            pr.run_model()
            gvv = lambda n: float(np.ravel(pr.get_val(n))[0])
            Si = [gvv("aero_point_0.%s.S_ref" % n) for n in ("wing", "tail")]
            St = 7.5 if user else gvv("aero_point_0.total_perf.S_ref_total")
            bad = []
            for q in ("CL", "CD"):
                want = sum(gvv("aero_point_0.%s_perf.%s" % (n, q)) * a_ for n, a_ in zip(("wing", "tail"), Si)) / St
                if model.differs(gvv("aero_point_0.%s" % q), want, 1e-9):
                    bad.append("%s = %.9g, area-weighted sum / reference area = %.9g" % (q, gvv("aero_point_0.%s" % q), want))
            if not user and model.differs(St, sum(Si), 1e-9):
                bad.append("S_ref_total = %.9g, sum of the surface areas %.9g" % (St, sum(Si)))
            return bool(bad), "; ".join(bad) or "real AeroPoint satisfies the identities"

        run_obligations(rep, "real AeroPoint group: total_perf wiring (user_specified_Sref=%s)" % user, obs, timeout, levels=(1, 2),
                        family=lambda ob: "AeroPoint: " + ob.meta["family"], replay=rp_ap)


def run(tier, seed, only=None):
    rep = report.Report(PID, tier, seed)
    timeout = 20.0 if tier == "quick" else 60.0
    if not only or "functionals" in only:
        functionals(rep, tier, timeout)
    if not only or "group" in only:
        group_level(rep, tier, timeout)
        atmos_group_level(rep, tier, timeout)
        from props import groups
        from openaerostruct.aerodynamics.functionals import VLMFunctionals
        from openaerostruct.functionals.total_aero_performance import TotalAeroPerformance
        from openaerostruct.functionals.total_performance import TotalPerformance

        fam = "every component of the group works on the group's own variables of the same name"
        sa = K.surface(2, 3, True, with_viscous=True, with_wave=True)
        sb = K.surface(2, 2, True, name="tail")
        groups.wiring_check(rep, lambda: VLMFunctionals(surface=sa), "VLMFunctionals(viscous, wave)", fam, timeout)
        for user in (False, True):
            groups.wiring_check(rep, lambda user=user: TotalAeroPerformance(surfaces=[sa, sb], user_specified_Sref=user), "TotalAeroPerformance(user_specified_Sref=%s)" % user, fam, timeout)
            groups.wiring_check(rep, lambda user=user: TotalPerformance(surfaces=[sa, sb], user_specified_Sref=user, internally_connect_fuelburn=True),
                                "TotalPerformance(user_specified_Sref=%s)" % user, fam, timeout)
    if not only or "atmos" in only:
        atmosphere(rep, tier, timeout)
    rep.bounds["surfaces"] = "1-2 (quick), 1-3 (thorough)"
    rep.assumptions += ["real arithmetic", "g = 9.80665 m/s^2 (openaerostruct.utils.constants)"]
    return rep.finish("C17: defining identities of the functionals as solver obligations on the symbolically executed real "
                      "components; atmosphere: per table interval, univariate polynomial (in)equalities on the Akima pieces")


def replay_file(path):
    spec = json.load(open(path))
    print("replay of %s: %s" % (spec.get("ob"), spec.get("what")))
    if "Atmos" in spec.get("group", ""):
        sc = SymComp("common.atmos_comp", "AtmosComp")
        h = spec["env"]["altitude[0]"]
        real = sc.real({"altitude": [h], "Mach_number": [0.5]})
        T, P, rho = float(real["T"][0]), float(real["P"][0]), float(real["rho"][0])
        resid = abs(P * 144 - rho * 1716.49 * T) / (P * 144)
        print("altitude %.6g: gas-law residual %.4g" % (h, resid))
        if resid > float(TAU):
            print("VIOLATION property=%s replay=%s" % (PID, path))
            return 1
        return 0
    print("VIOLATION property=%s replay=%s" % (PID, path))
    return 1


def atmos_group_level(rep, tier, timeout):
    """the real AtmosGroup through its own wiring: the Reynolds number per length it publishes is rho v / mu of the
    density, speed and viscosity of the same group (units as connected), and v = Mach * speed_of_sound"""
    import warnings
    from fractions import Fraction

    import openmdao.api as om
    from openaerostruct.common.atmos_group import AtmosGroup
    from symoas import pipe
    from symoas.sym import lt

    extra, ac = atmos_stubs()
    prob = om.Problem(reports=False)
    prob.model.add_subsystem("atm", AtmosGroup(), promotes=["*"])
    with warnings.catch_warnings():
        warnings.simplefilter("ignore")
        prob.setup()
        prob.final_setup()
    rep.encode(AtmosGroup)
    alt, mach = symarray("altitude", (1,)), symarray("Mach_number", (1,))
    rng_ = [ge(alt[0], const(Fraction(34000))), lt(alt[0], const(Fraction(37000)))]
    GP = pipe.GroupPipe(prob, extra=extra)
    GP.run(external={"altitude": alt, "Mach_number": mach}, assumptions=rng_)
    # every promoted output in the units it is declared in at the group level, expressed in SI
    meta_out = prob.model._var_allprocs_abs2meta["output"]
    U = {prob.model._resolver.abs2prom(a, "output"): m.get("units") for a, m in meta_out.items()}
    g = lambda n: to_si(U, n, S(np.asarray(GP.get(n), dtype=object).ravel()[0]))
    # (relative tolerance 1e-6: OpenMDAO's table of unit factors is itself only consistent to a few parts in 1e9)
    rel = S(1e-6)
    obs = [oblig.Ob("re == rho v / mu", cond=gt(fabs(g("re") * g("mu") - g("rho") * g("v")), rel * fabs(g("rho") * g("v"))), assume=rng_,
                    meta={"family": "Reynolds number per length is rho v / mu of the same group"}),
           oblig.Ob("v == M a", cond=gt(fabs(g("v") - mach[0] * g("speed_of_sound")), rel * fabs(g("v"))), assume=rng_ + [gt(mach[0], 0)],
                    meta={"family": "v = Mach * speed of sound of the same group"})]

    def rp(ob, env):
        p2 = om.Problem(reports=False)
        p2.model.add_subsystem("atm", AtmosGroup(), promotes=["*"])
        with warnings.catch_warnings():
            warnings.simplefilter("ignore")
            p2.setup()
        p2.set_val("altitude", 35500.0)
        p2.set_val("Mach_number", 0.7)
        p2.run_model()
        v_ = {n: float(p2.get_val(n, units=SI_UNITS[n])[0]) for n in ("re", "rho", "v", "mu", "speed_of_sound")}
        bad = model.differs(v_["re"], v_["rho"] * v_["v"] / v_["mu"], 1e-6) or model.differs(v_["v"], 0.7 * v_["speed_of_sound"], 1e-6)
        return bad, "real AtmosGroup at 35 500 ft, M 0.7: re = %.9g, rho v / mu = %.9g, v = %.9g, M a = %.9g" % (v_["re"], v_["rho"] * v_["v"] / v_["mu"], v_["v"], 0.7 * v_["speed_of_sound"])

    run_obligations(rep, "real AtmosGroup: wiring", obs, timeout, replay=rp, levels=(1, 2), family=lambda ob: "AtmosGroup: " + ob.meta["family"],
                    fixed={"altitude[0]": 35500.0, "Mach_number[0]": 0.7})
