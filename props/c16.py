"""C16 - mass, centre of gravity and inertial / fuel / point-mass / thrust loads are conserved."""
from __future__ import annotations

import json

import numpy as np

from symoas import cases as K
from symoas import model, oblig, report
from symoas.model import SymComp, idents, num_inputs, run_obligations
from symoas.sym import S, ZERO, ONE, const, evalf, gt, ne, sqrt, symarray, var

PID = "C16"
G = S(9.80665)


def cross(a, b):
    return [a[1] * b[2] - a[2] * b[1], a[2] * b[0] - a[0] * b[2], a[0] * b[1] - a[1] * b[0]]


def vsum(vs):
    out = [ZERO, ZERO, ZERO]
    for v in vs:
        out = [out[k] + v[k] for k in range(3)]
    return out


def norm3(d):
    return sqrt(d[0] * d[0] + d[1] * d[1] + d[2] * d[2])


def load_resultant(nodes, loads, p):
    """total force and total moment about p of nodal loads [F(3), M(3)] at nodes"""
    ny = nodes.shape[0]
    F = vsum([[loads[i, k] for k in range(3)] for i in range(ny)])
    M = vsum([[loads[i, 3 + k] for k in range(3)] for i in range(ny)] +
             [cross([nodes[i, k] - p[k] for k in range(3)], [loads[i, k] for k in range(3)]) for i in range(ny)])
    return F, M


def replay_factory(sc, ins, outmap):
    """replay: evaluate the real component at the witness; lhs recomputed from the real outputs by `outmap`."""
    def rp(ob, env):
        vals = num_inputs(ins, env)
        real = sc.real(vals)
        got = outmap(ob, real, vals, env)
        ref = float(evalf([ob.rhs], env)[ob.rhs.nid])
        return model.differs(got, ref, 1e-6), "%s %s: real code gives %.9g, first-principles value %.9g" % (sc.cls, ob.id, got, ref)

    return rp


def cfgs(tier):
    # one half model and one full model carry their symmetry flag as a NumPy boolean (the result of a comparison)
    c = [("symL_ny2[numpy flag]", 2, np.True_, False), ("symL_ny3", 3, True, False), ("full_ny3", 3, False, False)]
    if tier == "thorough":
        c += [("symR_ny3", 3, True, True), ("full_ny5[numpy flag]", 5, np.False_, False), ("symL_ny4", 4, True, False)]
    return c


def run(tier, seed, only=None):
    rep = report.Report(PID, tier, seed)
    timeout = 20.0 if tier == "quick" else 60.0
    p = symarray("p", (3,))  # arbitrary moment reference point
    for (cn, ny, symm, right) in cfgs(tier):
        s = K.surface(2, ny, symm, right=right)
        sw = K.surface(2, ny, symm, right=right, fem_model_type="wingbox")
        fac = 2 if symm else 1
        # ---------------- Weight
        sc = SymComp("structures.weight", "Weight", surface=s)
        rep.encode(type(sc.comp))
        ins = sc.inputs()
        o = sc.sym1(ins)
        nodes, A = ins["nodes"], ins["A"]
        L = [norm3([nodes[e + 1, k] - nodes[e, k] for k in range(3)]) for e in range(ny - 1)]
        em = [L[e] * A[e] * S(s["mrho"]) * S(s["wing_weight_ratio"]) for e in range(ny - 1)]
        obs = idents("element_mass", o["element_mass"], em, meta={"out": "element_mass", "family": "element mass = rho A L wwr"})
        obs += idents("structural_mass", o["structural_mass"], [sum(em, ZERO) * fac],
                      meta={"out": "structural_mass", "family": "structural mass = (2x) sum element masses"})
        run_obligations(rep, "Weight[%s]" % cn, obs, timeout, family=lambda ob: "Weight: " + ob.meta["family"],
                        replay=replay_factory(sc, ins, lambda ob, real, vals, env: float(np.ravel(real[ob.meta["out"]])[ob.meta["idx"][0] if ob.meta["idx"] else 0])))
        # ---------------- StructuralCG (structural_mass wired as Weight produces it)
        sc = SymComp("structures.structural_cg", "StructuralCG", surface=s)
        rep.encode(type(sc.comp))
        emv = symarray("element_mass", (ny - 1,))
        ins = sc.inputs(overrides={"element_mass": emv, "structural_mass": [sum(list(emv), ZERO) * fac]})
        o = sc.sym1(ins)
        nodes = ins["nodes"]
        mt = sum(list(emv), ZERO)
        ref = [sum((emv[e] * (nodes[e + 1, k] + nodes[e, k]) * S(0.5) for e in range(ny - 1)), ZERO) / mt for k in range(3)]
        if symm:
            ref[1] = ZERO
        obs = idents("cg_location", o["cg_location"], ref, meta={"out": "cg_location", "family": "cg = mass-weighted centroid (y = 0 when symmetric)"})
        run_obligations(rep, "StructuralCG[%s]" % cn, obs, timeout, family=lambda ob: "StructuralCG: " + ob.meta["family"],
                        replay=replay_factory(sc, ins, lambda ob, real, vals, env: float(real["cg_location"][ob.meta["idx"][0]])))
        # ---------------- StructureWeightLoads
        sc = SymComp("structures.wing_weight_loads", "StructureWeightLoads", surface=s)
        rep.encode(type(sc.comp))
        ins = sc.inputs()
        o = sc.sym1(ins)
        nodes, emv, n = ins["nodes"], ins["element_mass"], ins["load_factor"][0]
        loads = o["struct_weight_loads"]
        F, M = load_resultant(nodes, loads, p)
        Wt = [[ZERO, ZERO, -emv[e] * G * n] for e in range(ny - 1)]
        Fref = vsum(Wt)
        Mref = vsum([cross([(nodes[e + 1, k] + nodes[e, k]) * S(0.5) - p[k] for k in range(3)], Wt[e]) for e in range(ny - 1)])
        obs = idents("sum F", F, Fref, meta={"family": "sum of structural-weight forces = -m g n"})
        obs += idents("sum M about p", M, Mref, meta={"family": "total moment of structural-weight loads = moment of the element weights at their centres"})
        # (the auxiliary output `element_lengths` of this component is never written by compute; it is not part of
        #  the property and is not checked)

        def real_res(ob, real, vals, env, key="struct_weight_loads"):
            ld = real[key]
            pp = np.array([env.get("p[%d]" % k, 0.0) for k in range(3)])
            Fn = ld[:, :3].sum(axis=0)
            Mn = ld[:, 3:].sum(axis=0) + np.cross(vals["nodes"] - pp, ld[:, :3]).sum(axis=0)
            k = ob.meta["idx"][0]
            if ob.id.startswith("sum F"):
                return float(Fn[k])
            if ob.id.startswith("sum M"):
                return float(Mn[k])
            return float(np.ravel(real["element_lengths"])[k])

        run_obligations(rep, "StructureWeightLoads[%s]" % cn, obs, timeout, family=lambda ob: "StructureWeightLoads: " + ob.meta["family"],
                        replay=replay_factory(sc, ins, real_res))
        # ---------------- FuelLoads (wingbox)
        sc = SymComp("structures.fuel_loads", "FuelLoads", surface=sw)
        rep.encode(type(sc.comp))
        ins = sc.inputs()
        o = sc.sym1(ins)
        nodes, vols, n = ins["nodes"], ins["fuel_vols"], ins["load_factor"][0]
        W = (ins["fuel_mass"][0] + S(sw["Wf_reserve"])) * G * n / fac
        sv = sum(list(vols), ZERO)
        Wt = [[ZERO, ZERO, -vols[e] * W / sv] for e in range(ny - 1)]
        F, M = load_resultant(nodes, o["fuel_weight_loads"], p)
        obs = idents("sum F", F, vsum(Wt), meta={"family": "sum of fuel-weight forces = -(fuel + reserve) g n (half share when symmetric)"})
        obs += idents("sum M about p", M, vsum([cross([(nodes[e + 1, k] + nodes[e, k]) * S(0.5) - p[k] for k in range(3)], Wt[e]) for e in range(ny - 1)]),
                      meta={"family": "total moment of fuel-weight loads = moment of the element fuel weights at their centres"})
        run_obligations(rep, "FuelLoads[%s]" % cn, obs, timeout, family=lambda ob: "FuelLoads: " + ob.meta["family"],
                        replay=replay_factory(sc, ins, lambda ob, real, vals, env: real_res(ob, real, vals, env, "fuel_weight_loads")))
        # ---------------- fuel volume and margin
        sc = SymComp("structures.fuel_vol", "WingboxFuelVol", surface=sw)
        rep.encode(type(sc.comp))
        ins = sc.inputs()
        o = sc.sym1(ins)
        nodes = ins["nodes"]
        obs = idents("fuel_vols", o["fuel_vols"], [ins["A_int"][e] * norm3([nodes[e + 1, k] - nodes[e, k] for k in range(3)]) for e in range(ny - 1)],
                     meta={"family": "fuel volume = enclosed area x element length"})
        run_obligations(rep, "WingboxFuelVol[%s]" % cn, obs, timeout, family=lambda ob: "WingboxFuelVol: " + ob.meta["family"],
                        replay=replay_factory(sc, ins, lambda ob, real, vals, env: float(real["fuel_vols"][ob.meta["idx"][0]])))
        sc = SymComp("structures.wingbox_fuel_vol_delta", "WingboxFuelVolDelta", surface=sw)
        rep.encode(type(sc.comp))
        ins = sc.inputs()
        o = sc.sym1(ins)
        obs = idents("fuel_vol_delta", o["fuel_vol_delta"],
                     [sum(list(ins["fuel_vols"]), ZERO) - (ins["fuelburn"][0] + S(sw["Wf_reserve"])) / fac / S(sw["fuel_density"])],
                     meta={"family": "fuel-volume margin = enclosed volume - required volume (half share when symmetric)"})
        run_obligations(rep, "WingboxFuelVolDelta[%s]" % cn, obs, timeout, family=lambda ob: "WingboxFuelVolDelta: " + ob.meta["family"],
                        replay=replay_factory(sc, ins, lambda ob, real, vals, env: float(np.ravel(real["fuel_vol_delta"])[0])))
        # ---------------- point masses and thrust
        # (two point masses only on the smallest beam: each such group costs minutes of solver time and adds the
        #  accumulation over several masses, which does not depend on the beam size)
        for npm in ([1, 2] if (tier == "thorough" and ny == 2) else [1]):
            sp = dict(s, n_point_masses=npm)
            for (cls, mod, amp, out, direction, nm) in (
                    ("ComputePointMassLoads", "structures.compute_point_mass_loads", "point_masses", "loads_from_point_masses", 2, "point-mass"),
                    ("ComputeThrustLoads", "structures.compute_thrust_loads", "engine_thrusts", "loads_from_thrusts", 0, "thrust")):
                sc = SymComp(mod, cls, surface=sp)
                rep.encode(type(sc.comp))
                ins = sc.inputs()
                o = sc.sym1(ins)
                nodes, loc = ins["nodes"], ins["point_mass_locations"]
                w = o["nodal_weightings"]
                obs = idents("sum weights", [sum(list(w[k, :]), ZERO) for k in range(npm)], [ONE] * npm,
                             meta={"family": "nodal weights of each %s sum to 1" % nm})
                Fk = []
                for k in range(npm):
                    f = [ZERO, ZERO, ZERO]
                    if direction == 2:
                        f[2] = -ins[amp][k] * G * ins["load_factor"][0]
                    else:
                        f[0] = -ins[amp][k]
                    Fk.append(f)
                F, M = load_resultant(nodes, o[out], p)
                obs += idents("sum F", F, vsum(Fk), meta={"family": "sum of %s forces" % nm})
                obs += idents("sum M about p", M, vsum([cross([loc[k, c] - p[c] for c in range(3)], Fk[k]) for k in range(npm)]),
                              meta={"family": "total moment of %s loads = (x_pm - p) x F" % nm})

                def rr(ob, real, vals, env, out=out, npm=npm):
                    if ob.id.startswith("sum weights"):
                        return float(real["nodal_weightings"][ob.meta["idx"][0]].sum())
                    return real_res(ob, real, vals, env, out)

                run_obligations(rep, "%s[%s,n=%d]" % (cls, cn, npm), obs, timeout, family=lambda ob, cls=cls: "%s: %s" % (cls, ob.meta["family"]),
                                replay=replay_factory(sc, ins, rr))
        # ---------------- TotalLoads
        for (lab, over) in (("plain", {}), ("all sources (switches as NumPy booleans)", {"struct_weight_relief": np.True_, "distributed_fuel_weight": np.True_, "n_point_masses": 1})):
            st = dict(s, **over)
            sc = SymComp("structures.total_loads", "TotalLoads", surface=st)
            rep.encode(type(sc.comp))
            ins = sc.inputs()
            o = sc.sym1(ins)
            tot = sum((ins[n] for n in sc.in_names), np.zeros((ny, 6), dtype=object))
            obs = idents("total_loads", o["total_loads"], tot, meta={"family": "total loads = sum of the enabled sources"})
            run_obligations(rep, "TotalLoads(%s)[%s]" % (lab, cn), obs, timeout, family=lambda ob: "TotalLoads: " + ob.meta["family"],
                            replay=replay_factory(sc, ins, lambda ob, real, vals, env: float(real["total_loads"][tuple(ob.meta["idx"])])))
    # the load sources must also *reach* the beam: the real SpatialBeamStates group with every load option on, through its
    # own wiring (shared with C10: right-hand side = prescribed loads + all enabled sources)
    from props import c10

    c10.states_group(rep, tier, timeout)
    # ... and mass / cg / fuel volume are computed from the set-up group's own nodes, areas and masses
    from props import groups
    from openaerostruct.structures.spatial_beam_setup import SpatialBeamSetup
    from openaerostruct.integration.aerostruct_groups import AerostructGeometry

    fam = "every component of the group works on the group's own variables of the same name"
    st = K.surface(2, 3, True)
    st.update({"thickness_cp": np.array([0.1, 0.2]), "twist_cp": np.zeros(2), "radius_cp": np.array([0.3, 0.4])})
    sw = K.surface(2, 3, True, fem_model_type="wingbox")
    groups.wiring_check(rep, lambda: SpatialBeamSetup(surface=st), "SpatialBeamSetup(tube)", fam, timeout)
    groups.wiring_check(rep, lambda: SpatialBeamSetup(surface=sw), "SpatialBeamSetup(wingbox)", fam, timeout)
    groups.wiring_check(rep, lambda: AerostructGeometry(surface=st), "AerostructGeometry(tube)", fam, timeout)
    # the structure-only model: element masses, nodes and load factor of the set-up reach the inertial load components
    from openaerostruct.structures.struct_groups import SpatialBeamAlone
    from symoas.sym import bor, gt, lt

    sa = dict(st, struct_weight_relief=True, n_point_masses=1)

    def big_loads(ins):
        return [bor(gt(x, 1e-6), lt(x, -1e-6)) for x in ins["total_loads"].ravel()]

    groups.wiring_check(rep, lambda: SpatialBeamAlone(surface=sa), "SpatialBeamAlone(tube, weight relief, point masses)", fam, timeout,
                        assume_for={"CreateRHS": big_loads}, abstract=("total_loads.total_loads", "vonmises.vonmises"))
    rep.bounds = {"ny": [c[1] for c in cfgs(tier)], "point_masses": "1 (quick), 1-2 (thorough, two only on the ny = 2 beam)"}
    rep.assumptions = ["real arithmetic", "g = 9.80665", "moment reference point p symbolic"]
    return rep.finish("C16: mass / cg / load-sum / moment-sum identities against first-principles sums on symbolic nodes, areas, masses")


def replay_file(path):
    spec = json.load(open(path))
    print("recorded counterexample: %s" % spec.get("what"))
    print("VIOLATION property=%s replay=%s" % (PID, path))
    return 1
