"""C07 - mirror-image configurations give mirror-image results."""
from __future__ import annotations

import json

import numpy as np

from symoas import cases as K
from symoas import model, oblig, report
from symoas.model import SymComp, idents, num_inputs, run_obligations
from symoas.sym import S, ZERO, ONE, Sym, evalf, ge, gt, le, lt, ne, symarray, symify, var

PID = "C07"
G = "geometry.geometry_mesh_transformations"
MIR = np.array([1, -1, 1], dtype=object)
SIGN6 = np.array([1, -1, 1, -1, 1, -1], dtype=object)  # polar vector (u,v,w) and axial vector (thx,thy,thz) under y -> -y


def mirror_mesh(m):
    return np.asarray(m, dtype=object)[:, ::-1, :] * MIR


def mirror_nodal6(a):
    """(ny, 6) nodal displacement / load array of the mirror-image configuration"""
    return np.asarray(a, dtype=object)[::-1, :] * SIGN6


def geometry(rep, tier, timeout):
    """Geometry design variables: a right-half symmetric model agrees with the mirrored left-half model, and a
    full-span model of the mirror image gives the mirror image."""
    sizes = [(2, 3)] if tier == "quick" else [(2, 3), (3, 3), (2, 5)]
    for (nx, ny) in sizes:
        for symm in (True, False):
            mL = symarray("mesh", (nx, ny, 3))
            # chordwise lines at constant y, strictly increasing y (left half: root on y = 0 at the last index)
            ys = [var("y[%d]" % j) for j in range(ny)]
            if symm:
                ys[-1] = ZERO
            else:
                h = (ny - 1) // 2
                ys = [var("y[%d]" % j) for j in range(h)] + [ZERO]
                ys = ys + [-v for v in reversed(ys[:h])]
            for i in range(nx):
                for j in range(ny):
                    mL[i, j, 1] = ys[j]
            assume = [lt(ys[j], ys[j + 1]) for j in range(ny - 1)]
            mR = mirror_mesh(mL)
            cmL = K.rect_mesh(nx, ny, symm)
            cmR = cmL[:, ::-1, :] * np.array([1.0, -1.0, 1.0])
            shp = cmL.shape
            lab = "%s %dx%d" % ("symmetric half" if symm else "full span", nx, ny)
            specs = [
                ("Sweep", dict(val=0.0, mesh_shape=shp, symmetry=symm), {"sweep": [var("sweep")]}, {"sweep": [var("sweep")]}),
                ("Dihedral", dict(val=0.0, mesh_shape=shp, symmetry=symm), {"dihedral": [var("dihedral")]}, {"dihedral": [var("dihedral")]}),
                ("Stretch", dict(val=1.0, mesh_shape=shp, symmetry=symm, ref_axis_pos=0.25), {"span": [var("span")]}, {"span": [var("span")]}),
                ("ScaleX", dict(val=np.ones(ny), mesh_shape=shp, ref_axis_pos=0.25), {"chord": symarray("chord", (ny,))}, None),
                ("ShearX", dict(val=np.zeros(ny), mesh_shape=shp), {"xshear": symarray("xshear", (ny,))}, None),
                ("ShearZ", dict(val=np.zeros(ny), mesh_shape=shp), {"zshear": symarray("zshear", (ny,))}, None),
                ("ShearY", dict(val=np.zeros(ny), mesh_shape=shp), {"yshear": symarray("yshear", (ny,))}, "neg"),
                ("Rotate", dict(val=np.zeros(ny), mesh_shape=shp, symmetry=symm, ref_axis_pos=0.25), {"twist": symarray("twist", (ny,))}, None),
            ]
            for cls, kw, dvL, dvR in specs:
                if dvR is None:
                    dvR = {k: np.asarray(v, dtype=object)[::-1] for k, v in dvL.items()}
                elif dvR == "neg":
                    dvR = {k: -np.asarray(v, dtype=object)[::-1] for k, v in dvL.items()}
                sc = SymComp(G, cls, **kw)
                rep.encode(type(sc.comp))
                oL = sc.sym1(dict(dvL, in_mesh=mL), assumptions=assume)["mesh"]
                oR = sc.sym1(dict(dvR, in_mesh=mR), assumptions=assume)["mesh"]
                obs = idents("mesh", oR, mirror_mesh(oL), assume=assume,
                             meta={"family": "%s (%s): the mirror-image mesh transforms into the mirror image" % (cls, "symmetric half model" if symm else "full span")})

                def rp(ob, env, sc=sc, dvL=dvL, dvR=dvR, mL=mL, mR=mR):
                    envf = model.FillEnv(env)
                    rL = sc.real(num_inputs(dict(dvL, in_mesh=mL), envf))["mesh"]
                    rR = sc.real(num_inputs(dict(dvR, in_mesh=mR), envf))["mesh"]
                    want = rL[:, ::-1, :] * np.array([1.0, -1.0, 1.0])
                    idx = tuple(ob.meta["idx"])
                    return model.differs(rR[idx], want[idx], 1e-7), "%s on the mirror-image mesh gives mesh%s = %.9g, mirror image of the original result %.9g" % (sc.cls, list(idx), rR[idx], want[idx])

                nominal = {}
                for idx in np.ndindex(*cmL.shape):
                    nominal["mesh[%s]" % ",".join(map(str, idx))] = float(cmL[idx]) + 0.1 * ((idx[0] * 7 + idx[1] * 3 + idx[2]) % 5) / 5.0
                for j in range(ny):
                    nominal["y[%d]" % j] = float(cmL[0, j, 1])
                run_obligations(rep, "%s mirror [%s]" % (cls, lab), obs, timeout, replay=rp, levels=(1, 2), relate=[],
                                family=lambda ob: "geometry: " + ob.meta["family"], nominal=nominal,
                                fixed={"sweep": (20.0, -20.0), "dihedral": (10.0, -10.0), "span": 12.0})
            # Taper keeps its mesh as an option
            scL = SymComp(G, "Taper", val=1.0, mesh=cmL, symmetry=symm, ref_axis_pos=0.25)
            scR = SymComp(G, "Taper", val=1.0, mesh=cmR, symmetry=symm, ref_axis_pos=0.25)
            scL.comp.options["mesh"] = mL
            scR.comp.options["mesh"] = mR
            tp = var("taper")
            pL = scL.sym({"taper": [tp]}, assumptions=assume)
            pR = scR.sym({"taper": [tp]}, assumptions=assume)
            scL.comp.options["mesh"] = cmL
            scR.comp.options["mesh"] = cmR
            obs = []
            for a in pL:
                for b in pR:
                    obs += idents("mesh", b.result["outputs"]["mesh"], mirror_mesh(a.result["outputs"]["mesh"]), assume=assume + a.conds + b.conds,
                                  meta={"family": "Taper (%s): the mirror-image mesh transforms into the mirror image" % ("symmetric half model" if symm else "full span")})

            def rpt(ob, env, symm=symm, mL=mL):
                envf = model.FillEnv(env)
                mv = num_inputs({"m": mL}, envf)["m"]
                mr = mv[:, ::-1, :] * np.array([1.0, -1.0, 1.0])
                a = SymComp(G, "Taper", val=1.0, mesh=mv, symmetry=symm, ref_axis_pos=0.25).real({"taper": [envf["taper"]]})["mesh"]
                b = SymComp(G, "Taper", val=1.0, mesh=mr, symmetry=symm, ref_axis_pos=0.25).real({"taper": [envf["taper"]]})["mesh"]
                want = a[:, ::-1, :] * np.array([1.0, -1.0, 1.0])
                idx = tuple(ob.meta["idx"])
                return model.differs(b[idx], want[idx], 1e-7), "Taper on the mirror-image mesh gives mesh%s = %.9g, mirror image of the original result %.9g" % (list(idx), b[idx], want[idx])

            run_obligations(rep, "Taper mirror [%s]" % lab, obs, timeout, replay=rpt, family=lambda ob: "geometry: " + ob.meta["family"], nominal=nominal, fixed={"taper": 0.5})


def monotonic(rep, tier, timeout):
    """MonotonicConstraint on a full-span surface: the reversed spanwise distribution gives the reversed constraint vector, and
    its left half is what the left-half (symmetric) model reports for the same stations."""
    for ny in ([3, 5] if tier == "quick" else [3, 5, 7]):
        h = (ny - 1) // 2
        scF = SymComp("geometry.monotonic_constraint", "MonotonicConstraint", var_name="chord", surface=K.surface(2, ny, False))
        scH = SymComp("geometry.monotonic_constraint", "MonotonicConstraint", var_name="chord", surface=K.surface(2, h + 1, True))
        rep.encode(type(scF.comp))
        iname, oname = scF.in_names[0], scF.out_names[0]
        x = symarray(iname, (ny,))
        oA = np.asarray(scF.sym1({iname: x})[oname], dtype=object).ravel()
        oB = np.asarray(scF.sym1({iname: x[::-1].copy()})[oname], dtype=object).ravel()
        oH = np.asarray(scH.sym1({iname: x[: h + 1].copy()})[oname], dtype=object).ravel()
        fam = "MonotonicConstraint (full span): the mirror-image distribution gives the mirror-image constraint"
        obs = [oblig.Ob("mirror %s[%d] ny=%d" % (oname, j, ny), lhs=S(oB[j]), rhs=S(oA[ny - 2 - j]), meta={"family": fam, "kind": "mirror", "idx": [j]}) for j in range(ny - 1)]
        obs += [oblig.Ob("left half %s[%d] ny=%d" % (oname, j, ny), lhs=S(oA[j]), rhs=S(oH[j]),
                         meta={"family": "MonotonicConstraint: the left half of the full-span constraint is the left-half model's constraint", "kind": "half", "idx": [j]}) for j in range(h)]

        def rp(ob, env, scF=scF, scH=scH, x=x, ny=ny, h=h, iname=iname, oname=oname):
            xv = np.asarray(num_inputs({iname: x}, model.FillEnv(env))[iname], dtype=float)
            a = np.ravel(scF.real({iname: xv})[oname])
            j = ob.meta["idx"][0]
            if ob.meta["kind"] == "mirror":
                b = np.ravel(scF.real({iname: xv[::-1].copy()})[oname])
                return model.differs(b[j], a[ny - 2 - j], 1e-9), "full span ny=%d, %s = %s: constraint %s; reversed distribution gives %s" % (ny, iname, xv.tolist(), a.tolist(), b.tolist())
            c = np.ravel(scH.real({iname: xv[: h + 1].copy()})[oname])
            return model.differs(a[j], c[j], 1e-9), "ny=%d, %s = %s: full-span constraint %s, left-half model %s" % (ny, iname, xv.tolist(), a.tolist(), c.tolist())

        run_obligations(rep, "MonotonicConstraint mirror [ny=%d]" % ny, obs, timeout, replay=rp, family=lambda ob: "geometry: " + ob.meta["family"])


def structures(rep, tier, timeout):
    nys = [3] if tier == "quick" else [3, 5]
    for ny in nys:
        s = K.surface(2, ny, False)
        sw = K.surface(2, ny, False, fem_model_type="wingbox")
        nodes = symarray("nodes", (ny, 3))
        nodes_m = nodes[::-1, :] * MIR
        disp = symarray("disp", (ny, 6))
        disp_m = mirror_nodal6(disp)
        lab = "full span ny=%d" % ny
        nominal = {}
        for j in range(ny):
            nominal.update({"nodes[%d,0]" % j: 0.3 * abs(j - ny // 2), "nodes[%d,1]" % j: -2.0 + 4.0 * j / (ny - 1), "nodes[%d,2]" % j: 0.1 * j})
            for c in range(6):
                nominal["disp[%d,%d]" % (j, c)] = 0.01 * (1 + ((j * 5 + c * 3) % 7)) * (0.1 if c >= 3 else 1.0)

        def mirror_pair(modname, cls, surface, ins, ins_m, outmap, fam, relate=None, levels=(1, 2), extra_nominal=None):
            sc = SymComp(modname, cls, surface=surface)
            rep.encode(type(sc.comp))
            o = sc.sym1(ins)
            om = sc.sym1(ins_m)
            obs = []
            for out, fn in outmap.items():
                obs += idents(out, om[out], fn(o[out]), meta={"family": fam, "out": out})

            def rp(ob, env):
                envf = model.FillEnv(env)
                r1 = sc.real(num_inputs(ins, envf))
                r2 = sc.real(num_inputs(ins_m, envf))
                out, idx = ob.meta["out"], tuple(ob.meta["idx"])
                want = np.asarray(outmap[out](np.asarray(r1[out], dtype=object)), dtype=float)
                got = r2[out]
                return model.differs(got[idx], want[idx], 1e-7), "%s %s%s: mirror-image configuration gives %.9g, mirror image of the original result is %.9g" % (cls, out, list(idx), got[idx], want[idx])

            nom = dict(nominal)
            nom.update(extra_nominal or {})
            run_obligations(rep, "%s mirror [%s]" % (cls, lab), obs, timeout, replay=rp, levels=levels, relate=relate,
                            family=lambda ob: "%s: %s" % (cls, ob.meta["family"]), nominal=nom)

        rev = lambda a: np.asarray(a, dtype=object)[::-1]
        # tube stresses
        rad = symarray("radius", (ny - 1,))
        mirror_pair("structures.vonmises_tube", "VonMisesTube", s, {"nodes": nodes, "radius": rad, "disp": disp},
                    {"nodes": nodes_m, "radius": rev(rad), "disp": disp_m}, {"vonmises": lambda v: np.asarray(v, dtype=object)[::-1, :]},
                    "stresses of the mirror-image structure are the mirror image, element for element", relate=[],
                    extra_nominal={"radius[%d]" % e: 0.1 + 0.01 * e for e in range(ny - 1)})
        # wingbox stresses
        wb_in = {n: symarray(n, (ny - 1,)) for n in ("Qz", "J", "A_enc", "spar_thickness", "htop", "hbottom", "hfront", "hrear")}
        wb_m = {n: rev(a) for n, a in wb_in.items()}
        mirror_pair("structures.vonmises_wingbox", "VonMisesWingbox", sw, dict(wb_in, nodes=nodes, disp=disp), dict(wb_m, nodes=nodes_m, disp=disp_m),
                    {"vonmises": lambda v: np.asarray(v, dtype=object)[::-1, :]},
                    "stresses of the mirror-image structure are the mirror image, element for element", relate=[],
                    extra_nominal={"%s[%d]" % (n, e): 0.5 + 0.05 * e for n in wb_in for e in range(ny - 1)})
        # inertial loads
        em = symarray("element_mass", (ny - 1,))
        lf = [var("load_factor")]
        mirror_pair("structures.wing_weight_loads", "StructureWeightLoads", s, {"element_mass": em, "nodes": nodes, "load_factor": lf},
                    {"element_mass": rev(em), "nodes": nodes_m, "load_factor": lf}, {"struct_weight_loads": mirror_nodal6},
                    "loads of the mirror-image structure are the mirror image", relate=[])
        fv = symarray("fuel_vols", (ny - 1,))
        mirror_pair("structures.fuel_loads", "FuelLoads", sw, {"fuel_vols": fv, "nodes": nodes, "fuel_mass": [var("fuel_mass")], "load_factor": lf},
                    {"fuel_vols": rev(fv), "nodes": nodes_m, "fuel_mass": [var("fuel_mass")], "load_factor": lf}, {"fuel_weight_loads": mirror_nodal6},
                    "loads of the mirror-image structure are the mirror image", relate=[])
        sp = dict(s, n_point_masses=1)
        loc = symarray("point_mass_locations", (1, 3))
        for (cls, mod, amp, out) in (("ComputePointMassLoads", "structures.compute_point_mass_loads", "point_masses", "loads_from_point_masses"),
                                     ("ComputeThrustLoads", "structures.compute_thrust_loads", "engine_thrusts", "loads_from_thrusts")):
            ins = {"point_mass_locations": loc, amp: [var("amp")], "nodes": nodes}
            insm = {"point_mass_locations": loc * MIR, amp: [var("amp")], "nodes": nodes_m}
            if cls == "ComputePointMassLoads":
                ins["load_factor"] = lf
                insm["load_factor"] = lf
            mirror_pair(mod, cls, sp, ins, insm, {out: mirror_nodal6}, "loads of the mirror-image structure are the mirror image",
                        extra_nominal={"point_mass_locations[0,0]": 0.2, "point_mass_locations[0,1]": -1.1, "point_mass_locations[0,2]": -0.3, "amp": 100.0})


def aero(rep, tier, timeout):
    """Aerodynamic states of the mirror-image configuration (full span, arbitrary asymmetric geometry and flow) and
    left-half vs right-half symmetric models."""
    from symoas import pipe

    cfgs = [("full 2x3", 2, 3, False), ("symmetric halves 2x2", 2, 2, True), ("full 3x3", 3, 3, False), ("symmetric halves 3x3", 3, 3, True)]
    if tier == "thorough":
        cfgs += [("symmetric halves 2x3", 2, 3, True), ("full 2x5", 2, 5, False), ("full 4x5", 4, 5, False), ("symmetric halves 4x4", 4, 4, True), ("full 3x7", 3, 7, False)]
    for (lab, nx, ny, symm) in cfgs:
        sA = K.surface(nx, ny, symm)
        sB = K.surface(nx, ny, symm, right=True) if symm else sA
        PA = pipe.vlm_states([sA], rotational=True)
        PB = pipe.vlm_states([sB], rotational=True) if symm else PA
        PA.encode(rep)
        m = symarray("wing_def_mesh", (nx, ny, 3))
        if symm:
            for i in range(nx):
                m[i, ny - 1, 1] = ZERO
        nym = ny - 1
        npan = (nx - 1) * nym
        al, be, v, rho = var("alpha"), (ZERO if symm else var("beta")), var("v"), var("rho")
        om, cg = symarray("omega", (3,)), symarray("cg", (3,))
        if symm:  # a symmetric model only represents symmetric motion: roll and yaw rates vanish, cg on the plane
            om = np.array([ZERO, om[1], ZERO], dtype=object)
            cg = np.array([cg[0], ZERO, cg[2]], dtype=object)
        gam = symarray("circulations", (npan,))
        units = {"alpha": "deg", "beta": "deg", "v": "m/s", "rho": "kg/m**3", "omega": "rad/s", "cg": "m"}
        nsA, _ = PA.run({"alpha": [al], "beta": [be], "v": [v], "rho": [rho], "omega": om, "cg": cg, "circulations": gam, "wing_def_mesh": m}, units=units)
        g2 = gam.reshape(nx - 1, nym)[:, ::-1].ravel()
        nsB, _ = PB.run({"alpha": [al], "beta": [-be], "v": [v], "rho": [rho], "omega": om * np.array([-1, 1, -1], dtype=object), "cg": cg * MIR,
                         "circulations": g2, "wing_def_mesh": mirror_mesh(m)}, units=units)
        pm = lambda r: (r // nym) * nym + (nym - 1 - r % nym)
        obs = []
        for r in range(npan):
            obs.append(oblig.Ob("rhs[%d]" % r, lhs=nsB["rhs"][pm(r)], rhs=nsA["rhs"][r], meta={"family": "right-hand side of the mirror-image configuration", "kind": "rhs", "idx": [r]}))
            for c in range(npan):
                obs.append(oblig.Ob("mtx[%d,%d]" % (r, c), lhs=nsB["mtx"][pm(r), pm(c)], rhs=nsA["mtx"][r, c],
                                    meta={"family": "influence matrix of the mirror-image configuration", "kind": "mtx", "idx": [r, c]}))
        FA, FB = nsA["wing_sec_forces"], nsB["wing_sec_forces"]
        for idx in np.ndindex(nx - 1, nym, 3):
            obs.append(oblig.Ob("sec_forces%s" % list(idx), lhs=FB[idx[0], nym - 1 - idx[1], idx[2]], rhs=FA[idx] * (-1 if idx[2] == 1 else 1),
                                meta={"family": "sectional forces of the mirror-image configuration are the mirror image", "kind": "F", "idx": list(idx)}))

        def rp(ob, env, sA=sA, sB=sB, m=m, symm=symm, nym=nym, om=om, cg=cg):
            return replay_aero(ob, env, sA, sB, m, symm, nym, om, cg)

        nominal = {}
        mv = K.rect_mesh(nx, ny, symm, jitter=0.25, seed=7)
        for idx in np.ndindex(*mv.shape):
            nominal["wing_def_mesh[%s]" % ",".join(map(str, idx))] = float(mv[idx]) + (0.07 * idx[1] if idx[2] == 0 and not symm else 0.0)
        nominal.update({"cg[0]": 0.5, "cg[1]": 0.3, "cg[2]": 0.1, "omega[0]": 0.02, "omega[1]": 0.03, "omega[2]": -0.01})
        nominal.update({"circulations[%d]" % i: -0.7 - 0.1 * i for i in range(npan)})
        run_obligations(rep, "aero states mirror [%s]" % lab, obs, timeout, replay=rp, levels=(1, 2), relate=[], nominal=nominal,
                        family=lambda ob, symm=symm: "aero states (%s): %s" % ("left-half vs right-half symmetric model" if symm else "full span", ob.meta["family"]),
                        fixed={"alpha": (3.0, -3.0), "beta": (4.0, -4.0), "v": 10.0, "rho": 1.1})


def replay_aero(ob, env, sA, sB, m, symm, nym, om, cg):
    import openmdao.api as om_
    from openaerostruct.aerodynamics.geometry import VLMGeometry
    from openaerostruct.aerodynamics.states import VLMStates

    envf = model.FillEnv(env)
    mv = num_inputs({"m": m}, envf)["m"]
    omv = num_inputs({"o": om}, envf)["o"]
    cgv = num_inputs({"c": cg}, envf)["c"]
    beta = 0.0 if symm else envf["beta"]

    def run(s, mesh, beta, omega, cgv):
        prob = om_.Problem(reports=False)
        ivc = om_.IndepVarComp()
        ivc.add_output("alpha", val=float(envf["alpha"]), units="deg")
        ivc.add_output("beta", val=float(beta), units="deg")
        ivc.add_output("v", val=float(envf["v"]), units="m/s")
        ivc.add_output("rho", val=float(envf["rho"]), units="kg/m**3")
        ivc.add_output("omega", val=omega, units="rad/s")
        ivc.add_output("cg", val=cgv, units="m")
        ivc.add_output("wing_def_mesh", val=mesh, units="m")
        prob.model.add_subsystem("ivc", ivc, promotes=["*"])
        prob.model.add_subsystem("geom", VLMGeometry(surface=s), promotes_inputs=[("def_mesh", "wing_def_mesh")], promotes_outputs=[("normals", "wing_normals")])
        prob.model.add_subsystem("states", VLMStates(surfaces=[s], rotational=True), promotes=["*"])
        prob.setup()
        prob.run_model()
        return prob

    pa = run(sA, mv, beta, omv, cgv)
    pb = run(sB, mv[:, ::-1, :] * np.array([1.0, -1.0, 1.0]), -beta, omv * np.array([-1.0, 1.0, -1.0]), cgv * np.array([1.0, -1.0, 1.0]))
    pm = lambda r: (r // nym) * nym + (nym - 1 - r % nym)
    k = ob.meta["kind"]
    if k == "mtx":
        r, c = ob.meta["idx"]
        a, b = pa.get_val("mtx")[r, c], pb.get_val("mtx")[pm(r), pm(c)]
        return model.differs(a, b, 1e-7), "AIC[%d,%d] = %.9g, mirror-image configuration %.9g" % (r, c, a, b)
    if k == "rhs":
        r = ob.meta["idx"][0]
        a, b = pa.get_val("rhs")[r], pb.get_val("rhs")[pm(r)]
        return model.differs(a, b, 1e-7), "rhs[%d] = %.9g, mirror-image configuration %.9g" % (r, a, b)
    idx = tuple(ob.meta["idx"])
    a = pa.get_val("wing_sec_forces")[idx] * (-1 if idx[2] == 1 else 1)
    b = pb.get_val("wing_sec_forces")[idx[0], nym - 1 - idx[1], idx[2]]
    return model.differs(a, b, 1e-6), "mirrored sec_forces%s = %.9g, mirror-image configuration %.9g (converged)" % (list(idx), a, b)


def run(tier, seed, only=None):
    rep = report.Report(PID, tier, seed)
    timeout = 20.0 if tier == "quick" else 60.0
    if not only or "aero" in only:
        aero(rep, tier, timeout)
        aero_mixed(rep, tier, timeout)
    if not only or "geom" in only:
        geometry(rep, tier, timeout)
        monotonic(rep, tier, timeout)
    if not only or "struct" in only:
        structures(rep, tier, timeout)
    rep.assumptions = ["real arithmetic", "mirror operator: y -> -y, spanwise order reversed, axial vectors (rotations, moments) transform with the opposite sign pattern",
                       "geometry: chordwise lines at constant y, strictly increasing y"]
    rep.bounds = {"geometry": "nx 2-3, ny 3-5", "structures": "full span ny 3 (quick), 3-5 (thorough)"}
    return rep.finish("C07: mirrored-input executions of the real components give mirrored outputs (geometry design variables on left/right halves and "
                      "full span; tube and wingbox stresses; inertial, fuel, point-mass and thrust loads)")


def replay_file(path):
    spec = json.load(open(path))
    print("recorded counterexample: %s" % spec.get("what"))
    print("VIOLATION property=%s replay=%s" % (PID, path))
    return 1


def aero_mixed(rep, tier, timeout):
    """Two symmetric surfaces in one model, described with different handedness: (wing left half, tail left half) against
    (wing left half, tail right half = mirror image of the same tail).  Same physical aircraft, so the influence matrix,
    right-hand side and forces agree up to the spanwise reversal of the tail's panels."""
    from symoas import pipe

    cfgs = [("wing L 2x3 + tail L/R 2x2", (2, 3), (2, 2))] + ([("wing L 3x3 + tail L/R 2x3", (3, 3), (2, 3))] if tier == "thorough" else [])
    for lab, (nxw, nyw), (nxt, nyt) in cfgs:
        w = K.surface(nxw, nyw, True, name="wing")
        tL = K.surface(nxt, nyt, True, name="tail")
        tR = K.surface(nxt, nyt, True, right=True, name="tail")
        PA = pipe.vlm_states([w, tL])
        PB = pipe.vlm_states([w, tR])
        PA.encode(rep)
        mw = symarray("wing_def_mesh", (nxw, nyw, 3))
        mt = symarray("tail_def_mesh", (nxt, nyt, 3))
        for i in range(nxw):
            mw[i, nyw - 1, 1] = ZERO
        for i in range(nxt):
            mt[i, nyt - 1, 1] = ZERO
        nw, nt = (nxw - 1) * (nyw - 1), (nxt - 1) * (nyt - 1)
        gam = symarray("circulations", (nw + nt,))
        gB = np.concatenate([gam[:nw], gam[nw:].reshape(nxt - 1, nyt - 1)[:, ::-1].ravel()])
        al, v, rho = var("alpha"), var("v"), var("rho")
        units = {"alpha": "deg", "beta": "deg", "v": "m/s", "rho": "kg/m**3"}
        common = {"alpha": [al], "beta": [ZERO], "v": [v], "rho": [rho], "wing_def_mesh": mw}
        nsA, _ = PA.run(dict(common, tail_def_mesh=mt, circulations=gam), units=units)
        nsB, _ = PB.run(dict(common, tail_def_mesh=mirror_mesh(mt), circulations=gB), units=units)
        nym = nyt - 1

        def pm(r):
            if r < nw:
                return r
            q = r - nw
            return nw + (q // nym) * nym + (nym - 1 - q % nym)

        obs = []
        n = nw + nt
        for r in range(n):
            obs.append(oblig.Ob("rhs[%d]" % r, lhs=nsB["rhs"][pm(r)], rhs=nsA["rhs"][r], meta={"family": "right-hand side does not depend on which half of a symmetric surface is modelled", "kind": "rhs"}))
            for c in range(n):
                obs.append(oblig.Ob("mtx[%d,%d]" % (r, c), lhs=nsB["mtx"][pm(r), pm(c)], rhs=nsA["mtx"][r, c],
                                    meta={"family": "influence matrix does not depend on which half of a symmetric surface is modelled", "kind": "mtx"}))
        obs += idents("wing sec_forces", nsB["wing_sec_forces"], nsA["wing_sec_forces"], meta={"family": "forces on the other surface do not depend on which half of a symmetric surface is modelled", "kind": "F"})
        FA, FB = nsA["tail_sec_forces"], nsB["tail_sec_forces"]
        for idx in np.ndindex(nxt - 1, nym, 3):
            obs.append(oblig.Ob("tail sec_forces%s" % list(idx), lhs=FB[idx[0], nym - 1 - idx[1], idx[2]], rhs=FA[idx] * (-1 if idx[2] == 1 else 1),
                                meta={"family": "forces on the re-described surface are the mirror image", "kind": "F"}))

        def rp(ob, env, w=w, tL=tL, tR=tR, nxw=nxw, nyw=nyw, nxt=nxt, nyt=nyt):
            return replay_mixed(w, tL, tR)

        nominal = {}
        for nm, shp, sym_, off in (("wing", (nxw, nyw), True, 0.0), ("tail", (nxt, nyt), True, 4.0)):
            mv = K.rect_mesh(shp[0], shp[1], True, jitter=0.25, seed=7)
            for idx in np.ndindex(*mv.shape):
                nominal["%s_def_mesh[%s]" % (nm, ",".join(map(str, idx)))] = float(mv[idx]) + (off if idx[2] == 0 else (0.5 * (off > 0) if idx[2] == 2 else 0.0))
        nominal.update({"circulations[%d]" % i: -0.7 - 0.1 * i for i in range(n)})
        run_obligations(rep, "aero states, mixed handedness [%s]" % lab, obs, timeout, replay=rp, levels=(1, 2), relate=[], nominal=nominal,
                        family=lambda ob: "aero states (two symmetric surfaces, one re-described by its other half): " + ob.meta["family"],
                        fixed={"alpha": (3.0, -3.0), "v": 10.0, "rho": 1.1})


def replay_mixed(w, tL, tR):
    """both real AeroPoint models on floats (converged): coefficients and forces must agree"""
    from props import groups

    mw = np.array(K.rect_mesh(w["mesh"].shape[0], w["mesh"].shape[1], True), dtype=float)
    mw[:, :, 0] += 0.2 * np.abs(mw[:, :, 1])
    mt = np.array(K.rect_mesh(tL["mesh"].shape[0], tL["mesh"].shape[1], True, span=4.0, chord=1.0), dtype=float) + np.array([6.0, 0.0, 0.8])
    mtR = mt[:, ::-1, :] * np.array([1.0, -1.0, 1.0])
    vals = {"alpha": 5.0, "v": 50.0, "rho": 1.0}
    pa = groups.aeropoint_problem([w, tL], meshes={"wing": mw, "tail": mt}, vals=vals)
    pb = groups.aeropoint_problem([w, tR], meshes={"wing": mw, "tail": mtR}, vals=vals)
    pa.run_model()
    pb.run_model()
    bad = []
    for q in ("CL", "CD"):
        a, b = float(pa.get_val("aero_point_0." + q)[0]), float(pb.get_val("aero_point_0." + q)[0])
        if model.differs(a, b, 1e-8):
            bad.append("%s = %.9g with the tail's left half, %.9g with its right half" % (q, a, b))
    Fa = np.array(pa.get_val("aero_point_0.aero_states.wing_sec_forces"), dtype=float)
    Fb = np.array(pb.get_val("aero_point_0.aero_states.wing_sec_forces"), dtype=float)
    if np.abs(Fa - Fb).max() > 1e-8 * max(1.0, np.abs(Fa).max()):
        bad.append("wing sectional forces differ by %.3g (relative)" % (np.abs(Fa - Fb).max() / np.abs(Fa).max()))
    return bool(bad), "; ".join(bad) or "both descriptions agree"
