"""C06 - aerodynamic results obey dynamic-pressure, scaling and translation laws."""
from __future__ import annotations

import json

import numpy as np

from symoas import cases as K
from symoas import execute, model, oblig, report
from symoas.model import SymComp, idents, num_inputs, run_obligations
from symoas.npproxy import symbolic_numpy
from symoas.sym import S, ZERO, ONE, PI, Sym, cos, evalf, ge, gt, le, lt, ne, sin, symarray, symify, var

PID = "C06"
A = "aerodynamics."


def law(rep, label, sc, ins, ins2, expect, timeout, assume=(), relate=None, levels=(1, 2), fixed=None):
    """outputs(ins2) == expect[name](outputs(ins)) entry by entry; replay on the real component."""
    rep.encode(type(sc.comp))
    o1 = sc.sym1(ins, assumptions=assume)
    o2 = sc.sym1(ins2, assumptions=assume)
    obs = []
    for name, fn in expect.items():
        want = fn(o1[name])
        got = o2[name]
        for idx in (np.ndindex(*got.shape) if got.shape else [()]):
            obs.append(oblig.Ob("%s%s" % (name, list(idx)), lhs=got[idx], rhs=S(np.asarray(want, dtype=object)[idx]), assume=assume,
                                meta={"family": label, "out": name, "idx": list(idx)}))

    def rp(ob, env):
        envf = model.FillEnv(env)
        r1 = sc.real(num_inputs(ins, envf))
        r2 = sc.real(num_inputs(ins2, envf))
        name, idx = ob.meta["out"], tuple(ob.meta["idx"])
        # expected value from the real first run through the same law (evaluate the symbolic law numerically)
        ref = float(evalf([ob.rhs], envf)[ob.rhs.nid])
        got = float(np.asarray(r2[name])[idx])
        return model.differs(got, ref, 1e-7), "%s %s%s: transformed run gives %.9g, the law predicts %.9g" % (sc.cls, name, list(idx), got, ref)

    run_obligations(rep, "%s: %s" % (sc.cls, label), obs, timeout, replay=rp, family=lambda ob: "%s: %s" % (sc.cls, ob.meta["family"]),
                    relate=relate, relate_assume=assume, levels=levels, fixed=fixed)


def scaled(ins, factors):
    out = {}
    for n, a in ins.items():
        f = factors.get(n)
        out[n] = a if f is None else (np.asarray(a, dtype=object) * f)
    return out


def shifted(ins, shifts):
    out = {}
    for n, a in ins.items():
        t = shifts.get(n)
        out[n] = a if t is None else (np.asarray(a, dtype=object) + np.asarray(t, dtype=object))
    return out


def run(tier, seed, only=None):
    rep = report.Report(PID, tier, seed)
    timeout = 20.0 if tier == "quick" else 60.0
    a, b, k = var("a"), var("b"), var("k")
    t = symarray("t", (3,))
    pos = [gt(a, 0), gt(b, 0), gt(k, 0)]
    # (angles enter the witness search with both signs: a relation that only fails for a negative angle must find its witness)
    fixed = {"a": 1.7, "b": 1.3, "k": 2.0, "alpha[0]": (0.2, -0.2), "beta[0]": (0.1, -0.1)}
    # the full-span case admits y translations; the 3x2 case has two chordwise panels (offsets between chordwise rows)
    cfgs = [("symL_2x2", [K.surface(2, 2, True)]), ("full_2x3", [K.surface(2, 3, False)]), ("symL_3x2", [K.surface(3, 2, True)])]
    if tier == "thorough":
        cfgs += [("symL_2x3+full_2x3", [K.surface(2, 3, True), K.surface(2, 3, False, name="tail")]), ("full_3x3", [K.surface(3, 3, False)])]
    for (cn, ss) in cfgs:
        names = [s["name"] for s in ss]
        npan = sum((s["mesh"].shape[0] - 1) * (s["mesh"].shape[1] - 1) for s in ss)
        # ------------------------------------------------ density / speed
        sc = SymComp(A + "convert_velocity", "ConvertVelocity", surfaces=ss)
        ins = sc.inputs()
        law(rep, "free-stream velocities scale with speed [%s]" % cn, sc, ins, scaled(ins, {"v": b}), {"freestream_velocities": lambda o: o * b}, timeout, pos, fixed=fixed)
        sc = SymComp(A + "mtx_rhs", "VLMMtxRHSComp", surfaces=ss)
        ins = sc.inputs()
        law(rep, "rhs scales with speed, AIC does not [%s]" % cn, sc, ins, scaled(ins, {"freestream_velocities": b}),
            {"rhs": lambda o: o * b, "mtx": lambda o: o}, timeout, pos, fixed=fixed)
        fk = {"%s_coll_pts_vel_mtx" % n: ONE / k for n in names}
        law(rep, "AIC scales with 1/length, rhs does not [%s]" % cn, sc, ins, scaled(ins, fk), {"rhs": lambda o: o, "mtx": lambda o: o / k}, timeout, pos, fixed=fixed)
        sc = SymComp(A + "horseshoe_circulations", "HorseshoeCirculations", surfaces=ss)
        ins = sc.inputs()
        law(rep, "horseshoe circulations are linear in the ring circulations [%s]" % cn, sc, ins, scaled(ins, {"circulations": b}),
            {"horseshoe_circulations": lambda o: o * b}, timeout, pos, fixed=fixed)
        sc = SymComp(A + "eval_velocities", "EvalVelocities", surfaces=ss, eval_name="force_pts", num_eval_points=npan)
        ins = sc.inputs()
        law(rep, "local velocities scale with speed [%s]" % cn, sc, ins, scaled(ins, {"circulations": b, "freestream_velocities": b}),
            {"force_pts_velocities": lambda o: o * b}, timeout, pos, fixed=fixed)
        fk = {"%s_force_pts_vel_mtx" % n: ONE / k for n in names}
        fk["circulations"] = k
        law(rep, "local velocities are scale invariant [%s]" % cn, sc, ins, scaled(ins, fk), {"force_pts_velocities": lambda o: o}, timeout, pos, fixed=fixed)
        sc = SymComp(A + "panel_forces", "PanelForces", surfaces=ss)
        ins = sc.inputs()
        law(rep, "forces scale with rho v^2 [%s]" % cn, sc, ins, scaled(ins, {"rho": a, "horseshoe_circulations": b, "force_pts_velocities": b}),
            {"panel_forces": lambda o: o * (a * b * b)}, timeout, pos, fixed=fixed)
        law(rep, "forces scale with length^2 [%s]" % cn, sc, ins, scaled(ins, {"horseshoe_circulations": k, "bound_vecs": k}),
            {"panel_forces": lambda o: o * (k * k)}, timeout, pos, fixed=fixed)
        # ------------------------------------------------ geometry scaling / translation
        sc = SymComp(A + "collocation_points", "CollocationPoints", surfaces=ss)
        ins = sc.inputs()
        law(rep, "points and bound vectors scale with length [%s]" % cn, sc, ins, scaled(ins, {n: k for n in sc.in_names}),
            {n: (lambda o: o * k) for n in sc.out_names}, timeout, pos, fixed=fixed)
        law(rep, "translation moves points, not bound vectors [%s]" % cn, sc, ins, shifted(ins, {n: t for n in sc.in_names}),
            {"coll_pts": lambda o: o + t, "force_pts": lambda o: o + t, "bound_vecs": lambda o: o}, timeout, fixed=fixed)
        sc = SymComp(A + "vortex_mesh", "VortexMesh", surfaces=ss)
        ins = sc.inputs()
        law(rep, "vortex mesh scales with length [%s]" % cn, sc, ins, scaled(ins, {n: k for n in sc.in_names}),
            {n: (lambda o: o * k) for n in sc.out_names}, timeout, pos, fixed=fixed)
        tx = np.array([t[0], ZERO, t[2]], dtype=object) if any(s["symmetry"] for s in ss) else t  # x,z only when symmetry is active
        law(rep, "vortex mesh translates with the surface [%s]" % cn, sc, ins, shifted(ins, {n: tx for n in sc.in_names}),
            {n: (lambda o: o + tx) for n in sc.out_names}, timeout, fixed=fixed)
        sc = SymComp(A + "get_vectors", "GetVectors", surfaces=ss, eval_name="coll_pts", num_eval_points=npan)
        ins = sc.inputs()
        law(rep, "vortex-to-point vectors are translation invariant [%s]" % cn, sc, ins, shifted(ins, {n: tx for n in sc.in_names}),
            {n: (lambda o: o) for n in sc.out_names}, timeout, fixed=fixed)
        law(rep, "vortex-to-point vectors scale with length [%s]" % cn, sc, ins, scaled(ins, {n: k for n in sc.in_names}),
            {n: (lambda o: o * k) for n in sc.out_names}, timeout, pos, fixed=fixed)
        for s in ss:
            sc = SymComp(A + "geometry", "VLMGeometry", surface=s)
            ins = sc.inputs()
            law(rep, "areas scale with k^2, lengths with k, normals invariant [%s/%s]" % (cn, s["name"]), sc, ins, scaled(ins, {"def_mesh": k}),
                {"S_ref": lambda o: o * k * k, "widths": lambda o: o * k, "lengths": lambda o: o * k, "chords": lambda o: o * k,
                 "lengths_spanwise": lambda o: o * k, "normals": lambda o: o, "b_pts": lambda o: o * k}, timeout, pos, relate=[k, k * k], fixed=fixed)
            law(rep, "geometry is translation invariant [%s/%s]" % (cn, s["name"]), sc, ins, shifted(ins, {"def_mesh": t}),
                {"S_ref": lambda o: o, "widths": lambda o: o, "lengths": lambda o: o, "chords": lambda o: o, "normals": lambda o: o,
                 "b_pts": lambda o: o + t}, timeout, relate=[], fixed=fixed)
            # lift and drag are the components of the summed panel forces normal to / along the free stream
            sc = SymComp(A + "lift_drag", "LiftDrag", surface=s)
            rep.encode(type(sc.comp))
            ins = sc.inputs()
            o = sc.sym1(ins)
            al, be = ins["alpha"][0] * PI / 180, ins["beta"][0] * PI / 180
            F = ins["sec_forces"]
            tot = [sum((F[i, j, c] for i in range(F.shape[0]) for j in range(F.shape[1])), ZERO) * (2 if s["symmetry"] else 1) for c in range(3)]
            Lref = -sin(al) * tot[0] + cos(al) * tot[2]
            Dref = cos(al) * cos(be) * tot[0] - sin(be) * tot[1] + sin(al) * cos(be) * tot[2]
            obs = [oblig.Ob("L", lhs=o["L"][0], rhs=Lref, meta={"family": "lift is the component of the summed panel forces normal to the free stream", "out": "L"}),
                   oblig.Ob("D", lhs=o["D"][0], rhs=Dref, meta={"family": "drag is the component of the summed panel forces along the free stream", "out": "D"})]
            run_obligations(rep, "LiftDrag decomposition [%s/%s]" % (cn, s["name"]), obs, timeout, family=lambda ob: "LiftDrag: " + ob.meta["family"],
                            replay=lambda ob, env, sc=sc, ins=ins: ((lambda got, ref: (model.differs(got, ref), "%s = %.9g, projection of the summed forces %.9g" % (ob.meta["out"], got, ref)))(
                                float(sc.real(num_inputs(ins, model.FillEnv(env)))[ob.meta["out"]][0]), float(evalf([ob.rhs], model.FillEnv(env))[ob.rhs.nid]))))
            law(rep, "L and D scale with the forces [%s/%s]" % (cn, s["name"]), sc, ins, scaled(ins, {"sec_forces": a * b * b}),
                {"L": lambda o: o * (a * b * b), "D": lambda o: o * (a * b * b)}, timeout, pos, fixed=fixed)
            sc = SymComp(A + "lift_coeff_2D", "LiftCoeff2D", surface=s)
            ins = sc.inputs()
            law(rep, "sectional lift coefficient is invariant under rho, v scaling [%s/%s]" % (cn, s["name"]), sc, ins,
                scaled(ins, {"rho": a, "v": b, "sec_forces": a * b * b}), {n: (lambda o: o) for n in sc.out_names}, timeout, pos, fixed=fixed)
            law(rep, "sectional lift coefficient is invariant under length scaling [%s/%s]" % (cn, s["name"]), sc, ins,
                scaled(ins, {"widths": k, "chords": k, "sec_forces": k * k}), {n: (lambda o: o) for n in sc.out_names}, timeout, pos, fixed=fixed)
        sc = SymComp(A + "coeffs", "Coeffs")
        ins = sc.inputs()
        law(rep, "coefficients are invariant under rho, v scaling", sc, ins, scaled(ins, {"rho": a, "v": b, "L": a * b * b, "D": a * b * b}),
            {"CL1": lambda o: o, "CDi": lambda o: o}, timeout, pos, fixed=fixed)
        law(rep, "coefficients are invariant under length scaling", sc, ins, scaled(ins, {"S_ref": k * k, "L": k * k, "D": k * k}),
            {"CL1": lambda o: o, "CDi": lambda o: o}, timeout, pos, fixed=fixed)
        sc = SymComp("functionals.moment_coefficient", "MomentCoefficient", surfaces=ss)
        ins = sc.inputs()
        fq = {"rho": a, "v": b}
        fq.update({n + "_sec_forces": a * b * b for n in names})
        law(rep, "CM is invariant under rho, v scaling [%s]" % cn, sc, ins, scaled(ins, fq), {"CM": lambda o: o, "M": lambda o: o * (a * b * b)}, timeout, pos, fixed=fixed)
        fl = {"cg": k, "S_ref_total": k * k}
        for n in names:
            fl.update({n + "_b_pts": k, n + "_widths": k, n + "_chords": k, n + "_S_ref": k * k, n + "_sec_forces": k * k})
        law(rep, "CM is invariant under length scaling [%s]" % cn, sc, ins, scaled(ins, fl), {"CM": lambda o: o, "M": lambda o: o * (k * k * k)}, timeout, pos, fixed=fixed)
        sh = {"cg": tx}
        sh.update({n + "_b_pts": tx for n in names})
        law(rep, "CM is translation invariant [%s]" % cn, sc, ins, shifted(ins, sh), {"CM": lambda o: o, "M": lambda o: o}, timeout, fixed=fixed)
        sc = SymComp(A + "rotational_velocity", "RotationalVelocity", surfaces=ss)
        ins = sc.inputs()
        law(rep, "rotational onset velocity is invariant under a common translation [%s]" % cn, sc, ins, shifted(ins, {"cg": t, "coll_pts": t}),
            {n: (lambda o: o) for n in sc.out_names}, timeout, fixed=fixed)
    # ------------------------------------------------ drag estimates under length scaling (Reynolds number per length inversely)
    s = K.surface(2, 3, True, with_viscous=True, with_wave=True)
    # every laminar-fraction branch of the skin-friction model: with transition (default), fully turbulent, fully laminar
    for kl in (0.05, 0.0, 1.0):
        skl = dict(s, k_lam=kl)
        sc = SymComp(A + "viscous_drag", "ViscousDrag", surface=skl, with_viscous=True)
        ins = sc.inputs()
        law(rep, "viscous drag coefficient is invariant under length scaling with re/k [k_lam=%g]" % kl, sc, ins,
            scaled(ins, {"re": ONE / k, "widths": k, "lengths": k, "lengths_spanwise": k, "S_ref": k * k}), {"CDv": lambda o: o}, timeout, pos,
            fixed=dict(fixed, **{"re[0]": 2.0e6, "Mach_number[0]": 0.5, "S_ref[0]": 10.0}, **{"t_over_c[%d]" % e: 0.12 for e in range(2)}))
    sc = SymComp(A + "wave_drag", "WaveDrag", surface=s, with_wave=True)
    ins = sc.inputs()
    rep.encode(type(sc.comp))
    p1 = sc.sym(ins)
    p2 = sc.sym(scaled(ins, {"widths": k, "chords": k, "lengths_spanwise": k}), assumptions=pos)
    obs = []
    for x in p1:
        for y in p2:
            if x.label() == y.label():
                obs.append(oblig.Ob("CDw path %s" % x.label(), lhs=y.result["outputs"]["CDw"].ravel()[0], rhs=x.result["outputs"]["CDw"].ravel()[0],
                                    assume=pos + x.conds + y.conds, meta={"family": "wave drag coefficient is invariant under length scaling"}))
    def wave_rp(ob, env, sc=sc):
        v = {"Mach_number": [0.86], "CL": [0.55], "widths": [0.8, 1.4], "chords": [1.6, 1.3, 1.0], "lengths_spanwise": [0.85, 1.5], "t_over_c": [0.12, 0.10]}
        kk = 2.5
        a_ = float(np.ravel(sc.real(v)["CDw"])[0])
        b_ = float(np.ravel(sc.real(dict(v, widths=[kk * x for x in v["widths"]], chords=[kk * x for x in v["chords"]], lengths_spanwise=[kk * x for x in v["lengths_spanwise"]]))["CDw"])[0])
        return model.differs(a_, b_, 1e-9), "CDw = %.12g, after scaling every length by %.3g: %.12g" % (a_, kk, b_)

    run_obligations(rep, "WaveDrag: length scaling", obs, timeout, family=lambda ob: "WaveDrag: " + ob.meta["family"], fixed=fixed, replay=wave_rp)
    kernel_scaling(rep, timeout, k, pos)
    rep.bounds = {"cases": [c[0] for c in cfgs]}
    rep.assumptions = ["real arithmetic", "k, rho- and v-factors positive", "kernel scaling: both configurations outside the absolute 1e-10 kernel tolerance band (the tolerance is scale dependent; inside the band the law is false and this is an assumption, not checked)",
                       "x,z translations only when a symmetric surface is present"]
    return rep.finish("C06: scaling / translation / decomposition identities between two symbolic executions of each real component with related inputs")


def kernel_scaling(rep, timeout, k, pos):
    import openaerostruct.aerodynamics.eval_mtx as em

    rep.encode(em._compute_finite_vortex, em._compute_semi_infinite_vortex)
    r1, r2, u = symarray("r1", (1, 3)), symarray("r2", (1, 3)), symarray("u", (1, 3))
    with symbolic_numpy():
        p0 = execute.explore(lambda: symify(em._compute_finite_vortex(r1, r2)))
        p1 = execute.explore(lambda: symify(em._compute_finite_vortex(r1 * k, r2 * k)), pos)
        s0 = execute.explore(lambda: symify(em._compute_semi_infinite_vortex(u, r2)))
        s1 = execute.explore(lambda: symify(em._compute_semi_infinite_vortex(u, r2 * k)), pos)
    if len(s0) != 1 or len(s1) != 1:
        raise RuntimeError("semi-infinite vortex kernel: %d / %d paths (the lemma below is written for its single expression)" % (len(s0), len(s1)))
    obs = []
    for pa in p0:
        for pb in p1:
            if pa.label() != pb.label():
                continue
            for c in range(3):
                obs.append(oblig.Ob("finite vortex K(k r) = K(r)/k [%d] path %s" % (c, pa.label()), lhs=pb.result[0, c], rhs=pa.result[0, c] / k,
                                    assume=pos + pa.conds + pb.conds, meta={"family": "finite-vortex kernel scales with 1/length"}))
    for c in range(3):
        obs.append(oblig.Ob("semi-infinite vortex K(u, k r) = K(u, r)/k [%d]" % c, lhs=s1[0].result[0, c], rhs=s0[0].result[0, c] / k, assume=pos,
                            meta={"family": "semi-infinite vortex kernel scales with 1/length"}))
    # the band in which a segment's contribution is dropped (and the scaling law is false) is the documented one:
    # |r1||r2| + r1.r2 < 1e-10 m^2 - a larger band reaches panels of realistic size
    from symoas.sym import ge as _ge, sqrt as _sqrt, const as _const
    from fractions import Fraction as _Fr

    dot_ = lambda a, b: sum((a[0, c] * b[0, c] for c in range(3)), ZERO)
    den_ref = _sqrt(dot_(r1, r1)) * _sqrt(dot_(r2, r2)) + dot_(r1, r2)
    for pa in p0:
        res = [pa.result[0, c] for c in range(3)]
        if all((x is ZERO) or (isinstance(x, Sym) and x.op == "const" and float(x.args[0]) == 0.0) for x in res):
            obs.append(oblig.Ob("finite vortex dropped only inside the documented band, path %s" % pa.label(), cond=gt(den_ref, _const(_Fr(1, 10**10))), assume=pa.conds,
                                meta={"family": "a vortex segment is ignored only where |r1||r2| + r1.r2 <= 1e-10 m^2 (the documented tolerance)", "band": True}))

    def kern_rp(ob, env):
        if ob.meta.get("band"):
            # a point 1 mm beside the middle of a 1 m segment: far outside the documented band, the segment must contribute
            r1v, r2v = np.array([[0.5, 1e-3, 0.0]]), np.array([[-0.5, 1e-3, 0.0]])
            val = np.asarray(em._compute_finite_vortex(r1v, r2v), dtype=float)
            den = float(np.linalg.norm(r1v) * np.linalg.norm(r2v) + (r1v * r2v).sum())
            return not np.any(np.abs(val) > 0), "point 1 mm beside a 1 m segment (|r1||r2| + r1.r2 = %.3g m^2): kernel returns %s" % (den, val.ravel())
        rng = np.random.default_rng(3)
        r1v, r2v, uv, kk = rng.standard_normal((1, 3)) + 2.0, rng.standard_normal((1, 3)) - 1.5, np.array([[0.98, 0.0, 0.17]]), 2.0
        a_ = np.asarray(em._compute_finite_vortex(r1v * kk, r2v * kk), dtype=float) * kk
        b_ = np.asarray(em._compute_finite_vortex(r1v, r2v), dtype=float)
        c_ = np.asarray(em._compute_semi_infinite_vortex(uv, r2v * kk), dtype=float) * kk
        d_ = np.asarray(em._compute_semi_infinite_vortex(uv, r2v), dtype=float)
        e = max(np.abs(a_ - b_).max(), np.abs(c_ - d_).max())
        return e > 1e-12, "real kernels: k K(k r) - K(r) = %.3g" % e

    run_obligations(rep, "vortex kernels: length scaling", obs, timeout, relate=[k], relate_assume=pos, family=lambda ob: "kernel: " + ob.meta["family"],
                    fixed={"k": 2.0}, replay=kern_rp)


def replay_file(path):
    spec = json.load(open(path))
    print("recorded counterexample: %s" % spec.get("what"))
    print("VIOLATION property=%s replay=%s" % (PID, path))
    return 1
