"""C03 - outputs and derivatives depend only on the current point, not on history.

One inductive step per component from an *arbitrary* pre-state (every output entry, every Jacobian
storage entry and every mutable instance attribute holds a fresh symbol g): after compute +
compute_partials (apply_nonlinear + linearize) no reported value may depend on g.  An entry that no
path ever writes keeps its declared initial value (that is also what any history leaves there).
"""
from __future__ import annotations

import json
import time

import numpy as np

from props import c01
from symoas import oblig, partials, report

PID = "C03"


def extra_cases(tier):
    """Components whose partials are all approximated (skipped by C01) still have outputs and caches."""
    C = []
    F, K, Case = c01.F, c01.K, partials.Case
    s = K.surface(2, 3, True)
    sw = K.surface(2, 3, True, fem_model_type="wingbox")
    C.append(Case("VonMisesWingbox[symL_2x3]", F("structures.vonmises_wingbox", "VonMisesWingbox", surface=sw)))
    C.append(Case("WingboxFuelVol[symL_2x3]", F("structures.fuel_vol", "WingboxFuelVol", surface=sw)))
    C.append(Case("FuelLoads[symL_2x3]", F("structures.fuel_loads", "FuelLoads", surface=sw)))
    C.append(Case("WingboxFuelVolDelta[symL_2x3]", F("structures.wingbox_fuel_vol_delta", "WingboxFuelVolDelta", surface=sw)))
    C.append(Case("WingboxFuelVolDelta[full_2x3]", F("structures.wingbox_fuel_vol_delta", "WingboxFuelVolDelta", surface=K.surface(2, 3, False, fem_model_type="wingbox"))))
    # wingbox section chain: all partials approximated, so C01's analytic obligations do not apply, but history, input
    # preservation and the complex-step model do
    # (one element: the smooth-maximum shifts fork once per airfoil data point and element)
    C.append(Case("SectionPropertiesWingbox[symL_2x2]", F("structures.section_properties_wingbox", "SectionPropertiesWingbox",
                                                           surface=K.surface(2, 2, True, fem_model_type="wingbox")), max_paths=64))
    C.append(Case("WingboxGeometry[symL_2x3]", F("structures.wingbox_geometry", "WingboxGeometry", surface=sw)))
    C.append(Case("SparWithinWing[symL_2x3]", F("structures.spar_within_wing", "SparWithinWing", surface=s)))
    C.append(Case("ComputePointMassLoads[symL_2x3]", F("structures.compute_point_mass_loads", "ComputePointMassLoads",
                                                       surface=dict(s, n_point_masses=1))))
    C.append(Case("ComputeThrustLoads[symL_2x3]", F("structures.compute_thrust_loads", "ComputeThrustLoads",
                                                    surface=dict(s, n_point_masses=1))))
    # CreateRHS with a load set in which some entries are exactly zero (no moment loads, say) and the others are far above the
    # 1e-6 N zeroing threshold - the usual situation; two entries stay symbolic (zero or above the threshold)
    from symoas.sym import bor, gt, lt, var as _var

    def rhs_over(r):
        ny = r.shapes["total_loads"][0]
        a = np.zeros((ny, 6), dtype=object)
        for j in range(ny):
            a[j, 0], a[j, 2], a[j, 4] = 100.0 + j, -250.0 * (j + 1), 7.5
        a[0, 0], a[ny - 1, 2] = _var("total_loads[0,0]"), _var("total_loads[%d,2]" % (ny - 1))
        return {"total_loads": a}

    def rhs_assume(ins):
        from symoas.sym import Sym

        from symoas.sym import eq

        # each symbolic entry is either exactly zero or well above the threshold (both happen from one run to the next)
        return [bor(gt(x, 1e-6), lt(x, -1e-6), eq(x, 0)) for x in ins["total_loads"].ravel() if isinstance(x, Sym) and x.op == "var"]

    C.append(Case("CreateRHS[zero and non-zero loads]", F("structures.create_rhs", "CreateRHS", surface=s), overrides=rhs_over, assumptions=rhs_assume))
    # AtmosComp: table look-ups by scipy interpolants (exact polynomial pieces, one path per table interval); restricted to
    # a few intervals around 35 000 ft so that the history obligation stays cheap
    from fractions import Fraction

    from props import c17
    from symoas.sym import const, ge

    extra, ac = c17.atmos_stubs()

    def atm_assume(ins):
        a = ins["altitude"][0]
        return [ge(a, const(Fraction(30000))), lt(a, const(Fraction(40000)))]

    def atm_nominal(r, rng):
        return {"altitude": np.array([35000.0 + 100.0 * rng.random()]), "Mach_number": np.array([0.5 + 0.3 * rng.random()])}

    C.append(Case("AtmosComp[30-40 kft]", F("common.atmos_comp", "AtmosComp"), extra=extra, assumptions=atm_assume, nominal=atm_nominal, max_paths=400))
    return C


def family_of(case, ob):
    base = case.name.split("[")[0]
    m = ob.meta
    if m["what"] == "input":
        return "%s modifies its input %s in place path{%s}" % (base, m["of"], c01.stable_path(m["path"]))
    if m["what"] == "output":
        return "%s output %s depends on pre-state path{%s}" % (base, m["of"], c01.stable_path(m["path"]))
    if m["what"] == "jac_again":
        return "%s partial d(%s)/d(%s) changes when linearised a second time at the same point path{%s}" % (base, m["of"], m["wrt"], c01.stable_path(m["path"]))
    return "%s partial d(%s)/d(%s) depends on pre-state path{%s}" % (base, m["of"], m["wrt"], c01.stable_path(m["path"]))


def replay_point(case, env, meta, tol=1e-9):
    """Real code: live Problem evaluated+linearised at another point, then at env, vs a fresh Problem at env."""
    r0 = partials.CompRunner(case.factory(dict(case.cfg)), prerun=False)
    vals = partials.inputs_from_env(r0, env)
    if meta["what"] == "input":
        return replay_input_kept(case, vals, meta)
    if meta["what"] == "jac_again":
        return replay_second_linearisation(case, vals, meta)
    rng = np.random.default_rng(99)
    hv = case.nominal(r0, rng) if case.nominal else partials.default_nominal(r0, rng)
    hist = {n: np.array(hv.get(n, r0.defaults[n]), dtype=float).reshape(r0.shapes[n]) for n in r0.in_names}
    if r0.implicit:
        for n in r0.out_names:
            hist[n] = 0.3 + rng.random(r0.shapes[n])
    _, outs_f, J_f = partials.real_eval(case, vals)
    worst = (0.0, "")
    # histories: another point; the same point; both; and, for caches keyed on part of the inputs, another point that
    # shares exactly one input with the current one (one such history per input)
    shared = []
    if len(r0.in_names) > 1:
        for n in r0.in_names:
            h = dict(hist)
            h[n] = vals[n]
            shared.append([h])
        # ... and, for caches keyed on all inputs but one, another point that differs from the current one in exactly one input
        for n in r0.in_names:
            h = dict(vals)
            h[n] = hist[n]
            shared.append([h])
    # (each history with and without a linearisation after its runs: an approximated linearisation re-runs compute and
    # may refresh a cache that a sequence of plain run_model calls leaves stale)
    for history, hlin in [(h_, True) for h_ in [[hist], [vals], [hist, vals]] + shared] + ([(h_, False) for h_ in [[hist]] + shared] if meta["what"] == "output" else []):
        _, outs_h, J_h = partials.real_eval(case, vals, history=history, history_linearize=hlin, linearize=(meta["what"] != "output"))
        if meta["what"] == "output":
            a, b = np.asarray(outs_f[meta["of"]], dtype=float), np.asarray(outs_h[meta["of"]], dtype=float)
        else:
            key = (meta["of"], meta["wrt"])
            if key not in J_f:
                return None, "pair %s not reported" % (key,)
            a, b = np.real(J_f[key]["J_fwd"]), np.real(J_h[key]["J_fwd"])
        d = float(np.max(np.abs(a - b)))
        sc = max(1.0, float(np.max(np.abs(a))))
        if d / sc > worst[0]:
            worst = (d / sc, "fresh problem max|.|=%.6g, after history (%d earlier linearisations) differs by %.6g in %s" % (
                float(np.max(np.abs(a))), len(history), d,
                meta["of"] if meta["what"] == "output" else "d(%s)/d(%s)" % (meta["of"], meta["wrt"])))
    return worst[0] > tol, worst[1] or "identical after every history tried"


def replay_second_linearisation(case, vals, meta):
    """the real component in a real Problem: run_model once, then compute_totals twice - the second set of derivatives
    must equal the first"""
    import warnings

    import openmdao.api as om

    comp = case.factory(dict(case.cfg))
    r0 = partials.CompRunner(case.factory(dict(case.cfg)), prerun=False)
    if r0.implicit:
        return None, "no second-linearisation replay for implicit components"
    prob = om.Problem(reports=False)
    ivc = om.IndepVarComp()
    for n in r0.in_names:
        ivc.add_output(n, val=np.asarray(vals[n], dtype=float).reshape(r0.shapes[n]), units=r0.comp._var_rel2meta[n].get("units"))
    prob.model.add_subsystem("ivc", ivc, promotes=["*"])
    prob.model.add_subsystem("c", comp, promotes=["*"])
    with warnings.catch_warnings():
        warnings.simplefilter("ignore")
        prob.setup()
        prob.run_model()
        first = np.array(prob.compute_totals(of=[meta["of"]], wrt=[meta["wrt"]], return_format="array"), dtype=float)
        again = np.array(prob.compute_totals(of=[meta["of"]], wrt=[meta["wrt"]], return_format="array"), dtype=float)
    d = float(np.abs(first - again).max())
    sc = max(1e-300, float(np.abs(first).max()))
    return d > 1e-9 * sc, "d(%s)/d(%s): first linearisation max|.| = %.6g, the second one at the same point differs by %.6g" % (meta["of"], meta["wrt"], float(np.abs(first).max()), d)


def replay_input_kept(case, vals, meta):
    """the real component in a real Problem: after run_model the component's own input vector must still hold what the
    source delivered, and the partials OpenMDAO derives from it (also approximated ones) must be those of a second,
    freshly transferred evaluation"""
    import warnings

    import openmdao.api as om

    comp = case.factory(dict(case.cfg))
    prob = om.Problem(reports=False)
    ivc = om.IndepVarComp()
    r0 = partials.CompRunner(case.factory(dict(case.cfg)), prerun=False)
    for n in r0.in_names:
        ivc.add_output(n, val=np.asarray(vals[n], dtype=float).reshape(r0.shapes[n]), units=r0.comp._var_rel2meta[n].get("units"))
    prob.model.add_subsystem("ivc", ivc, promotes=["*"])
    prob.model.add_subsystem("c", comp, promotes=["*"])
    with warnings.catch_warnings():
        warnings.simplefilter("ignore")
        prob.setup(force_alloc_complex=True)
        prob.run_model()
    n = meta["of"]
    given = np.asarray(vals[n], dtype=float).ravel()
    held = np.asarray(comp._inputs[n], dtype=float).ravel()
    d = float(np.abs(given - held).max())
    return d > 1e-12 * max(1.0, float(np.abs(given).max())), "after run_model the component's input %s holds %s, the source delivered %s" % (n, np.round(held, 6), np.round(given, 6))


def run(tier, seed, only=None):
    rep = report.Report(PID, tier, seed)
    cases = c01.build_cases(tier) + extra_cases(tier)
    if only:
        cases = [c for c in cases if any(s in c.name for s in only)]
    timeout = 20.0 if tier == "quick" else 60.0
    for case in cases:
        t0 = time.time()
        try:
            out = partials.run_case(case, rep, want=("C03",), timeout=timeout, validate=False)
        except Exception as e:
            import traceback

            traceback.print_exc()
            rep.errors.append("case %s: %r" % (case.name, e))
            continue
        obs = out["c03"]
        rep.add_obs(case.name, obs)
        s = oblig.summarize(obs)
        g = dict(out["info"])
        g.update({k: s[k] for k in ("obligations", "discharged", "candidate", "inconclusive", "nontrivial")})
        rep.groups.append(g)
        c01.process(case, out, rep, obs, replay_point, family_of)
        rep.log("%-45s paths=%d mutable=%s obl=%d g-dependent=%d disch=%d cand=%d inconc=%d  %.1fs" % (
            case.name, out["info"]["paths"], ",".join(out["info"]["mutable_attrs"]) or "-", s["obligations"],
            s["nontrivial"], s["discharged"], s["candidate"], s["inconclusive"], time.time() - t0))
    rep.bounds = {"tier": tier, "cases": [c.name for c in cases]}
    rep.assumptions = ["OpenMDAO calls compute before the first compute_partials at a point (apply_nonlinear before linearize); it may linearise again without computing",
                       "OpenMDAO's own vectors and solvers carry no state between calls",
                       "real arithmetic"]
    rep.extra["pre_state"] = "outputs, every sub-Jacobian storage entry, and every attribute assigned outside setup (found by ast) are fresh symbols"
    return rep.finish("C03: one inductive step from an arbitrary symbolic pre-state; every reported output and Jacobian "
                      "entry must be independent of the pre-state symbols (solver query expr(x,g) != expr(x,g'))")


def replay_file(path):
    spec = json.load(open(path))
    cases = {c.name: c for c in c01.build_cases("thorough") + extra_cases("thorough")}
    case = cases[spec["case"]]
    bad, what = replay_point(case, spec["env"], spec["meta"])
    print(what)
    if bad:
        print("VIOLATION property=%s replay=%s" % (PID, path))
        return 1
    return 0
