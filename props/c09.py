"""C09 - compressibility correction implements Prandtl-Glauert and is exact at Mach 0 (reduced claim)."""
from __future__ import annotations

import json

import numpy as np

from symoas import cases as K
from symoas import execute, model, oblig, report
from symoas.model import SymComp, idents, num_inputs, run_obligations
from symoas.npproxy import symbolic_numpy
from symoas.sym import S, ZERO, ONE, Sym, cos, evalf, ge, gt, le, lt, ne, sin, sqrt, substitute, symarray, symify, var

PID = "C09"
A = "aerodynamics."


def Tw(a, b):
    ca, sa, cb, sb = cos(a), sin(a), cos(b), sin(b)
    return [[cb * ca, -sb, cb * sa], [sb * ca, cb, sb * sa], [-sa, ZERO, ca]]


def matvec(T, v):
    return [sum((T[i][k] * v[k] for k in range(3)), ZERO) for i in range(3)]


def run(tier, seed, only=None):
    rep = report.Report(PID, tier, seed)
    timeout = 20.0 if tier == "quick" else 60.0
    cfgs = [("1symL_2x2", [K.surface(2, 2, True)]), ("1symL_3x2", [K.surface(3, 2, True)])]
    if tier == "thorough":
        cfgs += [("symL_2x3+full_2x3", [K.surface(2, 3, True), K.surface(2, 3, False, name="tail")])]
    al, be, M = var("alpha[0]"), var("beta[0]"), var("Mach_number[0]")
    for (cn, ss) in cfgs:
        to = SymComp(A + "pg_wind_rotation", "RotateToWindFrame", surfaces=ss, rotational=True)
        fr = SymComp(A + "pg_wind_rotation", "RotateFromWindFrame", surfaces=ss)
        sp = SymComp(A + "pg_scale", "ScaleToPrandtlGlauert", surfaces=ss, rotational=True)
        sf = SymComp(A + "pg_scale", "ScaleFromPrandtlGlauert", surfaces=ss)
        rep.encode(type(to.comp), type(fr.comp), type(sp.comp), type(sf.comp))
        T = Tw(al, be)
        # ---- rotation into the wind frame: every vector quantity is multiplied by the documented matrix
        ins = to.inputs()
        o = to.sym1(ins)
        obs = []
        for n in to.in_names:
            if n in ("alpha", "beta"):
                continue
            outn = n + "_w_frame"
            a, b = ins[n], o[outn]
            for idx in np.ndindex(*a.shape[:-1]):
                ref = matvec(T, [a[idx + (k,)] for k in range(3)])
                for k in range(3):
                    obs.append(oblig.Ob("%s%s" % (outn, list(idx + (k,))), lhs=b[idx + (k,)], rhs=ref[k],
                                        meta={"family": "aero -> wind frame rotation is the documented matrix", "out": outn, "idx": list(idx + (k,))}))

        def rp_to(ob, env, to=to, ins=ins):
            envf = model.FillEnv(env)
            real = to.real(num_inputs(ins, envf))
            got = real[ob.meta["out"]][tuple(ob.meta["idx"])]
            ref = float(evalf([ob.rhs], envf)[ob.rhs.nid])
            return model.differs(got, ref), "%s%s = %.9g, documented rotation gives %.9g" % (ob.meta["out"], ob.meta["idx"], got, ref)

        run_obligations(rep, "RotateToWindFrame[%s]" % cn, obs, timeout, replay=rp_to, family=lambda ob: "RotateToWindFrame: " + ob.meta["family"])
        # ---- from(to(x)) = x : the two rotations are inverse (needs cos^2 + sin^2 = 1)
        obs = []
        for s in ss:
            nm = s["name"]
            F = symarray(nm + "_F", (s["mesh"].shape[0] - 1, s["mesh"].shape[1] - 1, 3))
            Fw = np.empty(F.shape, dtype=object)
            for idx in np.ndindex(*F.shape[:-1]):
                r = matvec(T, [F[idx + (k,)] for k in range(3)])
                for k in range(3):
                    Fw[idx + (k,)] = r[k]
            back = fr.sym1({"alpha": [al], "beta": [be], **{x["name"] + "_sec_forces_w_frame": (Fw if x is s else np.zeros((x["mesh"].shape[0] - 1, x["mesh"].shape[1] - 1, 3))) for x in ss}})
            obs += idents("from(to(F)) %s" % nm, back[nm + "_sec_forces"], F, meta={"family": "rotating back from the wind frame inverts the rotation into it"})
        def inv_rp(ob, env, ss=ss, to=to, fr=fr):
            rng = np.random.default_rng(2)
            bad = []
            # every sign combination of the two angles (rad): a sine recovered from a cosine is right for one sign only
            for sx, (a_, b_) in [(sx_, ab) for sx_ in ss for ab in ((0.13, -0.21), (-0.13, -0.21), (0.13, 0.21), (-0.13, 0.21))]:
                nm = sx["name"]
                shp = (sx["mesh"].shape[0] - 1, sx["mesh"].shape[1] - 1, 3)
                F = rng.standard_normal(shp)
                ca, sa, cb, sb = np.cos(a_), np.sin(a_), np.cos(b_), np.sin(b_)
                T = np.array([[cb * ca, -sb, cb * sa], [sb * ca, cb, sb * sa], [-sa, 0.0, ca]])
                ins_ = {"alpha": [a_], "beta": [b_]}
                for x in ss:
                    sh2 = (x["mesh"].shape[0] - 1, x["mesh"].shape[1] - 1, 3)
                    ins_[x["name"] + "_sec_forces_w_frame"] = (F @ T.T) if x is sx else np.zeros(sh2)
                back = fr.real(ins_)[nm + "_sec_forces"]
                if np.abs(back - F).max() > 1e-12:
                    bad.append("%s, alpha = %+.2f rad, beta = %+.2f rad: rotating T F back gives an error of %.3g" % (nm, a_, b_, np.abs(back - F).max()))
            return bool(bad), "; ".join(bad) or "RotateFromWindFrame inverts the documented rotation"

        run_obligations(rep, "RotateFrom o RotateTo = id[%s]" % cn, obs, timeout, levels=(2,), family=lambda ob: "RotateFromWindFrame: " + ob.meta["family"], replay=inv_rp,
                        fixed={"alpha[0]": (0.13, -0.13), "beta[0]": (-0.21, 0.21)})
        # ---- Prandtl-Glauert scaling exponents
        ins = sp.inputs()
        o = sp.sym1(ins)
        beta_pg = sqrt(ONE - M * M)
        adm = [ge(M, 0), lt(M, S(0.95))]
        obs = []
        for n in sp.in_names:
            if n == "Mach_number":
                continue
            outn = n.replace("_w_frame", "_pg")
            if "normals" in n:
                fac = [beta_pg, ONE, ONE]
            elif "rotational" in n:
                fac = [beta_pg * beta_pg, beta_pg, beta_pg]
            else:
                fac = [ONE, beta_pg, beta_pg]
            a, b = ins[n], o[outn]
            for idx in np.ndindex(*a.shape):
                obs.append(oblig.Ob("%s%s" % (outn, list(idx)), lhs=b[idx], rhs=a[idx] * fac[idx[-1]], assume=adm,
                                    meta={"family": "PG scaling: points (1, b, b), normals (b, 1, 1), rotational velocities (b^2, b, b)", "out": outn, "idx": list(idx)}))
        zero = {"Mach_number[0]": ZERO}
        flat = [b for n in sp.out_names for b in o[n].ravel()]
        at0 = substitute(flat, zero)
        for n in sp.out_names:
            src = ins[n.replace("_pg", "_w_frame")]
            for idx in np.ndindex(*src.shape):
                obs.append(oblig.Ob("M=0: %s%s" % (n, list(idx)), lhs=at0[o[n][idx].nid], rhs=src[idx],
                                    meta={"family": "at Mach 0 the Prandtl-Glauert scaling is the identity", "out": n, "idx": list(idx), "m0": True}))

        def rp_sp(ob, env, sp=sp, ins=ins):
            envf = model.FillEnv(env)
            if ob.meta.get("m0"):
                envf["Mach_number[0]"] = 0.0
            real = sp.real(num_inputs(ins, envf))
            got = real[ob.meta["out"]][tuple(ob.meta["idx"])]
            ref = float(evalf([ob.rhs], envf)[ob.rhs.nid])
            return model.differs(got, ref), "%s%s = %.9g, Prandtl-Glauert rule gives %.9g" % (ob.meta["out"], ob.meta["idx"], got, ref)

        run_obligations(rep, "ScaleToPrandtlGlauert[%s]" % cn, obs, timeout, replay=rp_sp, family=lambda ob: "ScaleToPrandtlGlauert: " + ob.meta["family"],
                        fixed={"Mach_number[0]": 0.5})
        ins = sf.inputs()
        o = sf.sym1(ins)
        obs = []
        for s in ss:
            nm = s["name"]
            a, b = ins[nm + "_sec_forces_pg"], o[nm + "_sec_forces_w_frame"]
            for idx in np.ndindex(*a.shape):
                p = 4 if idx[-1] == 0 else 3
                obs.append(oblig.Ob("%s forces%s" % (nm, list(idx)), lhs=b[idx], rhs=a[idx] / beta_pg**p, assume=adm,
                                    meta={"family": "forces are scaled by 1/b^4 streamwise and 1/b^3 laterally/vertically", "out": nm + "_sec_forces_w_frame", "idx": list(idx)}))
                obs.append(oblig.Ob("M=0: %s forces%s" % (nm, list(idx)), lhs=substitute([b[idx]], zero)[b[idx].nid], rhs=a[idx],
                                    meta={"family": "at Mach 0 the force scaling is the identity", "out": nm + "_sec_forces_w_frame", "idx": list(idx), "m0": True}))

        def rp_sf(ob, env, sf=sf, ins=ins):
            envf = model.FillEnv(env)
            if ob.meta.get("m0"):
                envf["Mach_number[0]"] = 0.0
            real = sf.real(num_inputs(ins, envf))
            got = real[ob.meta["out"]][tuple(ob.meta["idx"])]
            ref = float(evalf([ob.rhs], envf)[ob.rhs.nid])
            return model.differs(got, ref), "%s%s = %.9g, Prandtl-Glauert rule gives %.9g" % (ob.meta["out"], ob.meta["idx"], got, ref)

        run_obligations(rep, "ScaleFromPrandtlGlauert[%s]" % cn, obs, timeout, replay=rp_sf, levels=(1, 2), family=lambda ob: "ScaleFromPrandtlGlauert: " + ob.meta["family"],
                        fixed={"Mach_number[0]": 0.5})
    kernel_covariance(rep, timeout)
    group_level(rep, tier, timeout)
    rep.bounds = {"cases": [c[0] for c in cfgs]}
    rep.assumptions = ["real arithmetic", "0 <= M < 0.95", "kernel covariance: both configurations outside the 1e-10 kernel tolerance band"]
    return rep.finish("C09 (reduced): algebraic identities of the PG pipeline components (rotation matrix, inverse rotation, scaling exponents, "
                      "identity at Mach 0) and rotation covariance of the vortex kernels that makes the wind-frame solve equivalent at M = 0")


def kernel_covariance(rep, timeout):
    """K(R r1, R r2) = R K(r1, r2) for the wind-frame rotation R(alpha, beta); semi-infinite legs with the wake
    direction rotated as well.  With R^T R = I this makes n.K and hence the AIC, rhs and circulations invariant."""
    import openaerostruct.aerodynamics.eval_mtx as em

    rep.encode(em._compute_finite_vortex, em._compute_semi_infinite_vortex)
    a, b = var("alpha"), var("beta")
    T = Tw(a, b)
    r1, r2, u = symarray("r1", (1, 3)), symarray("r2", (1, 3)), symarray("u", (1, 3))

    def rot(v):
        return np.array([matvec(T, list(v[0]))], dtype=object)

    with symbolic_numpy():
        p0 = execute.explore(lambda: symify(em._compute_finite_vortex(r1, r2)))
        p1 = execute.explore(lambda: symify(em._compute_finite_vortex(rot(r1), rot(r2))))
        s0 = execute.explore(lambda: symify(em._compute_semi_infinite_vortex(u, r2)))
        s1 = execute.explore(lambda: symify(em._compute_semi_infinite_vortex(rot(u), rot(r2))))
    obs = []
    for pa in p0:
        for pb in p1:
            if pa.label() != pb.label():
                continue  # mixed tolerance branches cannot occur in exact arithmetic (|den| is rotation invariant): assumption
            ref = matvec(T, list(pa.result[0]))
            for k in range(3):
                obs.append(oblig.Ob("finite vortex covariance [%d] path %s" % (k, pa.label()), lhs=pb.result[0, k], rhs=ref[k], assume=pa.conds + pb.conds,
                                    meta={"family": "finite-vortex kernel is covariant under the wind-frame rotation"}))
    for k in range(3):
        ref = matvec(T, list(s0[0].result[0]))
        obs.append(oblig.Ob("semi-infinite vortex covariance [%d]" % k, lhs=s1[0].result[0, k], rhs=ref[k],
                            meta={"family": "semi-infinite vortex kernel is covariant under the wind-frame rotation"}))
    # orthogonality of the rotation and the wake direction in the wind frame
    for i in range(3):
        for j in range(3):
            obs.append(oblig.Ob("R^T R [%d,%d]" % (i, j), lhs=sum((T[k][i] * T[k][j] for k in range(3)), ZERO), rhs=ONE if i == j else ZERO,
                                meta={"family": "wind-frame rotation is orthogonal"}))
    T0 = Tw(a, ZERO)
    wake = matvec(T0, [cos(a), ZERO, sin(a)])
    for k, want in enumerate((ONE, ZERO, ZERO)):
        obs.append(oblig.Ob("wake direction in wind frame [%d]" % k, lhs=wake[k], rhs=want, meta={"family": "at zero sideslip the wake direction (cos a, 0, sin a) maps to (1, 0, 0)"}))
    def cov_rp(ob, env):
        rng = np.random.default_rng(4)
        a_, b_ = 0.11, 0.23
        ca, sa, cb, sb = np.cos(a_), np.sin(a_), np.cos(b_), np.sin(b_)
        T = np.array([[cb * ca, -sb, cb * sa], [sb * ca, cb, sb * sa], [-sa, 0.0, ca]])
        r1v, r2v, uv = rng.standard_normal((1, 3)) + 2.0, rng.standard_normal((1, 3)) - 1.5, np.array([[0.9, 0.1, 0.2]])
        e1 = np.abs(np.asarray(em._compute_finite_vortex(r1v @ T.T, r2v @ T.T), dtype=float) - np.asarray(em._compute_finite_vortex(r1v, r2v), dtype=float) @ T.T).max()
        e2 = np.abs(np.asarray(em._compute_semi_infinite_vortex(uv @ T.T, r2v @ T.T), dtype=float) - np.asarray(em._compute_semi_infinite_vortex(uv, r2v), dtype=float) @ T.T).max()
        e3 = np.abs(T.T @ T - np.eye(3)).max()
        return max(e1, e2, e3) > 1e-12, "real kernels under the wind-frame rotation: finite %.3g, semi-infinite %.3g, orthogonality %.3g" % (e1, e2, e3)

    run_obligations(rep, "kernel rotation covariance", obs, timeout, levels=(1, 2), relate=[], family=lambda ob: "PG frame: " + ob.meta["family"], replay=cov_rp)


def replay_file(path):
    spec = json.load(open(path))
    print("recorded counterexample: %s" % spec.get("what"))
    print("VIOLATION property=%s replay=%s" % (PID, path))
    return 1


def group_level(rep, tier, timeout):
    """The real CompressibleVLMStates group (inside a real AeroPoint(compressible=True)) executed through its own
    connections, against the real incompressible VLMStates executed the same way on the transformed problem:
    mesh and normals rotated by Tw(alpha, beta) and Prandtl-Glauert scaled, alpha = beta = 0, same v, rho and circulations.
    Residual of the implicit solve: equal.  Sectional forces: Tw^T diag(1/B^4, 1/B^3, 1/B^3) of the transformed ones."""
    from props import groups
    from symoas import kernels, pipe
    from symoas.sym import PI

    cfgs = [("symL_2x2", [K.surface(2, 2, True)], False), ("symL_3x2 rotational", [K.surface(3, 2, True)], True)]
    if tier == "thorough":
        cfgs += [("symL_2x2+full_2x3", [K.surface(2, 2, True), K.surface(2, 3, False, name="tail")], False),
                 ("full_2x3 rotational", [K.surface(2, 3, False)], True)]
    for cn, ss, rotational in cfgs:
        al, be, M = symarray("alpha", (1,)), symarray("beta", (1,)), symarray("Mach_number", (1,))
        v, rho = symarray("v", (1,)), symarray("rho", (1,))
        a_, b_ = al[0] * PI / 180, be[0] * PI / 180
        T = Tw(a_, b_)
        B = sqrt(ONE - M[0] * M[0])
        adm = [ge(M[0], 0), lt(M[0], S(0.95))]
        meshes, normals, meshes_t, normals_t = {}, {}, {}, {}
        for s in ss:
            n = s["name"]
            nx, ny = s["mesh"].shape[:2]
            m = symarray(n + "_def_mesh", (nx, ny, 3))
            if s["symmetry"]:
                for i in range(nx):
                    m[i, ny - 1, 1] = ZERO
            N = symarray(n + "_normals", (nx - 1, ny - 1, 3))
            mt, Nt = np.empty(m.shape, dtype=object), np.empty(N.shape, dtype=object)
            for idx in np.ndindex(nx, ny):
                r = matvec(T, [m[idx + (k,)] for k in range(3)])
                mt[idx + (0,)], mt[idx + (1,)], mt[idx + (2,)] = r[0], r[1] * B, r[2] * B
            for idx in np.ndindex(nx - 1, ny - 1):
                r = matvec(T, [N[idx + (k,)] for k in range(3)])
                Nt[idx + (0,)], Nt[idx + (1,)], Nt[idx + (2,)] = r[0] * B, r[1], r[2]
            meshes[n], normals[n], meshes_t[n], normals_t[n] = m, N, mt, Nt
        npan = sum((s["mesh"].shape[0] - 1) * (s["mesh"].shape[1] - 1) for s in ss)
        gam = symarray("circulations", (npan,))
        root = "aero_point_0.aero_states"

        om_, cg_ = symarray("omega", (3,)), symarray("cg", (3,))

        def run(compressible, ms, ns, a, b, rotvel=None):
            prob = groups.aeropoint_problem(ss, compressible=compressible, rotational=rotational)
            # the transformed reference problem takes its rotational onset velocities from outside (the transformed ones)
            GP = pipe.GroupPipe(prob, root=root, extra=kernels.EVAL_MTX_STUBS, skip=((".rotational_velocity",) if rotvel is not None else ()))
            ext = {"alpha": a, "beta": b, "v": v, "rho": rho, "Mach_number": M, "omega": om_, "cg": cg_}
            for s in ss:
                ext[s["name"] + "_def_mesh"] = ms[s["name"]]
                ext["aero_point_0.%s.normals" % s["name"]] = ns[s["name"]]
            if rotvel is not None:
                ext[root + ".rotational_velocity.rotational_velocities"] = rotvel
            GP.run(external=ext, states={root + ".solve_matrix.circulations": gam})
            return GP

        Gc = run(True, meshes, normals, al, be)
        rotvel_t = None
        if rotational:
            # documented rule: the body-frame onset velocities omega x (r - cg) at the physical collocation points are
            # rotated into the wind frame and scaled by (B^2, B, B)
            rv = Gc.vals[root + ".rotational_velocity.rotational_velocities"]
            rotvel_t = np.empty(rv.shape, dtype=object)
            for r_ in range(rv.shape[0]):
                w3 = matvec(T, [rv[r_, k] for k in range(3)])
                rotvel_t[r_, 0], rotvel_t[r_, 1], rotvel_t[r_, 2] = w3[0] * B * B, w3[1] * B, w3[2] * B
        G0 = run(False, meshes_t, normals_t, np.array([ZERO], dtype=object), np.array([ZERO], dtype=object), rotvel=rotvel_t)
        Gc.encode(rep)
        unexpected = [k for k in list(Gc.guesses) + list(G0.guesses) if not k.endswith("normals")]
        if unexpected:
            rep.errors.append("C09 group level: inputs of the states group not supplied: %r" % (unexpected[:4],))
        obs = []
        Rc, R0 = Gc.resid[root + ".solve_matrix.circulations"], G0.resid[root + ".solve_matrix.circulations"]
        for r in range(npan):
            obs.append(oblig.Ob("residual[%d]" % r, lhs=S(Rc[r]), rhs=S(R0[r]), assume=adm,
                                meta={"family": "compressible states solve the incompressible system of the transformed geometry", "kind": "res"}))
        for s in ss:
            n = s["name"]
            Fc, F0 = Gc.get(root + ".%s_sec_forces" % n), G0.get(root + ".%s_sec_forces" % n)
            for idx in np.ndindex(*Fc.shape[:-1]):
                w = [F0[idx + (0,)] / B**4, F0[idx + (1,)] / B**3, F0[idx + (2,)] / B**3]
                back = [sum((T[k][i] * w[k] for k in range(3)), ZERO) for i in range(3)]  # Tw^T
                for k in range(3):
                    obs.append(oblig.Ob("%s_sec_forces%s" % (n, list(idx + (k,))), lhs=Fc[idx + (k,)], rhs=back[k], assume=adm,
                                        meta={"family": "compressible sectional forces are the transformed-problem forces scaled by 1/B^4, 1/B^3 and rotated back", "kind": "F", "surf": n, "idx": list(idx + (k,))}))

        # mesh-node forces published by the compressible states are those of its own *physical* sectional forces
        mp = SymComp(A + "mesh_point_forces", "MeshPointForces", surfaces=ss)
        want = mp.sym1({s["name"] + "_sec_forces": Gc.get(root + ".%s_sec_forces" % s["name"]) for s in ss})
        for s in ss:
            n = s["name"]
            obs += idents("%s_mesh_point_forces" % n, Gc.get(root + ".%s_mesh_point_forces" % n), want[n + "_mesh_point_forces"], assume=adm,
                          meta={"family": "mesh-node forces of the compressible states come from the physical (back-transformed) sectional forces", "kind": "mpf"})

        def rp(ob, env, ss=ss, rotational=rotational):
            return replay_group(ss, rotational=rotational)

        run_obligations(rep, "real CompressibleVLMStates vs VLMStates on the transformed problem [%s]" % cn, obs, timeout, levels=(1, 2), replay=rp,
                        family=lambda ob: "CompressibleVLMStates: " + ob.meta["family"], fixed={"Mach_number[0]": 0.5, "alpha[0]": (0.13, -0.13), "beta[0]": (-0.21, 0.21)})
    normals_lemma(rep, timeout)


def normals_lemma(rep, timeout):
    """the Prandtl-Glauert-transformed normal (B n_x, n_y, n_z) of the rotated panel is a positive multiple of the true
    unit normal of the rotated and stretched panel, so both tangency conditions have the same solution"""
    from symoas.sym import PI

    s = K.surface(2, 2, True)  # one panel; VLMGeometry's normals do not involve the symmetry flag
    geo = SymComp(A + "geometry", "VLMGeometry", surface=s)
    rep.encode(type(geo.comp))
    al, be, M = var("alpha"), var("beta"), var("M")
    T = Tw(al, be)
    B = sqrt(ONE - M * M)
    m = symarray("mesh", (2, 2, 3))
    mt = np.empty(m.shape, dtype=object)
    for idx in np.ndindex(2, 2):
        r = matvec(T, [m[idx + (k,)] for k in range(3)])
        mt[idx + (0,)], mt[idx + (1,)], mt[idx + (2,)] = r[0], r[1] * B, r[2] * B
    n0 = geo.sym1({"def_mesh": m})["normals"][0, 0]
    n1 = geo.sym1({"def_mesh": mt})["normals"][0, 0]
    r = matvec(T, list(n0))
    nt = [r[0] * B, r[1], r[2]]
    adm = [ge(M, 0), lt(M, S(0.95))]
    obs = []
    cr = [nt[1] * n1[2] - nt[2] * n1[1], nt[2] * n1[0] - nt[0] * n1[2], nt[0] * n1[1] - nt[1] * n1[0]]
    for k in range(3):
        obs.append(oblig.Ob("PG normal x true normal [%d]" % k, lhs=cr[k], rhs=ZERO, assume=adm,
                            meta={"family": "Prandtl-Glauert-scaled normals are parallel to the normals of the stretched geometry"}))
    # orientation: decomposed.  (H) hypotheses proved on the real VLMGeometry output and the rotation, (P) the positivity
    # that follows from them, proved over fresh reals standing for the quantities the hypotheses tie together.
    d1 = [m[0, 1, k] - m[1, 0, k] for k in range(3)]
    d2 = [m[0, 0, k] - m[1, 1, k] for k in range(3)]
    crs = lambda u, w: [u[1] * w[2] - u[2] * w[1], u[2] * w[0] - u[0] * w[2], u[0] * w[1] - u[1] * w[0]]
    c = crs(d1, d2)
    d1t = [mt[0, 1, k] - mt[1, 0, k] for k in range(3)]
    d2t = [mt[0, 0, k] - mt[1, 1, k] for k in range(3)]
    ct = crs(d1t, d2t)
    cc = sum((x * x for x in c), ZERO)
    cct = sum((x * x for x in ct), ZERO)
    Tc = matvec(T, c)
    W = [B * Tc[0], Tc[1], Tc[2]]
    nz = [ne(cc, 0)]
    for k in range(3):
        obs.append(oblig.Ob("H1 n[%d] |c| == c[%d]" % (k, k), lhs=n0[k] * sqrt(cc), rhs=c[k], assume=adm + nz,
                            meta={"family": "VLMGeometry normal is the normalised cross product of the panel diagonals"}))
        obs.append(oblig.Ob("H2 n'[%d] |c'| == c'[%d]" % (k, k), lhs=n1[k] * sqrt(cct), rhs=ct[k], assume=adm + [ne(cct, 0)],
                            meta={"family": "VLMGeometry normal is the normalised cross product of the panel diagonals"}))
        obs.append(oblig.Ob("H3 c'[%d] == B W[%d]" % (k, k), lhs=ct[k], rhs=B * W[k], assume=adm,
                            meta={"family": "cross product of the rotated and stretched diagonals is B (B (Tc)_x, (Tc)_y, (Tc)_z)"}))
    obs.append(oblig.Ob("H4 |Tc|^2 == |c|^2", lhs=sum((x * x for x in Tc), ZERO), rhs=cc, meta={"family": "wind-frame rotation preserves length"}))
    # (P): fresh reals y = Tc, N0 = |c|, N1 = |c'|, b = B
    y = symarray("y", (3,))
    N0, N1, bb = var("N0"), var("N1"), var("b")
    Wv = [bb * y[0], y[1], y[2]]
    nt_v = [bb * (y[0] / N0), y[1] / N0, y[2] / N0]  # (B,1,1) o T (c / N0)
    n1_v = [bb * Wv[k] / N1 for k in range(3)]  # c' / N1 with c' = B W
    obs.append(oblig.Ob("P  H1-H4 imply PG normal . true normal > 0", cond=le(sum((nt_v[k] * n1_v[k] for k in range(3)), ZERO), 0),
                        assume=[gt(N0, 0), gt(N1, 0), gt(bb, 0), gt(y[0] * y[0] + y[1] * y[1] + y[2] * y[2], 0)],
                        meta={"family": "Prandtl-Glauert-scaled normals point the same way as the normals of the stretched geometry"}))
    # replayed through the real compressible group against the real incompressible group on the stretched geometry (the
    # normals enter both the tangency system and the force recovery)
    run_obligations(rep, "PG normals vs stretched-geometry normals (one panel)", obs, timeout, levels=(1, 2), family=lambda ob: "PG frame: " + ob.meta["family"],
                    fixed={"M": 0.5}, replay=lambda ob, env: replay_group([K.surface(2, 3, True)]))


def replay_group(ss, rotational=False):
    """both real models on floats, with sideslip: AeroPoint(compressible=True) against the explicit recipe of the property
    (rotate, stretch, incompressible AeroPoint at alpha = beta = 0, scale, rotate back)"""
    from props import groups

    al, be, M = 4.0, 6.0, 0.6
    ss = [K.surface(3, 5, False, name=s["name"]) for s in ss]  # full-span surfaces: a sideslip witness is meaningful for them
    vals = {"alpha": al, "beta": be, "Mach_number": M, "v": 70.0, "rho": 1.1}
    rng = np.random.default_rng(5)
    meshes = {}
    for k, s in enumerate(ss):
        m = np.array(K.rect_mesh(s["mesh"].shape[0], s["mesh"].shape[1], s["symmetry"], jitter=0.0), dtype=float)
        m[:, :, 0] += 0.3 * np.abs(m[:, :, 1]) + 3.0 * k  # sweep, and the surfaces apart
        m[:, :, 2] += 0.1 * np.abs(m[:, :, 1]) + 0.5 * k
        meshes[s["name"]] = m
    bad = []
    if rotational:
        # with rotation rates the witness is the Mach-0 / zero-sideslip identity: compressible == incompressible
        vr = dict(vals, Mach_number=0.0, beta=0.0, alpha=8.0, omega=np.array([40.0, 15.0, 10.0]) * np.pi / 180.0, cg=np.array([0.5, 0.0, 0.1]))
        p1 = groups.aeropoint_problem(ss, compressible=True, rotational=True, meshes=meshes, vals=vr)
        p2 = groups.aeropoint_problem(ss, compressible=False, rotational=True, meshes=meshes, vals=vr)
        p1.run_model()
        p2.run_model()
        for s in ss:
            n = s["name"]
            F1 = np.asarray(p1.get_val("aero_point_0.aero_states.%s_sec_forces" % n), dtype=float)
            F2 = np.asarray(p2.get_val("aero_point_0.aero_states.%s_sec_forces" % n), dtype=float)
            err = np.abs(F1 - F2).max() / max(1e-30, np.abs(F2).max())
            if err > 1e-8:
                bad.append("%s: at Mach 0, zero sideslip and omega != 0 the compressible forces differ from the incompressible ones by %.3g (relative)" % (n, err))
    pc = groups.aeropoint_problem(ss, compressible=True, meshes=meshes, vals=vals)
    pc.run_model()
    for s in ss:  # mesh-node forces carry the resultant of the physical sectional forces
        n = s["name"]
        Fs = np.asarray(pc.get_val("aero_point_0.aero_states.%s_sec_forces" % n), dtype=float).sum(axis=(0, 1))
        Fm = np.asarray(pc.get_val("aero_point_0.aero_states.%s_mesh_point_forces" % n), dtype=float).sum(axis=(0, 1))
        if np.abs(Fs - Fm).max() > 1e-8 * max(1.0, np.abs(Fs).max()):
            bad.append("%s: mesh-node forces sum to %s, sectional forces to %s" % (n, np.round(Fm, 4), np.round(Fs, 4)))
    a, b = np.radians(al), np.radians(be)
    ca, sa, cb, sb = np.cos(a), np.sin(a), np.cos(b), np.sin(b)
    T = np.array([[cb * ca, -sb, cb * sa], [sb * ca, cb, sb * sa], [-sa, 0.0, ca]])
    Bn = np.sqrt(1 - M * M)
    mt = {n: (m @ T.T) * np.array([1.0, Bn, Bn]) for n, m in meshes.items()}
    p0 = groups.aeropoint_problem(ss, compressible=False, meshes=mt, vals=dict(vals, alpha=0.0, beta=0.0))
    p0.run_model()
    for s in ss:
        n = s["name"]
        Fc = np.asarray(pc.get_val("aero_point_0.aero_states.%s_sec_forces" % n), dtype=float)
        F0 = np.asarray(p0.get_val("aero_point_0.aero_states.%s_sec_forces" % n), dtype=float)
        ref = (F0 / np.array([Bn**4, Bn**3, Bn**3])) @ T
        err = np.abs(Fc - ref).max() / max(1e-30, np.abs(ref).max())
        if err > 1e-7:
            bad.append("%s sectional forces differ from the Prandtl-Glauert recipe by %.3g (relative) at alpha=%g beta=%g M=%g" % (n, err, al, be, M))
    return bool(bad), "; ".join(bad) or "AeroPoint(compressible=True) matches the explicit Prandtl-Glauert recipe"
