"""C09 - compressibility correction implements Prandtl-Glauert and is exact at Mach 0 (reduced claim)."""
from __future__ import annotations

import json

import numpy as np

from symoas import cases as K
from symoas import execute, model, oblig, report
from symoas.model import SymComp, idents, num_inputs, run_obligations
from symoas.npproxy import symbolic_numpy
from symoas.sym import S, ZERO, ONE, Sym, cos, evalf, ge, gt, le, lt, ne, sin, sqrt, substitute, symarray, symify, var

PID = "C09"
A = "aerodynamics."


def Tw(a, b):
    ca, sa, cb, sb = cos(a), sin(a), cos(b), sin(b)
    return [[cb * ca, -sb, cb * sa], [sb * ca, cb, sb * sa], [-sa, ZERO, ca]]


def matvec(T, v):
    return [sum((T[i][k] * v[k] for k in range(3)), ZERO) for i in range(3)]


def run(tier, seed, only=None):
    rep = report.Report(PID, tier, seed)
    timeout = 20.0 if tier == "quick" else 60.0
    cfgs = [("1symL_2x2", [K.surface(2, 2, True)])]
    if tier == "thorough":
        cfgs += [("symL_2x3+full_2x3", [K.surface(2, 3, True), K.surface(2, 3, False, name="tail")])]
    al, be, M = var("alpha[0]"), var("beta[0]"), var("Mach_number[0]")
    for (cn, ss) in cfgs:
        to = SymComp(A + "pg_wind_rotation", "RotateToWindFrame", surfaces=ss, rotational=True)
        fr = SymComp(A + "pg_wind_rotation", "RotateFromWindFrame", surfaces=ss)
        sp = SymComp(A + "pg_scale", "ScaleToPrandtlGlauert", surfaces=ss, rotational=True)
        sf = SymComp(A + "pg_scale", "ScaleFromPrandtlGlauert", surfaces=ss)
        rep.encode(type(to.comp), type(fr.comp), type(sp.comp), type(sf.comp))
        T = Tw(al, be)
        # ---- rotation into the wind frame: every vector quantity is multiplied by the documented matrix
        ins = to.inputs()
        o = to.sym1(ins)
        obs = []
        for n in to.in_names:
            if n in ("alpha", "beta"):
                continue
            outn = n + "_w_frame"
            a, b = ins[n], o[outn]
            for idx in np.ndindex(*a.shape[:-1]):
                ref = matvec(T, [a[idx + (k,)] for k in range(3)])
                for k in range(3):
                    obs.append(oblig.Ob("%s%s" % (outn, list(idx + (k,))), lhs=b[idx + (k,)], rhs=ref[k],
                                        meta={"family": "aero -> wind frame rotation is the documented matrix", "out": outn, "idx": list(idx + (k,))}))

        def rp_to(ob, env, to=to, ins=ins):
            envf = model.FillEnv(env)
            real = to.real(num_inputs(ins, envf))
            got = real[ob.meta["out"]][tuple(ob.meta["idx"])]
            ref = float(evalf([ob.rhs], envf)[ob.rhs.nid])
            return model.differs(got, ref), "%s%s = %.9g, documented rotation gives %.9g" % (ob.meta["out"], ob.meta["idx"], got, ref)

        run_obligations(rep, "RotateToWindFrame[%s]" % cn, obs, timeout, replay=rp_to, family=lambda ob: "RotateToWindFrame: " + ob.meta["family"])
        # ---- from(to(x)) = x : the two rotations are inverse (needs cos^2 + sin^2 = 1)
        obs = []
        for s in ss:
            nm = s["name"]
            F = symarray(nm + "_F", (s["mesh"].shape[0] - 1, s["mesh"].shape[1] - 1, 3))
            Fw = np.empty(F.shape, dtype=object)
            for idx in np.ndindex(*F.shape[:-1]):
                r = matvec(T, [F[idx + (k,)] for k in range(3)])
                for k in range(3):
                    Fw[idx + (k,)] = r[k]
            back = fr.sym1({"alpha": [al], "beta": [be], **{x["name"] + "_sec_forces_w_frame": (Fw if x is s else np.zeros((x["mesh"].shape[0] - 1, x["mesh"].shape[1] - 1, 3))) for x in ss}})
            obs += idents("from(to(F)) %s" % nm, back[nm + "_sec_forces"], F, meta={"family": "rotating back from the wind frame inverts the rotation into it"})
        run_obligations(rep, "RotateFrom o RotateTo = id[%s]" % cn, obs, timeout, levels=(2,), family=lambda ob: "RotateFromWindFrame: " + ob.meta["family"])
        # ---- Prandtl-Glauert scaling exponents
        ins = sp.inputs()
        o = sp.sym1(ins)
        beta_pg = sqrt(ONE - M * M)
        adm = [ge(M, 0), lt(M, S(0.95))]
        obs = []
        for n in sp.in_names:
            if n == "Mach_number":
                continue
            outn = n.replace("_w_frame", "_pg")
            if "normals" in n:
                fac = [beta_pg, ONE, ONE]
            elif "rotational" in n:
                fac = [beta_pg * beta_pg, beta_pg, beta_pg]
            else:
                fac = [ONE, beta_pg, beta_pg]
            a, b = ins[n], o[outn]
            for idx in np.ndindex(*a.shape):
                obs.append(oblig.Ob("%s%s" % (outn, list(idx)), lhs=b[idx], rhs=a[idx] * fac[idx[-1]], assume=adm,
                                    meta={"family": "PG scaling: points (1, b, b), normals (b, 1, 1), rotational velocities (b^2, b, b)", "out": outn, "idx": list(idx)}))
        zero = {"Mach_number[0]": ZERO}
        flat = [b for n in sp.out_names for b in o[n].ravel()]
        at0 = substitute(flat, zero)
        for n in sp.out_names:
            src = ins[n.replace("_pg", "_w_frame")]
            for idx in np.ndindex(*src.shape):
                obs.append(oblig.Ob("M=0: %s%s" % (n, list(idx)), lhs=at0[o[n][idx].nid], rhs=src[idx],
                                    meta={"family": "at Mach 0 the Prandtl-Glauert scaling is the identity", "out": n, "idx": list(idx), "m0": True}))

        def rp_sp(ob, env, sp=sp, ins=ins):
            envf = model.FillEnv(env)
            if ob.meta.get("m0"):
                envf["Mach_number[0]"] = 0.0
            real = sp.real(num_inputs(ins, envf))
            got = real[ob.meta["out"]][tuple(ob.meta["idx"])]
            ref = float(evalf([ob.rhs], envf)[ob.rhs.nid])
            return model.differs(got, ref), "%s%s = %.9g, Prandtl-Glauert rule gives %.9g" % (ob.meta["out"], ob.meta["idx"], got, ref)

        run_obligations(rep, "ScaleToPrandtlGlauert[%s]" % cn, obs, timeout, replay=rp_sp, family=lambda ob: "ScaleToPrandtlGlauert: " + ob.meta["family"],
                        fixed={"Mach_number[0]": 0.5})
        ins = sf.inputs()
        o = sf.sym1(ins)
        obs = []
        for s in ss:
            nm = s["name"]
            a, b = ins[nm + "_sec_forces_pg"], o[nm + "_sec_forces_w_frame"]
            for idx in np.ndindex(*a.shape):
                p = 4 if idx[-1] == 0 else 3
                obs.append(oblig.Ob("%s forces%s" % (nm, list(idx)), lhs=b[idx], rhs=a[idx] / beta_pg**p, assume=adm,
                                    meta={"family": "forces are scaled by 1/b^4 streamwise and 1/b^3 laterally/vertically", "out": nm + "_sec_forces_w_frame", "idx": list(idx)}))
                obs.append(oblig.Ob("M=0: %s forces%s" % (nm, list(idx)), lhs=substitute([b[idx]], zero)[b[idx].nid], rhs=a[idx],
                                    meta={"family": "at Mach 0 the force scaling is the identity", "out": nm + "_sec_forces_w_frame", "idx": list(idx), "m0": True}))

        def rp_sf(ob, env, sf=sf, ins=ins):
            envf = model.FillEnv(env)
            if ob.meta.get("m0"):
                envf["Mach_number[0]"] = 0.0
            real = sf.real(num_inputs(ins, envf))
            got = real[ob.meta["out"]][tuple(ob.meta["idx"])]
            ref = float(evalf([ob.rhs], envf)[ob.rhs.nid])
            return model.differs(got, ref), "%s%s = %.9g, Prandtl-Glauert rule gives %.9g" % (ob.meta["out"], ob.meta["idx"], got, ref)

        run_obligations(rep, "ScaleFromPrandtlGlauert[%s]" % cn, obs, timeout, replay=rp_sf, levels=(1, 2), family=lambda ob: "ScaleFromPrandtlGlauert: " + ob.meta["family"],
                        fixed={"Mach_number[0]": 0.5})
    kernel_covariance(rep, timeout)
    rep.bounds = {"cases": [c[0] for c in cfgs]}
    rep.assumptions = ["real arithmetic", "0 <= M < 0.95", "kernel covariance: both configurations outside the 1e-10 kernel tolerance band"]
    return rep.finish("C09 (reduced): algebraic identities of the PG pipeline components (rotation matrix, inverse rotation, scaling exponents, "
                      "identity at Mach 0) and rotation covariance of the vortex kernels that makes the wind-frame solve equivalent at M = 0")


def kernel_covariance(rep, timeout):
    """K(R r1, R r2) = R K(r1, r2) for the wind-frame rotation R(alpha, beta); semi-infinite legs with the wake
    direction rotated as well.  With R^T R = I this makes n.K and hence the AIC, rhs and circulations invariant."""
    import openaerostruct.aerodynamics.eval_mtx as em

    rep.encode(em._compute_finite_vortex, em._compute_semi_infinite_vortex)
    a, b = var("alpha"), var("beta")
    T = Tw(a, b)
    r1, r2, u = symarray("r1", (1, 3)), symarray("r2", (1, 3)), symarray("u", (1, 3))

    def rot(v):
        return np.array([matvec(T, list(v[0]))], dtype=object)

    with symbolic_numpy():
        p0 = execute.explore(lambda: symify(em._compute_finite_vortex(r1, r2)))
        p1 = execute.explore(lambda: symify(em._compute_finite_vortex(rot(r1), rot(r2))))
        s0 = execute.explore(lambda: symify(em._compute_semi_infinite_vortex(u, r2)))
        s1 = execute.explore(lambda: symify(em._compute_semi_infinite_vortex(rot(u), rot(r2))))
    obs = []
    for pa in p0:
        for pb in p1:
            if pa.label() != pb.label():
                continue  # mixed tolerance branches cannot occur in exact arithmetic (|den| is rotation invariant): assumption
            ref = matvec(T, list(pa.result[0]))
            for k in range(3):
                obs.append(oblig.Ob("finite vortex covariance [%d] path %s" % (k, pa.label()), lhs=pb.result[0, k], rhs=ref[k], assume=pa.conds + pb.conds,
                                    meta={"family": "finite-vortex kernel is covariant under the wind-frame rotation"}))
    for k in range(3):
        ref = matvec(T, list(s0[0].result[0]))
        obs.append(oblig.Ob("semi-infinite vortex covariance [%d]" % k, lhs=s1[0].result[0, k], rhs=ref[k],
                            meta={"family": "semi-infinite vortex kernel is covariant under the wind-frame rotation"}))
    # orthogonality of the rotation and the wake direction in the wind frame
    for i in range(3):
        for j in range(3):
            obs.append(oblig.Ob("R^T R [%d,%d]" % (i, j), lhs=sum((T[k][i] * T[k][j] for k in range(3)), ZERO), rhs=ONE if i == j else ZERO,
                                meta={"family": "wind-frame rotation is orthogonal"}))
    T0 = Tw(a, ZERO)
    wake = matvec(T0, [cos(a), ZERO, sin(a)])
    for k, want in enumerate((ONE, ZERO, ZERO)):
        obs.append(oblig.Ob("wake direction in wind frame [%d]" % k, lhs=wake[k], rhs=want, meta={"family": "at zero sideslip the wake direction (cos a, 0, sin a) maps to (1, 0, 0)"}))
    run_obligations(rep, "kernel rotation covariance", obs, timeout, levels=(1, 2), relate=[], family=lambda ob: "PG frame: " + ob.meta["family"])


def replay_file(path):
    spec = json.load(open(path))
    print("recorded counterexample: %s" % spec.get("what"))
    print("VIOLATION property=%s replay=%s" % (PID, path))
    return 1
