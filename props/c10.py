"""C10 - structural displacements satisfy beam equilibrium with a clamped root.

The real chain ComputeNodes-free part  Transform, Length, LocalStiff, LocalStiffPermuted,
LocalStiffTransformed, FEM.assemble_CSC_K  is executed symbolically and the assembled matrix is
compared entry by entry with an independently written 3-D Euler-Bernoulli frame assembly.
"""
from __future__ import annotations

import json

import numpy as np

from props.c16 import cross, norm3
from symoas import cases as K
from symoas import model, oblig, report
from symoas.harness import VecStore
from symoas.model import SymComp, idents, num_inputs, run_obligations
from symoas.npproxy import symbolic_numpy
from symoas.sym import S, ZERO, ONE, Sym, band, bor, const, evalf, gt, lt, ne, symarray, symify, var, sqrt, eq

PID = "C10"


# ------------------------------------------------------------------------------- independent reference
def element_local(E, G, A, Iy, Iz, J, L):
    """Textbook 12x12 Euler-Bernoulli space-frame element, DOF order (u, v, w, thx, thy, thz) at node 1 then node 2.
    Bending in the local x-z plane uses Iy (rotation thy = -dw/dx), bending in the x-y plane uses Iz."""
    k = [[ZERO] * 12 for _ in range(12)]

    def put(i, j, v):
        k[i][j] = v
        k[j][i] = v

    a = E * A / L
    t = G * J / L
    put(0, 0, a); put(6, 6, a); put(0, 6, -a)
    put(3, 3, t); put(9, 9, t); put(3, 9, -t)
    # x-y plane (v, thz): 12EIz/L^3 etc.
    z1, z2, z3, z4 = 12 * E * Iz / L**3, 6 * E * Iz / L**2, 4 * E * Iz / L, 2 * E * Iz / L
    put(1, 1, z1); put(7, 7, z1); put(1, 7, -z1)
    put(1, 5, z2); put(1, 11, z2); put(5, 7, -z2); put(7, 11, -z2)
    put(5, 5, z3); put(11, 11, z3); put(5, 11, z4)
    # x-z plane (w, thy)
    y1, y2, y3, y4 = 12 * E * Iy / L**3, 6 * E * Iy / L**2, 4 * E * Iy / L, 2 * E * Iy / L
    put(2, 2, y1); put(8, 8, y1); put(2, 8, -y1)
    put(2, 4, -y2); put(2, 10, -y2); put(4, 8, y2); put(8, 10, y2)
    put(4, 4, y3); put(10, 10, y3); put(4, 10, y4)
    return k


def frame_K(nodes, E, G, A, Iy, Iz, J):
    """Direct-stiffness assembly over ny nodes; local triad e1 = d/|d|, e2 = (e1 x xhat)/|e1 x xhat|, e3 = e1 x e2."""
    ny = nodes.shape[0]
    n = 6 * ny
    Kg = [[ZERO] * n for _ in range(n)]
    for e in range(ny - 1):
        d = [nodes[e + 1, c] - nodes[e, c] for c in range(3)]
        L = norm3(d)
        e1 = [d[c] / L for c in range(3)]
        c2 = cross(e1, [ONE, ZERO, ZERO])
        n2 = norm3(c2)
        e2 = [c2[c] / n2 for c in range(3)]
        e3 = cross(e1, e2)
        R = [e1, e2, e3]
        kl = element_local(E, G, A[e], Iy[e], Iz[e], J[e], L)
        # Lambda = blockdiag(R, R, R, R);  k_g = Lambda^T k_l Lambda
        lam = [[ZERO] * 12 for _ in range(12)]
        for b in range(4):
            for i in range(3):
                for j in range(3):
                    lam[3 * b + i][3 * b + j] = R[i][j]
        tmp = [[sum((kl[i][m] * lam[m][j] for m in range(12) if kl[i][m] is not ZERO and lam[m][j] is not ZERO), ZERO) for j in range(12)] for i in range(12)]
        kg = [[sum((lam[m][i] * tmp[m][j] for m in range(12) if lam[m][i] is not ZERO), ZERO) for j in range(12)] for i in range(12)]
        for i in range(12):
            for j in range(12):
                Kg[6 * e + i][6 * e + j] = Kg[6 * e + i][6 * e + j] + kg[i][j]
    return Kg


# ------------------------------------------------------------------------------- real chain
class Chain:
    def __init__(self, s):
        self.s = s
        self.tr = SymComp("structures.transform", "Transform", surface=s)
        self.ln = SymComp("structures.length", "Length", surface=s)
        self.ls = SymComp("structures.local_stiff", "LocalStiff", surface=s)
        self.lp = SymComp("structures.local_stiff_permuted", "LocalStiffPermuted", surface=s)
        self.lt = SymComp("structures.local_stiff_transformed", "LocalStiffTransformed", surface=s)
        self.fem = SymComp("structures.fem", "FEM", surface=s)

    def encode(self, rep):
        for c in (self.tr, self.ln, self.ls, self.lp, self.lt, self.fem):
            rep.encode(type(c.comp))

    def sym_K(self, nodes, A, Iy, Iz, J):
        T = self.tr.sym1({"nodes": nodes})["transform"]
        L = self.ln.sym1({"nodes": nodes})["element_lengths"]
        kl = self.ls.sym1({"A": A, "Iy": Iy, "Iz": Iz, "J": J, "element_lengths": L})["local_stiff"]
        kp = self.lp.sym1({"local_stiff": kl})["local_stiff_permuted"]
        kt = self.lt.sym1({"transform": T, "local_stiff_permuted": kp})["local_stiff_transformed"]
        with symbolic_numpy():
            Kmat = self.fem.comp.assemble_CSC_K(VecStore({"local_stiff_transformed": kt}))
            dense = symify(Kmat.toarray())
            kdata = symify(self.fem.comp.k_data)
        return dense, kt, kdata

    def real_K(self, nodes, A, Iy, Iz, J):
        import openmdao.api as om
        from openaerostruct.structures.assemble_k_group import AssembleKGroup
        from openaerostruct.structures.fem import FEM

        prob = om.Problem(reports=False)
        prob.model.add_subsystem("k", AssembleKGroup(surface=self.s), promotes=["*"])
        prob.setup()
        prob.set_val("nodes", nodes)
        for n, v in (("A", A), ("Iy", Iy), ("Iz", Iz), ("J", J)):
            prob.set_val(n, v)
        prob.run_model()
        kt = np.array(prob.get_val("local_stiff_transformed"))
        fem = self.fem.runner.comp
        return np.asarray(fem.assemble_CSC_K({"local_stiff_transformed": kt}).toarray())


def run(tier, seed, only=None):
    rep = report.Report(PID, tier, seed)
    timeout = 20.0 if tier == "quick" else 90.0
    cfg = [("symL_ny2", 2, True, "tube"), ("full_ny3", 3, False, "tube"), ("symL_ny3[numpy flag]", 3, np.True_, "tube"), ("full_ny5[numpy flag]", 5, np.False_, "tube")]
    if tier == "thorough":
        cfg += [("symL_ny4", 4, True, "tube"), ("symL_ny3_wb", 3, True, "wingbox"), ("full_ny7", 7, False, "tube"), ("full_ny9", 9, False, "tube"), ("symL_ny6", 6, True, "tube")]
    cfg.append(("full_ny3 off the centreline", 3, False, "tube"))
    for (cn, ny, symm, kind) in cfg:
        s = K.surface(2, ny, symm, fem_model_type=kind) if kind == "wingbox" else K.surface(2, ny, symm)
        if "off the centreline" in cn:
            s["mesh"] = s["mesh"] + np.array([0.0, 7.0, 0.0])  # the clamped node is the middle one, wherever the surface sits
        ch = Chain(s)
        ch.encode(rep)
        nodes = symarray("nodes", (ny, 3))
        A, Iy, Iz, J = (symarray(n, (ny - 1,)) for n in ("A", "Iy", "Iz", "J"))
        Kc, kt, kdata = ch.sym_K(nodes, A, Iy, Iz, J)
        E, G = S(s["E"]), S(s["G"])
        Kr = frame_K(nodes, E, G, A, Iy, Iz, J)
        n = 6 * ny
        root = ny - 1 if symm else (ny - 1) // 2

        def rp(ob, env, ch=ch, nodes=nodes, A=A, Iy=Iy, Iz=Iz, J=J, n=n):
            vals = num_inputs({"nodes": nodes, "A": A, "Iy": Iy, "Iz": Iz, "J": J}, env)
            Kn = ch.real_K(vals["nodes"], vals["A"], vals["Iy"], vals["Iz"], vals["J"])
            i, j = ob.meta["idx"]
            if ob.meta["kind"] == "sym":
                a, b = Kn[i, j], Kn[j, i]
                return model.differs(a, b, 1e-9), "K[%d,%d] = %.9g, K[%d,%d] = %.9g" % (i, j, a, j, i, b)
            ref = float(evalf([ob.rhs], model.FillEnv(env))[ob.rhs.nid])
            return model.differs(Kn[i, j], ref, 1e-7), "assembled K[%d,%d] = %.9g, independent frame assembly %.9g" % (i, j, Kn[i, j], ref)

        obs = []
        for i in range(n):
            for j in range(n):
                obs.append(oblig.Ob("K[%d,%d] == frame reference" % (i, j), lhs=Kc[i, j], rhs=Kr[i][j],
                                    meta={"family": "assembled stiffness equals the independent Euler-Bernoulli frame assembly", "idx": [i, j], "kind": "ref"}))
        run_obligations(rep, "K == reference[%s]" % cn, obs, timeout, replay=rp, family=lambda ob: "FEM: " + ob.meta["family"], levels=(1, 2))
        obs = []
        for i in range(n + 6):
            for j in range(i + 1, n + 6):
                obs.append(oblig.Ob("K[%d,%d] == K[%d,%d]" % (i, j, j, i), lhs=Kc[i, j], rhs=Kc[j, i],
                                    meta={"family": "assembled stiffness is symmetric (Maxwell-Betti)", "idx": [i, j], "kind": "sym"}))
        # clamp rows / columns
        for a in range(6):
            for j in range(n + 6):
                want = const(10**9) if j == 6 * root + a else ZERO
                obs.append(oblig.Ob("clamp row K[%d,%d]" % (n + a, j), lhs=Kc[n + a, j], rhs=want,
                                    meta={"family": "constraint rows clamp all six DOFs of the root node", "idx": [n + a, j], "kind": "ref"}))
        run_obligations(rep, "symmetry + clamp rows[%s]" % cn, obs, timeout, replay=rp, family=lambda ob: "FEM: " + ob.meta["family"])
        # residual: R = K u - f, independent of anything else (linearity in loads)
        fem = ch.fem
        u = symarray("disp_aug", (n + 6,))
        f = symarray("forces", (n + 6,))
        with symbolic_numpy():
            R = VecStore({"disp_aug": np.empty(n + 6, dtype=object)})
            fem.comp.apply_nonlinear(VecStore({"local_stiff_transformed": kt, "forces": f}), VecStore({"disp_aug": u}), R)
        Ku = [sum((Kc[i, j] * u[j] for j in range(n + 6) if Kc[i, j] is not ZERO), ZERO) - f[i] for i in range(n + 6)]
        obs = idents("residual", symify(R["disp_aug"]), Ku, meta={"family": "residual is K u - f (linear in loads and displacements)", "kind": "ref"})
        def res_rp(ob, env, ch=ch, s=s, ny=ny):
            from props import c02

            return c02.replay_fem_residual(s, ch)

        run_obligations(rep, "residual = K u - f[%s]" % cn, obs, timeout, family=lambda ob: "FEM: " + ob.meta["family"], replay=res_rp)
        # CreateRHS and Disp
        crhs = SymComp("structures.create_rhs", "CreateRHS", surface=s)
        dsp = SymComp("structures.disp", "Disp", surface=s)
        rep.encode(type(crhs.comp), type(dsp.comp))
        ld = symarray("total_loads", (ny, 6))
        big = [bor(gt(x, 1e-6), lt(x, -1e-6)) for x in ld.ravel()]
        paths = crhs.sym({"total_loads": ld}, assumptions=big)
        obs = []
        for p in paths:
            fo = p.result["outputs"]["forces"]
            obs += idents("forces", fo, list(ld.ravel()) + [ZERO] * 6, assume=big + p.conds,
                          meta={"family": "right-hand side = loads followed by six zero constraint entries", "kind": "ref"})
        dd = dsp.sym1({"disp_aug": u})["disp"]
        obs += idents("disp", dd, np.array(list(u[:n]), dtype=object).reshape(ny, 6), meta={"family": "disp = first 6 ny entries of the augmented solution", "kind": "ref"})
        def rhs_rp(ob, env, crhs=crhs, dsp=dsp, ny=ny, n=n):
            rng = np.random.default_rng(5)
            ldv = 50.0 * (1.0 + rng.random((ny, 6))) * np.where(rng.random((ny, 6)) > 0.5, 1.0, -1.0)
            f_ = crhs.real({"total_loads": ldv})["forces"]
            uv = rng.standard_normal(n + 6)
            d_ = dsp.real({"disp_aug": uv})["disp"]
            bad = np.abs(f_ - np.concatenate([ldv.ravel(), np.zeros(6)])).max() > 1e-9 or np.abs(d_ - uv[:n].reshape(ny, 6)).max() > 1e-12
            return bad, "real CreateRHS / Disp: forces vs loads ++ zeros differ by %.3g, disp vs first 6 ny entries by %.3g" % (
                np.abs(f_ - np.concatenate([ldv.ravel(), np.zeros(6)])).max(), np.abs(d_ - uv[:n].reshape(ny, 6)).max())

        run_obligations(rep, "CreateRHS + Disp[%s]" % cn, obs, timeout, family=lambda ob: "FEM: " + ob.meta["family"], replay=rhs_rp)
    # ---------------- cantilever closed form (ny = 2, beam along -y from the clamped root at the origin)
    cantilever(rep, timeout)
    states_group(rep, tier, timeout)
    from props import groups
    from openaerostruct.structures.tube_group import TubeGroup
    from openaerostruct.structures.assemble_k_group import AssembleKGroup

    fam = "every component of the group works on the group's own variables of the same name"
    st = K.surface(2, 3, True)
    st.update({"thickness_cp": np.array([0.1, 0.2]), "radius_cp": np.array([0.3, 0.4])})
    groups.wiring_check(rep, lambda: TubeGroup(surface=st), "TubeGroup", fam, timeout)
    groups.wiring_check(rep, lambda: AssembleKGroup(surface=st), "AssembleKGroup", fam, timeout)
    # the whole structure-only model of the documentation (geometry, tube sections, set-up, states, functionals)
    from openaerostruct.structures.struct_groups import SpatialBeamAlone

    sa = dict(st, twist_cp=np.zeros(2), struct_weight_relief=True)

    def big_loads(ins):
        return [bor(gt(x, 1e-6), lt(x, -1e-6)) for x in ins["total_loads"].ravel()]

    groups.wiring_check(rep, lambda: SpatialBeamAlone(surface=sa), "SpatialBeamAlone(tube, weight relief)", fam, timeout,
                        assume_for={"CreateRHS": big_loads}, abstract=("total_loads.total_loads", "vonmises.vonmises"))
    # the loads reach the right-hand side in the units the structure works in: no unit-carrying load is joined to a unitless
    # input anywhere between the load transfer and the solve (the real aerostructural model, tube)
    sas = dict(st, twist_cp=np.zeros(2), thickness_cp=np.array([0.1, 0.2]), struct_weight_relief=True, n_point_masses=1)
    groups.units_check(rep, groups.aerostruct_problem(sas), "AerostructPoint model (tube, weight relief, point masses)")
    rep.bounds = {"cases": [c[0] for c in cfg]}
    rep.assumptions = ["real arithmetic", "sparse LU accuracy not modelled (the equation being solved is what is compared)",
                       "loads above the 1e-6 N zeroing threshold", "elements not parallel to the x axis (|e1 x xhat| != 0)"]
    return rep.finish("C10: assembled K from the real chain vs an independent 3-D Euler-Bernoulli frame assembly, entry by entry; "
                      "symmetry; clamp rows; residual form; cantilever closed forms")


def cantilever(rep, timeout):
    s = K.surface(2, 2, True)
    ch = Chain(s)
    Lb = var("L")
    nodes = np.array([[ZERO, -Lb, ZERO], [ZERO, ZERO, ZERO]], dtype=object)  # tip, root (root = last node)
    A, Iy, Iz, J = (symarray(n, (1,)) for n in ("A", "Iy", "Iz", "J"))
    pos = [gt(Lb, 0)] + [gt(x[0], 0) for x in (A, Iy, Iz, J)]
    Kc, kt, _ = ch.sym_K(nodes, A, Iy, Iz, J)
    E, G = S(s["E"]), S(s["G"])
    u = symarray("u", (18,))
    P = var("P")
    obs = []
    # local axes for this element: e1 = +y, e2 = e1 x xhat = -z, e3 = e1 x e2 = -x
    cases = [("axial load along the beam (y)", 1, E * A[0], "EA", 1, None),
             ("transverse load in x (bending, local Iy)", 0, None, "3EI", 0, Iy[0]),
             ("transverse load in z (bending, local Iz)", 2, None, "3EI", 2, Iz[0])]
    for lab, dof, stiff, kind, obs_dof, I in cases:
        f = [ZERO] * 18
        f[dof] = P
        eqs = [eq(sum((Kc[i, j] * u[j] for j in range(18) if Kc[i, j] is not ZERO), ZERO), f[i]) for i in range(18)]
        if kind == "EA":
            ref = P * Lb / stiff
        else:
            ref = P * Lb**3 / (3 * E * I)
        obs.append(oblig.Ob("tip deflection: " + lab, cond=ne(u[obs_dof], ref), assume=pos + eqs,
                            meta={"family": "cantilever tip deflection matches beam theory (" + lab + ")", "kind": "cant"}))
        for k in range(6):
            obs.append(oblig.Ob("root clamped dof %d: %s" % (k, lab), cond=ne(u[6 + k], 0), assume=pos + eqs,
                                meta={"family": "clamped root does not move", "kind": "cant"}))
    # torque about the beam axis
    f = [ZERO] * 18
    f[4] = P
    eqs = [eq(sum((Kc[i, j] * u[j] for j in range(18) if Kc[i, j] is not ZERO), ZERO), f[i]) for i in range(18)]
    obs.append(oblig.Ob("tip twist under torque", cond=ne(u[4], P * Lb / (G * J[0])), assume=pos + eqs,
                        meta={"family": "cantilever twist = T L / (G J)", "kind": "cant"}))
    def cant_rp(ob, env, s=s, ch=ch):
        """the real FEM solve of a one-element cantilever against beam theory"""
        Lv, Av, Iyv, Izv, Jv, Pv = 2.5, 3e-3, 2e-6, 5e-6, 4e-6, 1000.0
        nodes_v = np.array([[0.0, -Lv, 0.0], [0.0, 0.0, 0.0]])
        Kn = ch.real_K(nodes_v, np.array([Av]), np.array([Iyv]), np.array([Izv]), np.array([Jv]))
        Ev, Gv = s["E"], s["G"]
        bad = []
        for lab, dof, ref in (("axial", 1, Pv * Lv / (Ev * Av)), ("bending in x (Iy)", 0, Pv * Lv**3 / (3 * Ev * Iyv)),
                              ("bending in z (Iz)", 2, Pv * Lv**3 / (3 * Ev * Izv)), ("torsion", 4, Pv * Lv / (Gv * Jv))):
            f = np.zeros(18)
            f[dof] = Pv
            u = np.linalg.solve(Kn, f)
            if abs(u[dof] - ref) > 1e-6 * abs(ref):
                bad.append("%s: tip %.9g, beam theory %.9g" % (lab, u[dof], ref))
            if np.abs(u[6:12]).max() > 1e-9 * abs(ref):
                bad.append("%s: clamped root moves by %.3g" % (lab, np.abs(u[6:12]).max()))
        return bool(bad), "; ".join(bad) or "one-element cantilever matches beam theory"

    run_obligations(rep, "cantilever closed forms[ny=2]", obs, timeout, family=lambda ob: "FEM: " + ob.meta["family"],
                    levels=(2,), cut_threshold=0, replay=cant_rp)


def replay_file(path):
    spec = json.load(open(path))
    print("recorded counterexample: %s" % spec.get("what"))
    print("VIOLATION property=%s replay=%s" % (PID, path))
    return 1


def states_group(rep, tier, timeout):
    """The real SpatialBeamStates group with every load option switched on, executed through its own connections: the
    right-hand side of the equation the FEM solves is the prescribed loads plus *all* enabled load sources of the same
    group, followed by six zeros, and the reported disp is the solution's first 6 ny entries."""
    import warnings

    import openmdao.api as om
    from openaerostruct.structures.spatial_beam_states import SpatialBeamStates
    from symoas import pipe

    combos = [("weight relief + point masses", dict(struct_weight_relief=True, n_point_masses=1), "tube"),
              ("fuel + weight relief + point masses (wingbox, switches as NumPy booleans)", dict(struct_weight_relief=np.True_, distributed_fuel_weight=np.True_, n_point_masses=1), "wingbox")]
    if tier == "thorough":
        combos += [("point masses only", dict(n_point_masses=2), "tube"), ("fuel + point masses (wingbox)", dict(distributed_fuel_weight=True, n_point_masses=1), "wingbox")]
    for lab, over, kind in combos:
        ny = 3
        s = K.surface(2, ny, True, fem_model_type="wingbox", **over) if kind == "wingbox" else K.surface(2, ny, True, **over)
        prob = om.Problem(reports=False)
        prob.model.add_subsystem("states", SpatialBeamStates(surface=s), promotes=["*"])
        with warnings.catch_warnings():
            warnings.simplefilter("ignore")
            prob.setup()
            prob.final_setup()

        def big_loads(ins):
            return [bor(gt(x, 1e-6), lt(x, -1e-6)) for x in ins["total_loads"].ravel()]

        GP = pipe.GroupPipe(prob, assume_for={"CreateRHS": big_loads}, abstract=("total_loads.total_loads",))
        n = 6 * ny
        u = symarray("disp_aug", (n + 6,))
        GP.run(states={"fem.disp_aug": u, "disp_aug": u})
        GP.encode(rep)
        g = lambda nm: [v for k, v in GP.vals.items() if k.endswith("." + nm) or k == nm][0]
        loads = [v for k, v in GP.vals.items() if k.startswith("_auto_ivc") and any(a.endswith("total_loads.loads") for a, src in GP.conn.items() if src == k)][0]
        tot = np.array(loads, dtype=object).reshape(ny, 6)
        srcs = ["struct_weight_loads"] * bool(over.get("struct_weight_relief")) + ["fuel_weight_loads"] * bool(over.get("distributed_fuel_weight")) + \
               (["loads_from_point_masses", "loads_from_thrusts"] if "n_point_masses" in over else [])
        for nm in srcs:
            tot = tot + np.asarray(g(nm), dtype=object).reshape(ny, 6)
        tl_sym = g("total_loads")  # what CreateRHS sees: fresh symbols standing for the value computed by TotalLoads
        tl_val = [v for k, v in GP.abstracted.items() if k.endswith("total_loads.total_loads")][0]
        obs = idents("total_loads", tl_val, tot, meta={"family": "loads applied to the beam are the prescribed loads plus every enabled load source of the group (%s)" % lab, "kind": "tot"})
        obs += idents("forces", g("forces"), list(np.asarray(tl_sym, dtype=object).ravel()) + [ZERO] * 6, assume=GP.assumed,
                      meta={"family": "FEM right-hand side is those loads followed by six zero constraint entries (%s)" % lab, "kind": "rhs"})
        obs += idents("disp", g("disp"), np.array(list(u[:n]), dtype=object).reshape(ny, 6), meta={"family": "disp = first 6 ny entries of the augmented solution", "kind": "disp"})

        def rp(ob, env, s=s, over=over, ny=ny):
            return replay_states(s, over, ny)

        run_obligations(rep, "real SpatialBeamStates: %s" % lab, obs, timeout, replay=rp, family=lambda ob: "SpatialBeamStates: " + ob.meta["family"])


def replay_states(s, over, ny):
    """the real group on floats: K u against the sum of the load sources it reports itself"""
    import warnings

    import openmdao.api as om
    from openaerostruct.structures.spatial_beam_states import SpatialBeamStates

    prob = om.Problem(reports=False)
    prob.model.add_subsystem("states", SpatialBeamStates(surface=s), promotes=["*"])
    with warnings.catch_warnings():
        warnings.simplefilter("ignore")
        prob.setup()
    rng = np.random.default_rng(3)
    nodes = np.stack([0.2 * np.arange(ny)[::-1], -1.5 * np.arange(ny)[::-1], 0.05 * np.arange(ny)], axis=1).astype(float)
    prob.set_val("nodes", nodes)
    prob.set_val("loads", 1e3 * (1.0 + rng.random((ny, 6))))
    ch = Chain(s)
    Kn = ch.real_K(nodes, *(1e-3 * (1 + rng.random(ny - 1)), 1e-6 * (1 + rng.random(ny - 1)), 2e-6 * (1 + rng.random(ny - 1)), 3e-6 * (1 + rng.random(ny - 1))))
    import openaerostruct.structures.assemble_k_group as akg
    p2 = om.Problem(reports=False)
    p2.model.add_subsystem("k", akg.AssembleKGroup(surface=s), promotes=["*"])
    p2.setup()
    p2.set_val("nodes", nodes)
    for nm, v in (("A", 1e-3), ("Iy", 1e-6), ("Iz", 2e-6), ("J", 3e-6)):
        p2.set_val(nm, v * np.ones(ny - 1))
    p2.run_model()
    prob.set_val("local_stiff_transformed", p2.get_val("local_stiff_transformed"))
    for nm, v in (("element_mass", 50.0 * (1 + rng.random(ny - 1))), ("load_factor", 2.5), ("fuel_vols", 0.1 * (1 + rng.random(ny - 1))), ("fuel_mass", 900.0),
                  ("point_masses", 400.0 * np.ones(over.get("n_point_masses", 1))), ("engine_thrusts", 3000.0 * np.ones(over.get("n_point_masses", 1))),
                  ("point_mass_locations", np.tile(np.array([0.1, -1.2, -0.2]), (over.get("n_point_masses", 1), 1)))):
        try:
            prob.set_val(nm, v)
        except Exception:
            pass
    with warnings.catch_warnings():
        warnings.simplefilter("ignore")
        prob.run_model()
    tot = np.array(prob.get_val("loads"), dtype=float)
    for nm in ("struct_weight_loads", "fuel_weight_loads", "loads_from_point_masses", "loads_from_thrusts"):
        try:
            tot = tot + np.array(prob.get_val(nm), dtype=float)
        except Exception:
            pass
    Kfull = np.asarray(prob.model.states.fem.assemble_CSC_K({"local_stiff_transformed": np.array(prob.get_val("local_stiff_transformed"))}).toarray())
    ua = np.array(prob.get_val("disp_aug"), dtype=float)
    res = Kfull.dot(ua)[: 6 * ny] - tot.ravel()
    err = float(np.abs(res).max() / np.abs(tot).max())
    return err > 1e-7, "real SpatialBeamStates: |K u - (loads + all enabled load sources)| / |loads| = %.3g" % err
