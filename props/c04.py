"""C04 - a half-span symmetric model is equivalent to the full-span model."""
from __future__ import annotations

import json

import numpy as np

from symoas import cases as K
from symoas import model, oblig, pipe, report
from symoas.model import SymComp, idents, num_inputs, run_obligations
from symoas.sym import S, ZERO, ONE, Sym, evalf, ge, gt, le, lt, ne, symarray, symify, var

PID = "C04"
A = "aerodynamics."
MIR = np.array([1, -1, 1], dtype=object)


def half_mesh(nx, ny, root_y=ZERO, name="m"):
    m = symarray(name, (nx, ny, 3))
    for i in range(nx):
        m[i, ny - 1, 1] = root_y
    return m


def ext_mesh(m):
    """full mesh [left half, mirror of the left half without its root column] (y increasing)"""
    right = m[:, :-1, :][:, ::-1, :] * MIR
    return np.concatenate([m, right], axis=1)


def ext_panel_vec(F):
    """panel vector quantity (nxm, nym, 3) -> full (nxm, 2 nym, 3): mirrored panels in mirrored order"""
    return np.concatenate([F, F[:, ::-1, :] * MIR], axis=1)


def ext_span_scalar(a):
    """per-panel (ny-1) or per-node (ny) spanwise scalar -> full span"""
    a = np.asarray(a, dtype=object)
    return np.concatenate([a, a[::-1]]) if True else a


def ext_nodes_scalar(a):
    a = np.asarray(a, dtype=object)
    return np.concatenate([a, a[:-1][::-1]])


def aero_states(rep, tier, timeout):
    sizes = [(2, 2), (2, 3), (3, 3), (4, 2)] if tier == "quick" else [(2, 2), (2, 3), (3, 3), (4, 2), (2, 4), (3, 4), (5, 3), (2, 6)]
    for (nx, nyh) in sizes:
        for root_on_plane in (True, False):
            if not root_on_plane and (nx, nyh) != sizes[0] and tier == "quick":
                continue
            sh = K.surface(nx, nyh, True)
            sf = K.surface(nx, 2 * nyh - 1, False)
            Ph = pipe.vlm_states([sh])
            Ph.encode(rep)
            y0 = ZERO if root_on_plane else var("y_root")
            m = half_mesh(nx, nyh, y0)
            nym = nyh - 1
            npan = (nx - 1) * nym
            gam = symarray("circulations", (npan,))
            common = {"alpha": [var("alpha")], "beta": [ZERO], "v": [var("v")], "rho": [var("rho")]}
            un = {"alpha": "deg", "beta": "deg", "v": "m/s", "rho": "kg/m**3"}
            nh, _ = Ph.run(dict(common, wing_def_mesh=m, circulations=gam), units=un)
            if root_on_plane:
                Pf = pipe.vlm_states([sf])
                gf = np.empty((nx - 1, 2 * nym), dtype=object)
                g2 = gam.reshape(nx - 1, nym)
                gf[:, :nym] = g2
                gf[:, nym:] = g2[:, ::-1]
                nf, _ = Pf.run(dict(common, wing_def_mesh=ext_mesh(m), circulations=gf.ravel()), units=un)

                def fidx(i, j):
                    return i * (2 * nym) + j
                mir = lambda j: 2 * nym - 1 - j
                lab = "%dx%d" % (nx, nyh)
            else:
                # a symmetric surface that does not touch the symmetry plane: the same two halves modelled explicitly
                sl = K.surface(nx, nyh, False, name="left", from_half=True)
                sr = K.surface(nx, nyh, False, name="right", from_half=True, right=True)
                Pf = pipe.vlm_states([sl, sr])
                g2 = gam.reshape(nx - 1, nym)
                gfull = np.concatenate([g2.ravel(), g2[:, ::-1].ravel()])
                mr = m[:, ::-1, :] * MIR
                nf, _ = Pf.run(dict(common, left_def_mesh=m, right_def_mesh=mr, circulations=gfull), units=un)

                def fidx(i, j):
                    return (i * nym + j) if j < nym else (npan + i * nym + (j - nym))
                mir = lambda j: nym + (nym - 1 - j)
                lab = "%dx%d root off the symmetry plane" % (nx, nyh)
            obs = []
            fam = "half-model AIC equals the full-model AIC with the mirrored panel folded in"
            if not root_on_plane:
                fam = "symmetric surface with its root off the symmetry plane: half-model AIC equals the explicit two-half model"
            for i in range(nx - 1):
                for j in range(nym):
                    r = i * nym + j
                    obs.append(oblig.Ob("rhs[%d]" % r, lhs=nh["rhs"][r], rhs=nf["rhs"][fidx(i, j)], meta={"family": fam.replace("AIC", "rhs"), "kind": "rhs", "idx": [r]}))
                    for i2 in range(nx - 1):
                        for j2 in range(nym):
                            c = i2 * nym + j2
                            obs.append(oblig.Ob("mtx[%d,%d]" % (r, c), lhs=nh["mtx"][r, c],
                                                rhs=nf["mtx"][fidx(i, j), fidx(i2, j2)] + nf["mtx"][fidx(i, j), fidx(i2, mir(j2))],
                                                meta={"family": fam, "kind": "mtx", "idx": [r, c]}))
            sec_h = nh["wing_sec_forces"]
            if root_on_plane:
                sec_f = nf["wing_sec_forces"]
                for idx in np.ndindex(nx - 1, nym, 3):
                    obs.append(oblig.Ob("sec_forces%s" % list(idx), lhs=sec_h[idx], rhs=sec_f[idx],
                                        meta={"family": "half-model sectional forces equal the full-model forces on the modelled half (same circulations)", "kind": "F", "idx": list(idx)}))
                    jm = 2 * nym - 1 - idx[1]
                    obs.append(oblig.Ob("mirrored sec_forces%s" % list(idx), lhs=sec_f[idx[0], jm, idx[2]], rhs=sec_f[idx] * (-1 if idx[2] == 1 else 1),
                                        meta={"family": "full-model forces on the other half are the mirror image", "kind": "Fm", "idx": list(idx), "no_replay": True}))

            def rp(ob, env, sh=sh, sf=sf, m=m, nx=nx, nyh=nyh, root_on_plane=root_on_plane):
                if ob.meta.get("no_replay"):
                    return None, "kernel-level mirror statement"
                return replay_aero(ob, env, sh, sf, m, nx, nyh, root_on_plane)

            # kernel atoms are uninterpreted: the mirrored-force statement needs the kernel mirror lemma, added as C07 work
            obs = [o for o in obs if o.meta["kind"] != "Fm"]
            run_obligations(rep, "VLM states half vs full [%s]" % lab, obs, timeout, replay=rp, family=lambda ob: "aero states: " + ob.meta["family"],
                            fixed={"alpha": (3.0, -3.0), "v": 10.0, "rho": 1.1, "y_root": -0.5}, levels=(1,))


def replay_aero(ob, env, sh, sf, m, nx, nyh, root_on_plane):
    """Real AeroPoint-free replay: real components chained by OpenMDAO (VLMStates), mesh from the witness."""
    import openmdao.api as om
    from openaerostruct.aerodynamics.states import VLMStates
    from openaerostruct.aerodynamics.geometry import VLMGeometry

    envf = model.FillEnv(env)
    mv = num_inputs({"m": m}, envf)["m"]
    # keep the witness mesh a sane left half wing: sort not needed, the identity is algebraic
    def run(surfaces, meshes):
        prob = om.Problem(reports=False)
        ivc = om.IndepVarComp()
        ivc.add_output("alpha", val=float(envf["alpha"]), units="deg")
        ivc.add_output("beta", val=0.0, units="deg")
        ivc.add_output("v", val=float(envf["v"]), units="m/s")
        ivc.add_output("rho", val=float(envf["rho"]), units="kg/m**3")
        for s, mm in zip(surfaces, meshes):
            ivc.add_output(s["name"] + "_def_mesh", val=mm, units="m")
        prob.model.add_subsystem("ivc", ivc, promotes=["*"])
        for s in surfaces:
            prob.model.add_subsystem(s["name"] + "_geom", VLMGeometry(surface=s), promotes_inputs=[("def_mesh", s["name"] + "_def_mesh")],
                                     promotes_outputs=[("normals", s["name"] + "_normals")])
        prob.model.add_subsystem("states", VLMStates(surfaces=surfaces), promotes=["*"])
        prob.setup()
        prob.run_model()
        return prob

    ph = run([sh], [mv])
    nym = nyh - 1
    if root_on_plane:
        full = np.concatenate([mv, mv[:, :-1][:, ::-1] * np.array([1, -1, 1])], axis=1)
        pf = run([sf], [full])
        fidx = lambda i, j: i * (2 * nym) + j
        mir = lambda j: 2 * nym - 1 - j
    else:
        from symoas import cases as K
        sl, sr = K.surface(nx, nyh, False, name="left", from_half=True), K.surface(nx, nyh, False, name="right", from_half=True, right=True)
        pf = run([sl, sr], [mv, mv[:, ::-1] * np.array([1, -1, 1])])
        npan = (nx - 1) * nym
        fidx = lambda i, j: (i * nym + j) if j < nym else (npan + i * nym + (j - nym))
        mir = lambda j: nym + (nym - 1 - j)
    Ah, Af = np.array(ph.get_val("mtx")), np.array(pf.get_val("mtx"))
    k = ob.meta["kind"]
    if k == "mtx":
        r, c = ob.meta["idx"]
        i, j, i2, j2 = r // nym, r % nym, c // nym, c % nym
        got, ref = Ah[r, c], Af[fidx(i, j), fidx(i2, j2)] + Af[fidx(i, j), fidx(i2, mir(j2))]
        return model.differs(got, ref, 1e-7), "half-model AIC[%d,%d] = %.9g, folded full-model AIC = %.9g" % (r, c, got, ref)
    if k == "rhs":
        r = ob.meta["idx"][0]
        got, ref = ph.get_val("rhs")[r], pf.get_val("rhs")[fidx(r // nym, r % nym)]
        return model.differs(got, ref, 1e-7), "half-model rhs[%d] = %.9g, full model %.9g" % (r, got, ref)
    if k == "F":
        idx = tuple(ob.meta["idx"])
        # solved circulations: the converged real models
        got, ref = ph.get_val("wing_sec_forces")[idx], pf.get_val("wing_sec_forces")[idx]
        return model.differs(got, ref, 1e-6), "half-model sec_forces%s = %.9g, full model %.9g (converged circulations)" % (list(idx), got, ref)
    return None, "no replay"


def conventions(rep, tier, timeout):
    """Factor-of-two / symmetric conventions, component by component: half-model output == full-model output on the
    mirror-symmetric extension of the inputs."""
    sizes = [(2, 2), (2, 3), (3, 2)] if tier == "quick" else [(2, 2), (2, 3), (3, 2), (2, 4), (3, 3), (2, 5)]
    for nx, nyh in sizes:
        nyf = 2 * nyh - 1
        nym = nyh - 1
        lab = "nx=%d ny_half=%d" % (nx, nyh)

        def pair(mod, cls, over=None, **kw):
            over = over or {}
            # the flags arrive as NumPy booleans (the result of a comparison) in one size: components must agree on truthiness
            tflag, fflag = (np.True_, np.False_) if (nx, nyh) == (2, 3) else (True, False)
            sh = K.surface(nx, nyh, tflag, **over)
            sf = K.surface(nx, nyf, fflag, **over)
            a = SymComp(mod, cls, surface=sh, **kw)
            b = SymComp(mod, cls, surface=sf, **kw)
            rep.encode(type(a.comp))
            return a, b, sh, sf

        def go(name, a, b, ih, i_f, expect, levels=(1, 2), assume=(), fixed=None):
            oh = a.sym(ih, assumptions=assume)
            of = b.sym(i_f, assumptions=assume)
            obs = []
            for ph in oh:
                for pf in of:
                    if ph.label() != pf.label():
                        continue
                    for out, fn in expect.items():
                        sel = None
                        if isinstance(fn, tuple):
                            sel, fn = fn
                        want = fn(pf.result["outputs"])
                        got = ph.result["outputs"][out]
                        if sel is not None:
                            got = sel(got)
                        for idx in (np.ndindex(*got.shape) if got.shape else [()]):
                            obs.append(oblig.Ob("%s%s path %s" % (out, list(idx), ph.label()), lhs=got[idx], rhs=S(np.asarray(want, dtype=object)[idx]),
                                                assume=list(assume) + ph.conds + pf.conds, meta={"family": name, "out": out, "idx": list(idx)}))

            def rp(ob, env):
                envf = model.FillEnv(env)
                rh = a.real(num_inputs(ih, envf))
                fn = expect[ob.meta["out"]]
                sel = None
                if isinstance(fn, tuple):
                    sel, fn = fn
                gh = np.asarray(rh[ob.meta["out"]])
                if sel is not None:
                    gh = np.asarray(sel(gh))
                got = float(gh[tuple(ob.meta["idx"])])
                rf = b.real(num_inputs(i_f, envf))
                # the expected value is a function of the full-model outputs: evaluate it with the real outputs
                ref = float(np.asarray(fn({k: np.asarray(v, dtype=object) for k, v in rf.items()}), dtype=float)[tuple(ob.meta["idx"])])
                return model.differs(got, ref, 1e-7), "%s %s%s: half model %.9g, full model %.9g" % (a.cls, ob.meta["out"], ob.meta["idx"], got, ref)

            run_obligations(rep, "%s [%s]" % (name, lab), obs, timeout, replay=rp, family=lambda ob: "%s: half model vs full model, %s" % (a.cls, ob.meta["family"]),
                            levels=levels, fixed=fixed)

        m = half_mesh(nx, nyh)
        # VLMGeometry S_ref (wetted and projected)
        for srt in ("wetted", "projected"):
            a, b, _, _ = pair(A + "geometry", "VLMGeometry", over={"S_ref_type": srt})
            go("reference area (%s) already accounts for both halves" % srt, a, b, {"def_mesh": m}, {"def_mesh": ext_mesh(m)},
               {"S_ref": lambda o: o["S_ref"], "widths": lambda o: o["widths"][:nym], "chords": lambda o: o["chords"][:nyh],
                "lengths": lambda o: o["lengths"][:nyh]})
        # LiftDrag at zero sideslip
        a, b, _, _ = pair(A + "lift_drag", "LiftDrag")
        F = symarray("sec_forces", (nx - 1, nym, 3))
        al = [var("alpha")]
        go("lift and drag already account for both halves (zero sideslip)", a, b, {"alpha": al, "beta": [0.0], "sec_forces": F},
           {"alpha": al, "beta": [0.0], "sec_forces": ext_panel_vec(F)}, {"L": lambda o: o["L"], "D": lambda o: o["D"]})
        # TotalLift, TotalDrag (Coeffs has no surface option): coefficients of the surface are built the same way for a half and a full model (the
        # factor of two is in L, D and S_ref already)
        a, b, _, _ = pair(A + "total_lift", "TotalLift", over={"CL0": 0.25})
        go("lift coefficient CL = CL1 + CL0", a, b, {"CL1": [var("CL1")]}, {"CL1": [var("CL1")]}, {"CL": lambda o: o["CL"]})
        a, b, _, _ = pair(A + "total_drag", "TotalDrag", over={"CD0": 0.0125})
        comm = {"CDi": [var("CDi")], "CDv": [var("CDv")], "CDw": [var("CDw")]}
        go("drag coefficient CD = CDi + CDv + CDw + CD0", a, b, comm, comm, {"CD": lambda o: o["CD"]})
        # LiftCoeff2D on the modelled half
        a, b, _, _ = pair(A + "lift_coeff_2D", "LiftCoeff2D")
        w, c = symarray("widths", (nym,)), symarray("chords", (nyh,))
        comm = {"alpha": al, "rho": [var("rho")], "v": [var("v")]}
        go("sectional lift coefficients on the modelled half", a, b, dict(comm, sec_forces=F, widths=w, chords=c),
           dict(comm, sec_forces=ext_panel_vec(F), widths=ext_span_scalar(w), chords=ext_nodes_scalar(c)),
           {"Cl": lambda o: o["Cl"][:nym]})
        # ViscousDrag
        ls, ln, tc = symarray("lengths_spanwise", (nym,)), symarray("lengths", (nyh,)), symarray("t_over_c", (nym,))
        # every branch of the transition model: the dictionary's default, fully turbulent (0) and fully laminar (1)
        for kl in (None, 0.0, 1.0):
            over = {"with_viscous": True}
            if kl is not None:
                over["k_lam"] = kl
            a, b, _, _ = pair(A + "viscous_drag", "ViscousDrag", over=over, with_viscous=True)
            comm = {"re": [var("re")], "Mach_number": [var("M")], "S_ref": [var("S_ref")]}
            go("viscous drag coefficient" + ("" if kl is None else " (k_lam = %g)" % kl), a, b, dict(comm, widths=w, lengths_spanwise=ls, lengths=ln, t_over_c=tc),
               dict(comm, widths=ext_span_scalar(w), lengths_spanwise=ext_span_scalar(ls), lengths=ext_nodes_scalar(ln), t_over_c=ext_span_scalar(tc)),
               {"CDv": lambda o: o["CDv"]})
        # WaveDrag
        a, b, _, _ = pair(A + "wave_drag", "WaveDrag", over={"with_wave": True}, with_wave=True)
        comm = {"Mach_number": [var("M")], "CL": [var("CL")]}
        pos = [gt(x, 0) for x in list(w) + list(ls) + list(c)]
        go("wave drag coefficient", a, b, dict(comm, widths=w, lengths_spanwise=ls, chords=c, t_over_c=tc),
           dict(comm, widths=ext_span_scalar(w), lengths_spanwise=ext_span_scalar(ls), chords=ext_nodes_scalar(c), t_over_c=ext_span_scalar(tc)),
           {"CDw": lambda o: o["CDw"]}, assume=pos, fixed={"M": 0.9, "CL": 0.5})
        # MomentCoefficient (cg on the symmetry plane)
        sh, sf = K.surface(nx, nyh, True), K.surface(nx, nyf, False)
        a = SymComp("functionals.moment_coefficient", "MomentCoefficient", surfaces=[sh])
        b = SymComp("functionals.moment_coefficient", "MomentCoefficient", surfaces=[sf])
        rep.encode(type(a.comp))
        bp = symarray("b_pts", (nx - 1, nyh, 3))
        for i in range(nx - 1):
            bp[i, nyh - 1, 1] = ZERO
        cg = np.array([var("cg_x"), ZERO, var("cg_z")], dtype=object)
        comm = {"cg": cg, "v": [var("v")], "rho": [var("rho")], "S_ref_total": [var("S_ref")], "wing_S_ref": [var("S_ref")]}
        bpf = np.concatenate([bp, bp[:, :-1][:, ::-1] * MIR], axis=1)
        go("pitching moment already accounts for both halves", a, b, dict(comm, wing_b_pts=bp, wing_widths=w, wing_chords=c, wing_sec_forces=F),
           dict(comm, wing_b_pts=bpf, wing_widths=ext_span_scalar(w), wing_chords=ext_nodes_scalar(c), wing_sec_forces=ext_panel_vec(F)),
           {"CM": lambda o: o["CM"], "M": lambda o: o["M"]})
        # MomentCoefficient with two surfaces in every half/full combination against the all-full model: the normalising
        # chord is the first surface's, whatever the other surfaces' symmetry flags are
        if nyh == 2 and nx == 2:
            th_, tf_ = K.surface(nx, nyh, True, name="tail"), K.surface(nx, nyf, False, name="tail")
            bpt = symarray("tail_b_pts", (nx - 1, nyh, 3))
            for i in range(nx - 1):
                bpt[i, nyh - 1, 1] = ZERO
            bptf = np.concatenate([bpt, bpt[:, :-1][:, ::-1] * MIR], axis=1)
            wt_, ct_, Ft = symarray("tail_widths", (nym,)), symarray("tail_chords", (nyh,)), symarray("tail_sec_forces", (nx - 1, nym, 3))
            comm2 = {"cg": cg, "v": [var("v")], "rho": [var("rho")], "S_ref_total": [var("S_ref")], "wing_S_ref": [var("S_w")], "tail_S_ref": [var("S_t")]}
            half_w = dict(wing_b_pts=bp, wing_widths=w, wing_chords=c, wing_sec_forces=F)
            full_w = dict(wing_b_pts=bpf, wing_widths=ext_span_scalar(w), wing_chords=ext_nodes_scalar(c), wing_sec_forces=ext_panel_vec(F))
            half_t = dict(tail_b_pts=bpt, tail_widths=wt_, tail_chords=ct_, tail_sec_forces=Ft)
            full_t = dict(tail_b_pts=bptf, tail_widths=ext_span_scalar(wt_), tail_chords=ext_nodes_scalar(ct_), tail_sec_forces=ext_panel_vec(Ft))
            b2 = SymComp("functionals.moment_coefficient", "MomentCoefficient", surfaces=[sf, tf_])
            for lab2, ws, ts, iw, it in (("wing half, tail full", sh, tf_, half_w, full_t), ("wing full, tail half", sf, th_, full_w, half_t),
                                         ("wing half, tail half", sh, th_, half_w, half_t)):
                a2 = SymComp("functionals.moment_coefficient", "MomentCoefficient", surfaces=[ws, ts])
                go("pitching moment of two surfaces (%s) equals the all-full model" % lab2, a2, b2, dict(comm2, **iw, **it), dict(comm2, **full_w, **full_t),
                   {"CM": (lambda g: g[1:2], lambda o: o["CM"][1:2]), "M": (lambda g: g[1:2], lambda o: o["M"][1:2])})
        # structures: mass, cg, loads, fuel
        nodes = symarray("nodes", (nyh, 3))
        nodes[nyh - 1, 1] = ZERO
        nodes_f = np.concatenate([nodes, nodes[:-1][::-1] * MIR], axis=0)
        Aa = symarray("A", (nym,))
        a, b, _, _ = pair("structures.weight", "Weight")
        go("structural mass accounts for both halves", a, b, {"A": Aa, "nodes": nodes}, {"A": ext_span_scalar(Aa), "nodes": nodes_f},
           {"structural_mass": lambda o: o["structural_mass"], "element_mass": lambda o: o["element_mass"][:nym]}, levels=(1, 2))
        a, b, _, _ = pair("structures.structural_cg", "StructuralCG")
        em = symarray("element_mass", (nym,))
        tot = sum(list(em), ZERO) * 2
        go("structural cg", a, b, {"nodes": nodes, "structural_mass": [tot], "element_mass": em},
           {"nodes": nodes_f, "structural_mass": [tot], "element_mass": ext_span_scalar(em)}, {"cg_location": lambda o: o["cg_location"]})
        a, b, _, _ = pair("structures.wing_weight_loads", "StructureWeightLoads")
        lf = [var("load_factor")]
        go("structural-weight loads on the modelled half (root node excluded: it is clamped)", a, b, {"element_mass": em, "nodes": nodes, "load_factor": lf},
           {"element_mass": ext_span_scalar(em), "nodes": nodes_f, "load_factor": lf}, {"struct_weight_loads": (lambda g: g[:nym], lambda o: np.asarray(o["struct_weight_loads"], dtype=object)[:nym])},
           levels=(1, 2))
        # fuel loads (half share) and fuel-volume margin
        swo = {"fem_model_type": "wingbox"}
        a, b, _, _ = pair("structures.fuel_loads", "FuelLoads", over=swo)
        fvol = symarray("fuel_vols", (nym,))
        fm = [var("fuel_mass")]
        go("fuel-weight loads on the modelled half (root node excluded: it is clamped)", a, b, {"fuel_vols": fvol, "nodes": nodes, "fuel_mass": fm, "load_factor": lf},
           {"fuel_vols": ext_span_scalar(fvol), "nodes": nodes_f, "fuel_mass": fm, "load_factor": lf},
           {"fuel_weight_loads": (lambda g: g[:nym], lambda o: np.asarray(o["fuel_weight_loads"], dtype=object)[:nym])}, levels=(1, 2))
        a, b, _, _ = pair("structures.wingbox_fuel_vol_delta", "WingboxFuelVolDelta", over=swo)
        fb = [var("fuelburn")]
        go("fuel-volume margin of the half model is the half-wing share (same sign as the full-wing margin)", a, b, {"fuelburn": fb, "fuel_vols": fvol},
           {"fuelburn": fb, "fuel_vols": ext_span_scalar(fvol)}, {"fuel_vol_delta": lambda o: np.asarray(o["fuel_vol_delta"], dtype=object) / 2})
        # structure: the full-span stiffness with the centre node clamped decouples; the left block is the half model
        from props import c10
        sh, sf = K.surface(nx, nyh, True), K.surface(nx, nyf, False)
        chh, chf = c10.Chain(sh), c10.Chain(sf)
        chh.encode(rep)
        Aa2, Iy, Iz, Jj = (symarray(n_, (nym,)) for n_ in ("A", "Iy", "Iz", "J"))
        Kh, _, _ = chh.sym_K(nodes, Aa2, Iy, Iz, Jj)
        Kf, _, _ = chf.sym_K(nodes_f, ext_span_scalar(Aa2), ext_span_scalar(Iy), ext_span_scalar(Iz), ext_span_scalar(Jj))
        obs = []
        nl = 6 * nym  # DOFs of the non-root nodes of the modelled half
        for r in range(nl):
            for c in range(6 * nyh):
                obs.append(oblig.Ob("K_full[%d,%d] == K_half" % (r, c), lhs=Kf[r, c], rhs=Kh[r, c], meta={"family": "equations of the modelled half are those of the half model", "idx": [r, c]}))
            for c in range(6 * nyh, 6 * nyf):
                obs.append(oblig.Ob("K_full[%d,%d] == 0" % (r, c), lhs=Kf[r, c], rhs=ZERO, meta={"family": "the modelled half is coupled to the other half only through the clamped centre node", "idx": [r, c]}))
        # the clamp acts on the same node
        for a_ in range(6):
            obs.append(oblig.Ob("clamp row %d" % a_, lhs=Kf[6 * nyf + a_, 6 * (nyh - 1) + a_], rhs=Kh[6 * nyh + a_, 6 * (nyh - 1) + a_],
                                meta={"family": "full-span and half-span models clamp the same (centre / symmetry-plane) node", "idx": [a_, a_]}))
        def fem_rp(ob, env, chh=chh, chf=chf, nodes=nodes, nodes_f=nodes_f, Aa2=Aa2, Iy=Iy, Iz=Iz, Jj=Jj, nyh=nyh, nyf=nyf):
            envf = model.FillEnv(env)
            vh = num_inputs({"nodes": nodes, "A": Aa2, "Iy": Iy, "Iz": Iz, "J": Jj}, envf)
            vf = num_inputs({"nodes": nodes_f, "A": ext_span_scalar(Aa2), "Iy": ext_span_scalar(Iy), "Iz": ext_span_scalar(Iz), "J": ext_span_scalar(Jj)}, envf)
            Kh_ = chh.real_K(vh["nodes"], vh["A"], vh["Iy"], vh["Iz"], vh["J"])
            Kf_ = chf.real_K(vf["nodes"], vf["A"], vf["Iy"], vf["Iz"], vf["J"])
            r, c = ob.meta["idx"]
            if ob.id.startswith("clamp"):
                got, ref = Kf_[6 * nyf + r, 6 * (nyh - 1) + c], Kh_[6 * nyh + r, 6 * (nyh - 1) + c]
            elif ob.id.endswith("== 0"):
                got, ref = Kf_[r, c], 0.0
            else:
                got, ref = Kf_[r, c], Kh_[r, c]
            return model.differs(got, ref, 1e-7), "%s: full-span model %.9g, half-span model %.9g" % (ob.id, got, ref)

        nomf = {}
        for j in range(nyh):
            nomf.update({"nodes[%d,0]" % j: 0.2 * (nyh - 1 - j), "nodes[%d,1]" % j: -1.5 * (nyh - 1 - j), "nodes[%d,2]" % j: 0.05 * (nyh - 1 - j)})
        for e in range(nym):
            nomf.update({"A[%d]" % e: 0.01 + 0.001 * e, "Iy[%d]" % e: 2e-5, "Iz[%d]" % e: 3e-5, "J[%d]" % e: 4e-5})
        run_obligations(rep, "FEM stiffness half vs full [%s]" % lab, obs, timeout, levels=(1, 2), replay=fem_rp, nominal=nomf,
                        family=lambda ob: "FEM: half model vs full model, " + ob.meta["family"])
    return


def run(tier, seed, only=None):
    rep = report.Report(PID, tier, seed)
    timeout = 20.0 if tier == "quick" else 60.0
    if not only or "aero" in only:
        aero_states(rep, tier, timeout)
    if not only or "conv" in only:
        conventions(rep, tier, timeout)
    if not only or "geom" in only:
        geometry_half_full(rep, tier, timeout)
    rep.stubs.add("vortex kernels -> uninterpreted functions (contracts discharged in C01/C05)")
    rep.assumptions = ["real arithmetic", "zero sideslip; cg and symmetric-surface root on the symmetry plane (the off-plane root is posed separately)",
                       "the half and the full model are given the same (symmetrically extended) circulations: equal matrices and right-hand sides imply equal solutions when the system is nonsingular"]
    rep.bounds = {"nx": "2 (quick), 2-3 (thorough)", "ny_half": "2-3 (quick), 2-4 (thorough)"}
    return rep.finish("C04: half-model expressions == full-model expressions on a mirror-symmetric symbolic configuration: AIC fold, rhs, forces, and the "
                      "factor-of-two conventions component by component")


def replay_file(path):
    spec = json.load(open(path))
    print("recorded counterexample: %s" % spec.get("what"))
    print("VIOLATION property=%s replay=%s" % (PID, path))
    return 1


def mirror_right(full, nyh):
    """right half of a full-span mesh, mirrored about y = 0 and re-ordered tip -> root like the left half"""
    out = np.array(full[:, nyh - 1:, :][:, ::-1, :], dtype=full.dtype)
    out[:, :, 1] = -out[:, :, 1]
    return out


def geometry_half_full(rep, tier, timeout):
    """Geometry design variables: the transformation of the modelled half (symmetry=True) equals the left half of the same
    transformation applied to the mirror-symmetric full-span mesh (symmetry=False) with mirror-symmetric design variables."""
    from symoas.sym import lt

    G = "geometry.geometry_mesh_transformations"
    sizes = [(2, 3)] if tier == "quick" else [(2, 3), (3, 3), (2, 4)]
    for (nx, nyh) in sizes:
        nyf = 2 * nyh - 1
        m = np.empty((nx, nyh, 3), dtype=object)
        ys = [var("y[%d]" % j) for j in range(nyh - 1)] + [ZERO]
        for i in range(nx):
            for j in range(nyh):
                m[i, j, 0], m[i, j, 1], m[i, j, 2] = var("x[%d,%d]" % (i, j)), ys[j], var("z[%d,%d]" % (i, j))
        assume = [lt(ys[j], ys[j + 1]) for j in range(nyh - 1)]
        mf = ext_mesh(m)
        cmh = K.rect_mesh(nx, nyh, True)
        cmf = K.rect_mesh(nx, nyf, False)
        extn = lambda a: np.concatenate([np.asarray(a, dtype=object), np.asarray(a, dtype=object)[:-1][::-1]])
        tw, ch, xs, zs = (symarray(n, (nyh,)) for n in ("twist", "chord", "xshear", "zshear"))
        ysh = symarray("yshear", (nyh,))
        ysh[nyh - 1] = ZERO  # the root stays on the symmetry plane
        specs = [("Sweep", dict(val=0.0), {"sweep": [var("sweep")]}, None), ("Dihedral", dict(val=0.0), {"dihedral": [var("dihedral")]}, None),
                 ("Stretch", dict(val=1.0, ref_axis_pos=0.25), {"span": [var("span")]}, None),
                 ("ScaleX", dict(ref_axis_pos=0.25, nosym=True), {"chord": ch}, {"chord": extn(ch)}),
                 ("ShearX", dict(nosym=True), {"xshear": xs}, {"xshear": extn(xs)}), ("ShearZ", dict(nosym=True), {"zshear": zs}, {"zshear": extn(zs)}),
                 ("ShearY", dict(nosym=True), {"yshear": ysh}, {"yshear": np.concatenate([ysh, -ysh[:-1][::-1]])}),
                 ("Rotate", dict(ref_axis_pos=0.25), {"twist": tw}, {"twist": extn(tw)})]
        for cls, kw, dvh, dvf in specs:
            kw = dict(kw)
            nosym = kw.pop("nosym", False)
            dvf = dvf or dvh
            mk = lambda shp, symm, ny: SymComp(G, cls, mesh_shape=shp, **({} if nosym else {"symmetry": symm}),
                                               **({"val": kw["val"]} if "val" in kw else {"val": (np.ones(ny) if cls == "ScaleX" else np.zeros(ny))}),
                                               **{k: v for k, v in kw.items() if k != "val"})
            a, b = mk(cmh.shape, True, nyh), mk(cmf.shape, False, nyf)
            rep.encode(type(a.comp))
            oh = a.sym1(dict(dvh, in_mesh=m), assumptions=assume)["mesh"]
            of = b.sym1(dict(dvf, in_mesh=mf), assumptions=assume)["mesh"]
            obs = idents("mesh", oh, of[:, :nyh, :], assume=assume, meta={"family": "%s: the transformed half mesh is the left half of the transformed full-span mesh" % cls})
            # ... and the other half of the full-span model is its mirror image (the half model stands for both halves)
            obs += idents("mesh", oh, mirror_right(of, nyh), assume=assume,
                          meta={"family": "%s: the right half of the transformed full-span mesh is the mirror image of the transformed half mesh" % cls, "right": True})

            def rp(ob, env, a=a, b=b, dvh=dvh, dvf=dvf):
                envf = model.FillEnv(env)
                rh = a.real(num_inputs(dict(dvh, in_mesh=m), envf))["mesh"]
                rf = b.real(num_inputs(dict(dvf, in_mesh=mf), envf))["mesh"]
                if ob.meta.get("right"):
                    rf = mirror_right(rf, rh.shape[1])
                idx = tuple(ob.meta["idx"])
                return model.differs(rh[idx], rf[idx], 1e-7), "%s: half model mesh%s = %.9g, full model %.9g" % (a.cls, list(idx), rh[idx], rf[idx])

            nominal = {}
            for idx in np.ndindex(nx, nyh):
                nominal["x[%d,%d]" % idx] = float(cmh[idx + (0,)]) + 0.05 * idx[1]
                nominal["z[%d,%d]" % idx] = 0.02 * idx[0] + 0.03 * idx[1]
            for j in range(nyh - 1):
                nominal["y[%d]" % j] = float(cmh[0, j, 1])
            run_obligations(rep, "%s half vs full [%dx%d]" % (cls, nx, nyh), obs, timeout, replay=rp, levels=(1, 2), relate=[],
                            family=lambda ob: "geometry: half model vs full model, " + ob.meta["family"], nominal=nominal,
                            fixed={"sweep": (20.0, -20.0), "dihedral": (10.0, -10.0), "span": 12.0})
        # Taper keeps its mesh as an option: concrete meshes swapped for the symbolic ones after set-up
        a = SymComp(G, "Taper", val=1.0, mesh=cmh, symmetry=True, ref_axis_pos=0.25)
        b = SymComp(G, "Taper", val=1.0, mesh=cmf, symmetry=False, ref_axis_pos=0.25)
        a.comp.options["mesh"], b.comp.options["mesh"] = m, mf
        try:
            oh = a.sym1({"taper": [var("taper")]}, assumptions=assume)["mesh"]
            of = b.sym1({"taper": [var("taper")]}, assumptions=assume)["mesh"]
        finally:
            a.comp.options["mesh"], b.comp.options["mesh"] = cmh, cmf
        obs = idents("mesh", oh, of[:, :nyh, :], assume=assume, meta={"family": "Taper: the transformed half mesh is the left half of the transformed full-span mesh"})
        obs += idents("mesh", oh, mirror_right(of, nyh), assume=assume,
                      meta={"family": "Taper: the right half of the transformed full-span mesh is the mirror image of the transformed half mesh", "right": True})

        def rpt(ob, env):
            envf = model.FillEnv(env)
            mv = num_inputs({"m": m}, envf)["m"]
            mfv = np.concatenate([mv, mv[:, :-1][:, ::-1] * np.array([1.0, -1.0, 1.0])], axis=1)
            rh = SymComp(G, "Taper", val=1.0, mesh=mv, symmetry=True, ref_axis_pos=0.25).real({"taper": [envf["taper"]]})["mesh"]
            rf = SymComp(G, "Taper", val=1.0, mesh=mfv, symmetry=False, ref_axis_pos=0.25).real({"taper": [envf["taper"]]})["mesh"]
            if ob.meta.get("right"):
                rf = mirror_right(rf, rh.shape[1])
            idx = tuple(ob.meta["idx"])
            return model.differs(rh[idx], rf[idx], 1e-7), "Taper: half model mesh%s = %.9g, full model %.9g" % (list(idx), rh[idx], rf[idx])

        run_obligations(rep, "Taper half vs full [%dx%d]" % (nx, nyh), obs, timeout, replay=rpt, levels=(1, 2),
                        family=lambda ob: "geometry: half model vs full model, " + ob.meta["family"], nominal=nominal, fixed={"taper": 0.5})
