"""Key-validation loops translated from the current source (AST) to SMT over strings (C20).

CrossHair cannot exhaust the warning paths (the `warnings` machinery realises the symbolic key), so the two key-checking
loops are lowered by hand-written translation of their AST: the loop  `for key in <dict>.keys(): if <cond>: warnings.warn(...,
category=RuntimeWarning)`  is recognised, <cond> is translated to a z3 formula over a symbolic string `key` (supported:
in / not in a list of literals or a dict of literal keys, and/or/not, ==, !=, len() comparisons, str.startswith), and the
query  `key is not a documented key  and  not cond(key)`  must be unsat (every unknown key warns), while
`key is a documented key and cond(key)` must be unsat too (no spurious warning).  Anything outside the supported subset is
reported inconclusive.  The encoding is regenerated from /repo's source on every run.
"""
import ast
import inspect
import textwrap

import z3


class Unsupported(Exception):
    pass


def _literal_strings(node, env):
    """list/tuple of string constants, a Name bound to one in env, or the keys of a dict literal"""
    if isinstance(node, (ast.List, ast.Tuple, ast.Set)):
        out = []
        for e in node.elts:
            if isinstance(e, ast.Constant) and isinstance(e.value, str):
                out.append(e.value)
            else:
                raise Unsupported("non-literal list element")
        return out
    if isinstance(node, ast.Dict):
        out = []
        for k in node.keys:
            if isinstance(k, ast.Constant) and isinstance(k.value, str):
                out.append(k.value)
            else:
                raise Unsupported("non-literal dict key")
        return out
    if isinstance(node, ast.Name) and node.id in env:
        return env[node.id]
    if isinstance(node, ast.Name):
        raise _Stateful(node.id)
    raise Unsupported("collection %s" % ast.dump(node)[:60])


class _Stateful(Exception):
    """membership in a container that is not a literal of the function: a module-level (or otherwise external) object"""

    def __init__(self, name):
        self.name = name


MUTATORS = ("add", "append", "extend", "update", "insert", "setdefault", "pop", "remove", "discard", "clear", "__setitem__")


def external_container(fn, name):
    """-> ('const', values) if `name` is a module-level container of strings that no code of the module mutates,
    ('state', None) if it is mutated somewhere (its contents depend on the history of the process), else raises"""
    g = getattr(fn, "__globals__", {})
    if name not in g:
        raise Unsupported("free name %s" % name)
    val = g[name]
    if not isinstance(val, (set, frozenset, list, tuple, dict)):
        raise Unsupported("free name %s is a %s" % (name, type(val).__name__))
    import sys

    mod = sys.modules.get(fn.__module__)
    tree = ast.parse(inspect.getsource(mod))
    mutated = False
    for node in ast.walk(tree):
        if isinstance(node, ast.Call) and isinstance(node.func, ast.Attribute) and isinstance(node.func.value, ast.Name) and node.func.value.id == name \
                and node.func.attr in MUTATORS:
            mutated = True
        if isinstance(node, (ast.Assign, ast.AugAssign, ast.Delete)):
            for t in (node.targets if not isinstance(node, ast.AugAssign) else [node.target]):
                for sub in ast.walk(t):
                    if isinstance(sub, ast.Subscript) and isinstance(sub.value, ast.Name) and sub.value.id == name:
                        mutated = True
        if isinstance(node, ast.Global) and name in node.names:
            mutated = True
    if mutated or not isinstance(val, (frozenset, tuple)) and False:
        return "state", None
    if all(isinstance(v, str) for v in val):
        return "const", sorted(val)
    raise Unsupported("container %s holds non-strings" % name)


def translate(cond, key, env):
    if isinstance(cond, ast.BoolOp):
        parts = [translate(v, key, env) for v in cond.values]
        return z3.And(*parts) if isinstance(cond.op, ast.And) else z3.Or(*parts)
    if isinstance(cond, ast.UnaryOp) and isinstance(cond.op, ast.Not):
        return z3.Not(translate(cond.operand, key, env))
    if isinstance(cond, ast.Compare) and len(cond.ops) == 1:
        l, op, r = cond.left, cond.ops[0], cond.comparators[0]
        if isinstance(l, ast.Name) and l.id == "key":
            if isinstance(op, (ast.In, ast.NotIn)):
                try:
                    vals = _literal_strings(r, env)
                    f = z3.Or(*[key == z3.StringVal(v) for v in vals]) if vals else z3.BoolVal(False)
                except _Stateful as st:
                    kind, vals = external_container(env["__fn__"], st.name)
                    if kind == "const":
                        f = z3.Or(*[key == z3.StringVal(v) for v in vals]) if vals else z3.BoolVal(False)
                    else:
                        # contents left behind by earlier calls / other Problems of the same process: arbitrary
                        f = z3.Function("in_" + st.name, z3.StringSort(), z3.BoolSort())(key)
                        env.setdefault("__state__", set()).add(st.name)
                return f if isinstance(op, ast.In) else z3.Not(f)
            if isinstance(op, (ast.Eq, ast.NotEq)) and isinstance(r, ast.Constant) and isinstance(r.value, str):
                f = key == z3.StringVal(r.value)
                return f if isinstance(op, ast.Eq) else z3.Not(f)
        if isinstance(l, ast.Call) and isinstance(l.func, ast.Name) and l.func.id == "len" and isinstance(l.args[0], ast.Name) and l.args[0].id == "key" \
                and isinstance(r, ast.Constant) and isinstance(r.value, int):
            ln = z3.Length(key)
            return {ast.Lt: ln < r.value, ast.LtE: ln <= r.value, ast.Gt: ln > r.value, ast.GtE: ln >= r.value, ast.Eq: ln == r.value,
                    ast.NotEq: ln != r.value}[type(op)]
    if isinstance(cond, ast.Call) and isinstance(cond.func, ast.Attribute) and isinstance(cond.func.value, ast.Name) and cond.func.value.id == "key" \
            and cond.func.attr in ("startswith", "endswith") and len(cond.args) == 1:
        mk = (lambda v: z3.PrefixOf(z3.StringVal(v), key)) if cond.func.attr == "startswith" else (lambda v: z3.SuffixOf(z3.StringVal(v), key))
        if isinstance(cond.args[0], ast.Constant) and isinstance(cond.args[0].value, str):
            return mk(cond.args[0].value)
        # str.startswith / endswith of a tuple of strings (a literal or a name bound to a collection of literals)
        try:
            vals = _literal_strings(cond.args[0], env)
        except _Stateful as st:
            kind, vals = external_container(env["__fn__"], st.name)
            if kind != "const":
                raise Unsupported("prefix test against a mutable container %s" % st.name)
        return z3.Or(*[mk(v) for v in vals]) if vals else z3.BoolVal(False)
    if isinstance(cond, ast.Constant) and isinstance(cond.value, bool):
        return z3.BoolVal(cond.value)
    raise Unsupported("condition %s" % ast.dump(cond)[:80])


def find_key_loops(fn):
    """-> list of (condition ast, env of literal collections, warning category name or None)"""
    src = textwrap.dedent(inspect.getsource(fn))
    tree = ast.parse(src)
    f = tree.body[0]
    env = {}
    loops = []
    for node in ast.walk(f):
        if isinstance(node, ast.Assign) and len(node.targets) == 1 and isinstance(node.targets[0], ast.Name):
            try:
                env[node.targets[0].id] = _literal_strings(node.value, env)
            except Unsupported:
                pass
    for node in ast.walk(f):
        if isinstance(node, ast.For) and isinstance(node.target, ast.Name) and node.target.id == "key":
            for st in node.body:
                if isinstance(st, ast.If):
                    warns = [c for c in ast.walk(st) if isinstance(c, ast.Call) and isinstance(c.func, ast.Attribute) and c.func.attr == "warn"]
                    if warns:
                        cat = None
                        for kw in warns[0].keywords:
                            if kw.arg == "category":
                                cat = ast.unparse(kw.value)
                        loops.append((st.test, dict(env), cat, ast.unparse(node.iter)))
    return loops


def check_unknown_keys_warn(fn, documented, loop_index=0, timeout_ms=20000, extra_env=None):
    """returns list of (obligation id, verdict, detail, smt text, time)"""
    import time

    out = []
    try:
        loops = find_key_loops(fn)
        cond, env, cat, it = loops[loop_index]
        env.update(extra_env or {})
        env["__fn__"] = fn
        key = z3.String("key")
        f = translate(cond, key, env)
        state = sorted(env.pop("__state__", ()))
        env.pop("__fn__", None)
    except (Unsupported, IndexError, _Stateful) as e:
        return [("%s: key loop" % fn.__name__, "inconclusive", "source not in the translatable subset: %s" % e, "", 0.0)]
    doc = z3.Or(*[key == z3.StringVal(v) for v in documented])
    # "unknown" keys are those neither documented for users nor listed as implemented in the source
    listed = set(documented)
    for v in env.values():
        listed |= set(v)
    known = z3.Or(*[key == z3.StringVal(v) for v in sorted(listed)])
    for oid, goal in (("every unknown key produces a warning", z3.And(z3.Not(known), z3.Not(f))),
                      ("no documented key produces a warning", z3.And(doc, f))):
        s = z3.Solver()
        s.set("timeout", timeout_ms)
        s.add(goal)
        t0 = time.time()
        r = str(s.check())
        detail = ""
        if r == "sat":
            detail = s.model()[key].as_string() if s.model()[key] is not None else ""
        elif r != "unsat":
            # the string solver gave up: look for a model among strings built from the literals of the formula (each literal
            # with a character added in front or behind, or dropped) - a candidate is accepted only if the *ground* formula
            # simplifies to true, i.e. it is a checked model of the query
            cands = ["zz"]
            for v in sorted(listed):
                cands += [v + "_x", v + "2", "x_" + v, v[:-1]]
            for c in cands:
                if c and z3.is_true(z3.simplify(z3.substitute(goal, (key, z3.StringVal(c))))):
                    r, detail = "sat", c
                    break
        out.append(("%s: %s%s" % (fn.__name__, oid, (" (for any contents of %s left by earlier calls)" % ", ".join(state)) if state else ""),
                    {"unsat": "discharged", "sat": "candidate"}.get(r, "inconclusive"), detail, s.to_smt2(), time.time() - t0))
    if cat is None or "RuntimeWarning" not in cat:
        out.append(("%s: warning category is RuntimeWarning" % fn.__name__, "candidate", "category=%s" % cat, "", 0.0))
    else:
        out.append(("%s: warning category is RuntimeWarning" % fn.__name__, "discharged", "", "", 0.0))
    return out
