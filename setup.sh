#!/bin/bash
# Build the overlay interpreter used by every check (offline, from the wheelhouse).
set -e
cd "$(dirname "$0")"
if [ ! -x .venv/bin/python ] || ! .venv/bin/python -c "import z3, crosshair" 2>/dev/null; then
  rm -rf .venv
  /venv/bin/python -m venv .venv
  echo "import site; site.addsitedir('/venv/lib/python3.12/site-packages')" > .venv/lib/python3.12/site-packages/_base.pth
  PIP_NO_INDEX=1 .venv/bin/pip install -q --no-index --find-links /opt/veriftools/wheels z3-solver cvc5 crosshair-tool
fi
.venv/bin/python -c "import z3, cvc5, crosshair, numpy, openmdao; print('verif venv ok', z3.get_version_string())"
