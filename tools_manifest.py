#!/usr/bin/env python3
"""Regenerate MANIFEST.json from the table below (keeps the file valid and consistent)."""
import json

NA_REASON = "check not built yet (framework under construction)"
NA = {"C12": "The property is about the limit of OpenMDAO's iterative nonlinear (block Gauss-Seidel/Aitken, Newton) and linear solvers over floating point with LAPACK/SuperLU solves in the loop: data-dependent trip counts cannot be executed symbolically, and a bounded unrolling proves nothing about convergence, uniqueness of the fixed point or independence from the initial guess. Its algebraic ingredients are decided under C03 (history independence, per-instance solver state), C05 (tangency system), C10 (beam equilibrium), C11 (transfer)."}
TECH = {"C20": "CrossHair symbolic execution of the real validation code (z3) + AST-to-SMT translation of the key loops + symoas domain obligations (z3 NRA)"}
T = "symbolic execution of the real numpy code on object arrays + SMT (z3 nonlinear real arithmetic) per obligation; counterexamples replayed on the real component"
NOTE = ("Bounds: small mesh sizes (stated in the evidence); reals instead of IEEE doubles; OpenMDAO itself trusted; "
        "inconclusive (timeout/unknown) obligations are listed in the evidence and not claimed.")
CHECKS = {
 "C01": ("Bounded symbolic verification: the real compute/compute_partials (apply_nonlinear/linearize) of every analytic component run on symbolic inputs; for each Jacobian entry (incl. undeclared pairs and entries outside rows/cols) an SMT query shows J_code[i,j] == d out_i/d in_j for ALL real inputs at the bounded mesh sizes, or returns a counterexample that is replayed on the real OpenMDAO problem against Richardson central differences.",
         NOTE + " Derivative oracle = own symbolic differentiator (validated each run against finite differences of the real component); pairs declared method='cs'/'fd' are skipped; vortex kernels are abstracted by uninterpreted functions inside EvalVelMtx with the kernel contracts discharged separately.", "DESIGN.md 3/C01"),
 "C03": ("One inductive step from an arbitrary symbolic pre-state (all output entries, all sub-Jacobian storage, every attribute assigned outside setup): the real compute+compute_partials must yield outputs and Jacobian entries independent of the pre-state symbols (SMT query expr(x,g) != expr(x,g') unsat); covers every finite history of run_model/linearize on one live component. Counterexamples are replayed with real Problem histories.",
         NOTE + " Assumes OpenMDAO calls compute before compute_partials at the same point and keeps no state of its own.", "DESIGN.md 3/C03"),
 "C10": ("The assembled stiffness matrix of the real chain (Transform, Length, LocalStiff, LocalStiffPermuted, LocalStiffTransformed, FEM.assemble_CSC_K) equals, entry by entry and for all symbolic nodes/section properties, an independently written 3-D Euler-Bernoulli frame assembly; symmetry (Maxwell-Betti), clamp rows, residual form K u - f, CreateRHS/Disp, and cantilever closed forms (ny=2) are further solver obligations.",
         NOTE + " The sparse LU itself is not modelled: what is verified is the equation being solved. Reference element and assembly (about 70 lines in props/c10.py) are trusted.", "DESIGN.md 3/C10"),
 "C11": ("Force and moment conservation of LoadTransfer (spar position symbolic in [0,1]) and MeshPointForces about an arbitrary symbolic point, and the zero / pure-translation / first-order-rotation identities of ComputeNodes -> ComputeTransformationMatrix -> DisplacementTransfer, as SMT identities over all real meshes, forces and displacements.",
         NOTE, "DESIGN.md 3/C11"),
 "C15": ("Von Mises stresses (tube and wingbox): non-negativity, zero under rigid-body motion, linear scaling with the displacement field (k>0 and k<0), frame-independent closed form for the tube; FailureExact formula; KS aggregate bounds fmax <= KS <= fmax + ln(N)/rho and non-positive exponent arguments on every arg-max path - all as SMT obligations (sqrt atoms with solver-proved relation lemmas; exp/log atoms with instantiated monotonicity facts).",
         NOTE + " exp/log are uninterpreted atoms constrained by instantiated axioms only.", "DESIGN.md 3/C15"),
 "C16": ("Mass, cg, and total force / total moment (about an arbitrary symbolic point) of structural-weight, fuel, point-mass and thrust loads, the TotalLoads sum and the fuel-volume margin equal first-principles sums for all symbolic nodes, areas, masses and load factors.",
         NOTE, "DESIGN.md 3/C16"),
 "C17": ("Defining identities of TotalLiftDrag, SumAreas, Equilibrium (incl. residual = 0 iff L = W), BreguetRange, CenterOfGravity, MomentCoefficient, ReynoldsComp as SMT identities over all real inputs for 1-3 surfaces; atmosphere: on each of the 111 table intervals (Akima pieces taken as concrete polynomials) derivative consistency, v = M a, continuity at nodes, positivity and ideal-gas / speed-of-sound consistency within 0.5% as univariate polynomial (in)equalities decided by the solver.",
         NOTE + " scipy's construction of the Akima coefficients is taken as data; the 0.5% consistency tolerance is this design's reading of 'mutually consistent'.", "DESIGN.md 3/C17"),
 "C06": ("Dynamic-pressure (rho -> a rho, v -> b v), length (k) and translation laws and the lift/drag decomposition posed as SMT identities between two symbolic executions of each real aerodynamic component with related symbolic inputs (ConvertVelocity, VLMMtxRHSComp, EvalVelocities, PanelForces, CollocationPoints, VortexMesh, GetVectors, VLMGeometry, LiftDrag, LiftCoeff2D, Coeffs, MomentCoefficient, RotationalVelocity, ViscousDrag, WaveDrag) plus the 1/k scaling lemma of the real vortex kernels.",
         NOTE + " The laws are verified component by component; their composition through the linear solve uses the stated algebraic step (a nonsingular system has a unique solution). Kernel scaling assumes both configurations lie outside the absolute 1e-10 tolerance band.", "DESIGN.md 3/C06"),
 "C09": ("Reduced claim: the algebraic identities of the Prandtl-Glauert pipeline components - documented wind-frame rotation matrix, RotateFrom o RotateTo = identity, scaling exponents (points 1,b,b; normals b,1,1; rotational velocities b^2,b,b; forces 1/b^4,1/b^3,1/b^3), identity at Mach 0, rotation covariance of the real vortex kernels and orthogonality of the rotation - as SMT identities over all real inputs.",
         NOTE + " Not decided: continuity in Mach beyond the algebraic form; the end-to-end compressible-vs-incompressible comparison is reduced to the kernel covariance lemmas.", "DESIGN.md 3/C09"),
 "C13": ("Each geometry transformation run symbolically on a symbolic mesh (constant-y chord lines, reference-axis position symbolic in [0,1]): default value => output == input, and the documented effect (taper law, chord scaling about the reference axis, sweep/dihedral tan(angle) x distance from root, shears as translations, span sets the extent, twist preserves chord length and the reference axis) as SMT identities; B-spline row sums as ground queries.",
         NOTE + " Known finding listed: Rotate(rotate_x) is not a no-op at zero twist for non-flat sections with dihedral. OpenMDAO's SplineComp matrix is taken as data.", "DESIGN.md 3/C13"),
 "C14": ("generate_mesh / getFullMesh executed with symbolic span, chord, cosine-spacing blends in [0,1] and offset: ordering, extents, mirror symmetry, offset-as-translation, half == left half of full, mirroring back == full as SMT obligations; multi-section generate_mesh/unify_mesh with symbolic per-section span, taper, sweep: coincident edges, unify == contiguous surface, ordering; CRM tables and the special spacing value as ground queries on the real output.",
         NOTE + " CRM planform tables are concrete data; concrete cosines are the doubles numpy computes.", "DESIGN.md 3/C14"),
 "C18": ("Reduced claim: option off => exactly 0; TotalDrag sum; wave drag zero below the critical Mach number, positive, increasing in Mach and lift, continuous and smooth at onset on every path; viscous drag positive, decreasing in Reynolds number and increasing in t/c for fully turbulent / fully laminar flow; spanwise and chordwise panel-count independence on constant-chord wings - as SMT obligations with log/pow atoms.",
         NOTE + " With transition (0 < k_lam < 1) positivity and Re-monotonicity need monotonicity of x/log10(x)^2.58, outside the instantiated axioms: posed and reported inconclusive.", "DESIGN.md 3/C18"),
 "C04": ("Half-model expressions == full-model expressions on a mirror-symmetric symbolic configuration: AIC with the mirrored panel folded in, right-hand side and sectional forces of the real VLM pipeline (kernels as canonicalised uninterpreted functions), and the factor-of-two conventions of VLMGeometry, LiftDrag, LiftCoeff2D, ViscousDrag, WaveDrag, MomentCoefficient, Weight, StructuralCG, StructureWeightLoads, each as SMT identities; the off-plane-root configuration is posed against the explicit two-half model.",
         NOTE + " Equal matrices and right-hand sides imply equal solutions for a nonsingular system (stated algebraic step); the coupled aerostructural fixed point is not decided. Known findings listed: doubled wave-drag coefficient, ghost mesh of an off-plane root.", "DESIGN.md 3/C04"),
 "C05": ("AIC, right-hand side, SolveMatrix residual (= tangency condition) and panel forces of the real pipeline (CollocationPoints, VortexMesh, GetVectors, EvalVelMtx, ConvertVelocity, RotationalVelocity, VLMGeometry, VLMMtxRHSComp, HorseshoeCirculations, EvalVelocities, PanelForces) equal, entry by entry for all symbolic meshes and flow conditions, an independently written panel/corner Biot-Savart model; the real kernels are proved equal to the textbook Katz-Plotkin segment and semi-infinite formulas, antisymmetric and mirror-covariant as separate solver lemmas.",
         NOTE + " Inside the pipeline comparison the kernels are uninterpreted functions on both sides; LAPACK's LU accuracy is not modelled. The reference model (about 120 lines in props/c05.py) is trusted.", "DESIGN.md 3/C05"),
 "C07": ("Mirrored-input executions give mirrored outputs: aerodynamic states of full-span configurations (sideslip, roll/yaw rates, cg mirrored) and left-half vs right-half symmetric models; every geometry transformation on left/right halves and full span; tube and wingbox stresses; structural-weight, fuel, point-mass and thrust loads - SMT identities between two symbolic executions of the real components.",
         NOTE + " Known findings listed: root-at-last-index assumption of Sweep/Dihedral/Taper/Rotate on right-half meshes, VonMisesWingbox end-node choice. Coupled convergence not decided.", "DESIGN.md 3/C07"),
 "C08": ("Reduced claim: with groundplane=True the AIC, right-hand side and forces of the real pipeline equal, entry by entry, those of an independently written image system (reflection about the alpha-rotated plane through n*h, image strength -1, for the surface and its symmetry image).",
         NOTE + " Not decided: convergence to free air as the height grows (a limit). Rejection without symmetry is part of C20.", "DESIGN.md 3/C08"),
 "C02": ("Reduced claim (OpenAeroStruct's own sufficient conditions for correct and mode-independent totals): FEM and SolveMatrix report dR/du equal to the matrix they factorise; solve_linear (scipy LU replaced by a contract stub A x = b / A^T x = b) satisfies the forward and the transposed system, for FEM relying on the proved symmetry of K, with a non-symmetric twin refuted; the MPhys mux/demux matrix-free products equal the derivative of compute and are mutually adjoint; index maps are inverse permutations.",
         NOTE + " C01 is a premise. Trusted, not decided: OpenMDAO's chain-rule assembly, convergence and agreement of its Direct/LinearBlockGS/Krylov solvers, accuracy of cs/fd approximated partials.", "DESIGN.md 3/C02"),
 "C19": ("Reduced claim: permuting the surface list permutes AIC, right-hand side and forces of the real pipeline consistently; splitting a full-span surface at an interior station into two abutting surfaces gives the same AIC/rhs up to the panel permutation and the same sectional forces (SMT identities over canonicalised kernel atoms); the MPhys solver group contains the native state components.",
         NOTE + " Not decided: vanishing influence of a far-away surface (a limit). Mux/demux inverse and adjointness are obligations of C02.", "DESIGN.md 3/C19"),
 "C20": ("Reduced claim: CrossHair contracts on the invalid-input domain of the real API (even num_y, unknown wing type, unknown structural model through SpatialBeamAlone and AerostructGeometry, exactly one wingbox thickness distribution, ground effect without symmetry through AeroPoint, wrong-length section lists), each with a refuted reachability twin; the two key-validation loops translated from their AST to SMT over strings (every unknown key warns with RuntimeWarning, no documented key warns); solver obligations that every divisor, sqrt and log argument of 21 components is in-domain on admissible inputs; option arrays read-only during all symbolic executions; ast scan for module-level state.",
         NOTE + " Not decided: bit-for-bit reproducibility between runs/problems beyond the absence of module-level state. CrossHair explores within its per-condition budget, strings <= 7 characters.", "DESIGN.md 3/C20"),
}


def main():
    props = [json.loads(l) for l in open("/verif/properties.jsonl")]
    m = {"version": 1, "setup_cmd": "./setup.sh",
         "hooks": {"guard": "OAS_VERIF", "enable": "no source hooks: all interposition is done from outside by rebinding module globals at check time",
                   "baseline_off_cmd": "cd /repo && /venv/bin/python -m pytest -ra -q -p no:cacheprovider --timeout=900 --continue-on-collection-errors",
                   "source_commits": [], "add_only": True},
         "engines": [{"name": "symoas", "path": "/verif/symoas", "serves_properties": sorted(CHECKS),
                      "kind_free_text": "symbolic execution of the real numpy code on object arrays of hash-consed symbolic scalars, lowered to SMT-LIB2 and decided by z3 (NRA) on 16 workers; CrossHair for pure-Python validation code"}],
         "checks": [], "not_applicable": [], "notes": "see DESIGN.md; fixes to /repo are listed in known_findings.jsonl (status fixed)"}
    na = json.load(open("/verif/na_reasons.json")) if __import__("os").path.exists("/verif/na_reasons.json") else {}
    for p in props:
        pid = p["id"]
        if pid in CHECKS:
            text, note, dref = CHECKS[pid]
            m["checks"].append({"property_id": pid, "quick_cmd": "./check %s --tier quick" % pid,
                                "thorough_cmd": "./check %s --tier thorough" % pid,
                                "evidence_file": "/verif/evidence/%s.json" % pid,
                                "replay_cmd_template": "./check %s --replay {path}" % pid, "engine": "symoas",
                                "level_claimed": {"category": "other", "text": text, "design_ref": dref},
                                "level_note": note, "technique": TECH.get(pid, T)})
        else:
            m["not_applicable"].append({"property_id": pid, "reason": NA.get(pid, na.get(pid, NA_REASON))})
    json.dump(m, open("/verif/MANIFEST.json", "w"), indent=1)
    print("checks:", [c["property_id"] for c in m["checks"]], "n/a:", [e["property_id"] for e in m["not_applicable"]])


if __name__ == "__main__":
    main()
