#!/usr/bin/env python3
"""Run checks against a seeded change:  tools_seeded.py <seeded id> [--tier quick|thorough] [--props C01,C03]

Applies /verif/seeded/<id>/patch.diff to /repo, runs the checks of the property it breaks (and any extra ones listed),
and ALWAYS restores /repo afterwards (git checkout -- .).  Prints which checks raised a VIOLATION."""
import json
import os
import subprocess
import sys

V = os.path.dirname(os.path.abspath(__file__))


def main():
    sid = sys.argv[1]
    tier = "quick"
    props = None
    only = None
    for i, a in enumerate(sys.argv):
        if a == "--tier":
            tier = sys.argv[i + 1]
        if a == "--props":
            props = sys.argv[i + 1].split(",")
        if a == "--only":
            only = sys.argv[i + 1]
    d = os.path.join(V, "seeded", sid)
    meta = json.load(open(os.path.join(d, "meta.json")))
    props = props or meta.get("checks") or [meta["property"]]
    st = subprocess.run(["git", "-C", "/repo", "status", "--porcelain", "--untracked-files=no"], capture_output=True, text=True).stdout.strip()
    if st:
        print("refusing: /repo has uncommitted tracked changes:\n" + st)
        return 2
    # evidence files are rewritten by every run: keep the clean-tree ones aside and put them back afterwards
    import shutil
    import tempfile

    keep = tempfile.mkdtemp(prefix="evidence_keep_")
    for p in props:
        f = os.path.join(V, "evidence", p + ".json")
        if os.path.exists(f):
            shutil.copy2(f, keep)
    subprocess.run(["git", "-C", "/repo", "apply", os.path.join(d, "patch.diff")], check=True)
    res = {}
    try:
        for p in props:
            cmd = [os.path.join(V, "check"), p, "--tier", tier]
            if only or meta.get("only", {}).get(p):
                cmd += ["--only", only or meta["only"][p]]
            r = subprocess.run(cmd, capture_output=True, text=True, cwd=V)
            viol = [l for l in r.stdout.splitlines() if l.startswith("VIOLATION")]
            res[p] = {"exit": r.returncode, "violations": viol, "tail": r.stdout.splitlines()[-1:] }
            print("== %s exit=%d" % (p, r.returncode))
            for l in viol[:6]:
                print("   " + l[:400])
            if not viol:
                print("   (no violation) " + " | ".join(res[p]["tail"]))
    finally:
        subprocess.run(["git", "-C", "/repo", "checkout", "--", "."], check=True)
        for f in os.listdir(keep):
            shutil.copy2(os.path.join(keep, f), os.path.join(V, "evidence", f))
        shutil.rmtree(keep, ignore_errors=True)
    print(json.dumps({k: (v["exit"], len(v["violations"])) for k, v in res.items()}))
    return 0


if __name__ == "__main__":
    sys.exit(main())
