#!/usr/bin/env python3
"""Write the task file of one seeded-change sub-agent:  tools_tasks.py <worktree name> <property id> [<extra guidance>]

The sub-agent gets the property text, its own scratch worktree /tmp/wt/<name> and the *names* of the changes already
studied (so that it looks elsewhere) - nothing from /verif.  Output: /tmp/wt/task_<name>.txt (and /tmp/wt/prop_<id>.txt)."""
import json
import os
import subprocess
import sys

V = os.path.dirname(os.path.abspath(__file__))
WT = "/tmp/wt"


def prop_text(pid):
    for l in open(os.path.join(V, "properties.jsonl")):
        d = json.loads(l)
        if d["id"] == pid:
            mech = "\n".join("  - %s (%s)" % (m["name"], m["where"]) for m in d["anchors"].get("mechanism", []))
            return ("Property %s: %s\n\n%s\n\nQuantified over: %s\n\nWhy tests cannot settle it: %s\n\nAnchor files: %s\n\nMechanisms:\n%s\n" % (
                pid, d["title"], d["statement"], d["quantifier"]["text"], d["why_tests_cant"], ", ".join(d["anchors"]["files"]), mech))
    raise SystemExit("unknown property " + pid)


def main():
    name, pid = sys.argv[1], sys.argv[2]
    extra = sys.argv[3] if len(sys.argv) > 3 else ""
    os.makedirs(WT, exist_ok=True)
    wt = os.path.join(WT, name)
    if not os.path.isdir(wt):
        subprocess.run(["git", "-C", "/repo", "worktree", "add", "--detach", wt, "HEAD"], check=True, capture_output=True)
    text = prop_text(pid)
    open(os.path.join(WT, "prop_%s.txt" % pid), "w").write(text)
    studied = sorted(os.listdir(os.path.join(V, "seeded")))
    task = """You are working in a scratch git worktree of the open-source Python project mdolab/OpenAeroStruct located at {wt} (no network access). Work ONLY inside that directory. Run Python as `cd {wt} && /venv/bin/python ...` so that the local `openaerostruct` package of the worktree is imported (verify once with `/venv/bin/python -c "import openaerostruct; print(openaerostruct.__file__)"` from inside the worktree: it must print a path under {wt}). The worktree is clean at the start. Do not read or use anything under /verif and do not touch /repo. NEVER use `git stash` (the stash is shared between worktrees): to compare with the unchanged code use `git diff > x.patch; git apply -R x.patch; ...; git apply x.patch`.

Here is a semantic property of the library:

{text}

Your task: make ONE realistic change to the library source under {wt}/openaerostruct (not to the tests, docs or examples) that BREAKS this property, while (a) the package still imports and (b) the existing test-suite still passes. Realistic = a plausible maintainer slip or a plausible "tidy-up"/refactoring that silently changes behaviour: a wrong index/offset/sign/factor on one branch, a value taken from the wrong surface or the wrong variable of the same shape, an option or dictionary key read at the wrong time or with the wrong default, a promotion/connection that silently changes which variable feeds a component, a unit or table slip, state kept between calls. The change must need something specific to manifest (an option combination, a size, a number of surfaces, a value range, a sequence of calls) that the stored-value regression tests and the per-component derivative checks do not exercise; say precisely what. {extra}

The following changes have been studied already (names only) - choose a different file or a clearly different mechanism:
{studied}

Verify: run the most relevant test directories first, then the full suite `/venv/bin/python -m pytest -q -p no:cacheprovider --timeout=900` (about 6 minutes; three tests already fail on the unchanged tree and can be ignored: test_scaneagle::test_totals, test_simple_rect_mphys_aero, test_simple_rect_mphys_aero_compressible). All other tests must still pass with your change. If a trial change is caught by the suite, revert it and try another one.

Also write a small demonstration script {wt}/demo.py: plain Python using the public API that exercises the triggering configuration and checks the property's statement directly from first principles (not against stored numbers). It must exit with status 1 and print a message when the property is violated and exit 0 otherwise: it has to FAIL with your change and PASS on the unchanged code (check both).

Deliver: leave your change as uncommitted modifications in the worktree (so that `git -C {wt} diff` shows it), the demo at {wt}/demo.py, remove x.patch and any `*_out` report directories and __pycache__ the runs create, and report back: (0) the property, (1) the diff, (2) what it needs in order to manifest, (3) which tests you ran and their results, (4) the demo's output with and without the change. Do not commit, do not touch anything outside {wt}.
""".format(wt=wt, text=text, extra=extra, studied="\n".join("  - " + s for s in studied))
    open(os.path.join(WT, "task_%s.txt" % name), "w").write(task)
    print(os.path.join(WT, "task_%s.txt" % name))


if __name__ == "__main__":
    main()
