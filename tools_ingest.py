#!/usr/bin/env python3
"""tools_ingest.py <worktree> <seeded id> <property> <checks,comma> <needs...>  - copy a confirmed seeded change into /verif/seeded"""
import json, os, subprocess, sys, shutil
wt, sid, prop, checks = sys.argv[1:5]
needs = " ".join(sys.argv[5:])
d = os.path.join("/verif/seeded", sid)
os.makedirs(d, exist_ok=True)
raw = subprocess.run(["git", "-C", wt, "diff", "--binary"], capture_output=True).stdout  # bytes: some files have CRLF endings
open(os.path.join(d, "patch.diff"), "wb").write(raw)
diff = raw.decode("utf-8", "replace")
shutil.copy(os.path.join(wt, "demo.py"), os.path.join(d, "demo.py"))
w = subprocess.run(["/venv/bin/python", "demo.py"], cwd=wt, capture_output=True, text=True)
# (not `git stash`: the stash is shared by all worktrees of a repository)
subprocess.run(["git", "-C", wt, "apply", "-R", os.path.join(d, "patch.diff")], check=True)
wo = subprocess.run(["/venv/bin/python", "demo.py"], cwd=wt, capture_output=True, text=True)
subprocess.run(["git", "-C", wt, "apply", os.path.join(d, "patch.diff")], check=True)
meta = {"property": prop, "checks": checks.split(","), "needs": needs,
        "files_changed": [l[6:] for l in diff.splitlines() if l.startswith("+++ b/")],
        "confirmed": {"demo_exit_with_change": w.returncode, "demo_exit_without_change": wo.returncode,
                      "demo_tail_with_change": w.stdout.strip().splitlines()[-3:],
                      "what_was_run": "demo.py in a scratch worktree with and without the change; the repository test-suite with the change (see suite field)"}}
json.dump(meta, open(os.path.join(d, "meta.json"), "w"), indent=1)
print(sid, "demo with/without:", w.returncode, wo.returncode)
